"""Shared machinery for /verif/check: TLC wrapper, cargo wrapper, harness runner,
evidence writer, known-findings handling.  Python stdlib only."""
import json
import os
import re
import shutil
import subprocess
import sys
import time

VERIF = os.path.dirname(os.path.dirname(os.path.abspath(__file__)))
SPEC = os.path.join(VERIF, "spec")
HARNESS = os.path.join(VERIF, "harness")
EVIDENCE = os.path.join(VERIF, "evidence")
REPLAYS = os.path.join(VERIF, "replays")
WORKROOT = os.path.join(VERIF, ".work")
KNOWN = os.path.join(VERIF, "known_findings.json")
TLA_CP = "/opt/veriftools/tla/tla2tools.jar:/opt/veriftools/tla/CommunityModules-deps.jar"
REPO = "/repo"


class ToolError(Exception):
    """Broken tooling (exit 2): TLC parse error, build failure, timeout, vacuity."""


class Ctx:
    """Per-invocation context: property id, tier, seed, work dir, collected results."""

    def __init__(self, pid, tier, seed):
        self.pid = pid
        self.tier = tier
        self.seed = seed
        self.t0 = time.time()
        self.work = os.path.join(WORKROOT, "%s-%d" % (pid, os.getpid()))
        if os.path.exists(self.work):
            shutil.rmtree(self.work)
        os.makedirs(self.work)
        self.violations = []   # list of dict(key=..., detail=..., replay=path)
        self.tlc_runs = []     # list of TLCResult summaries
        self.coverage = {}
        self.assumptions = []
        self.notes = []

    def path(self, *p):
        return os.path.join(self.work, *p)

    def quick(self):
        return self.tier == "quick"

    def log(self, *a):
        print("[%s %6.1fs]" % (self.pid, time.time() - self.t0), *a, flush=True)

    def cleanup(self):
        shutil.rmtree(self.work, ignore_errors=True)


# --------------------------------------------------------------------------
# TLC


class TLCResult:
    def __init__(self):
        self.generated = 0
        self.distinct = 0
        self.depth = 0
        self.ok = False
        self.error = None          # short description of invariant/property violation
        self.prints = []           # parsed values of PrintT(<<"TAG", json>>)
        self.actions = {}          # action name -> (distinct, generated) from -coverage
        self.log = ""
        self.cmd = ""
        self.wall = 0.0
        self.mode = "bfs"

    def summary(self):
        return {"cmd": self.cmd, "mode": self.mode, "states_generated": self.generated,
                "distinct_states": self.distinct, "depth": self.depth,
                "actions": {k: v[1] for k, v in self.actions.items()},
                "wall_s": round(self.wall, 1), "ok": self.ok}


_PRINT_RE = re.compile(r'^<<"([A-Z_]+)", (".*")>>$')
_COV_RE = re.compile(r'^<(\w+) line \d+, col \d+ to line \d+, col \d+ of module (\w+)(?: \([\d ]+\))?>: (\d+):(\d+)')


def run_tlc(ctx, module, cfg, *, workers=8, simulate=None, depth=None, timeout=600,
            xmx="8g", env=None, deque=False, tags=("REPLAY",), coverage=True,
            expect_error=False, extra=()):
    """Run TLC on spec/<module>.tla with spec/<cfg>.  simulate=(num) → -simulate num=N.
    Returns TLCResult.  Raises ToolError on parse errors / timeouts."""
    res = TLCResult()
    cfgname = os.path.basename(cfg).replace(".cfg", "")
    meta = ctx.path("tlc-%s-%d" % (cfgname, len(ctx.tlc_runs)))
    os.makedirs(meta, exist_ok=True)
    jopts = ["-XX:+UseParallelGC", "-Xmx" + xmx, "-Xss1g"]
    if deque:
        jopts.append("-Dtlc2.tool.queue.IStateQueue=StateDeque")
    cmd = ["java"] + jopts + ["-cp", TLA_CP, "tlc2.TLC", "-workers", str(workers),
                              "-config", cfg, "-metadir", meta, "-noGenerateSpecTE",
                              "-seed", str(ctx.seed)]
    if coverage:
        cmd += ["-coverage", "1"]
    if simulate is not None:
        cmd += ["-simulate", "num=%d" % simulate]
        res.mode = "simulate"
    if depth is not None:
        cmd += ["-depth", str(depth)]
    cmd += list(extra)
    cmd += [module + ".tla"]
    res.cmd = "tlc " + " ".join(cmd[cmd.index("tlc2.TLC") + 1:])
    e = dict(os.environ)
    if env:
        e.update(env)
    t0 = time.time()
    logp = os.path.join(meta, "tlc.log")
    with open(logp, "w") as lf:
        try:
            p = subprocess.run(cmd, cwd=SPEC, env=e, stdout=lf, stderr=subprocess.STDOUT,
                               timeout=timeout)
            rc = p.returncode
        except subprocess.TimeoutExpired:
            rc = -9
    res.wall = time.time() - t0
    with open(logp, errors="replace") as lf:
        text = lf.read()
    res.log = logp
    for line in text.splitlines():
        m = _PRINT_RE.match(line)
        if m and m.group(1) in tags:
            try:
                res.prints.append((m.group(1), json.loads(json.loads(m.group(2)))))
            except Exception as ex:  # pragma: no cover
                raise ToolError("cannot parse TLC print line: %s (%s)" % (line[:200], ex))
            continue
        m = _COV_RE.match(line)
        if m:
            name = m.group(1)
            d, g = int(m.group(3)), int(m.group(4))
            od, og = res.actions.get(name, (0, 0))
            res.actions[name] = (od + d, og + g)
            continue
        m = re.match(r"^(\d+) states generated, (\d+) distinct states found", line)
        if m:
            res.generated, res.distinct = int(m.group(1)), int(m.group(2))
        m = re.match(r"^The number of states generated: (\d+)", line)
        if m:
            res.generated = int(m.group(1))
            res.distinct = max(res.distinct, 0)
        m = re.match(r"^The depth of the complete state graph search is (\d+)", line)
        if m:
            res.depth = int(m.group(1))
        if line.startswith("Error:") and res.error is None:
            res.error = line
    if rc == -9:
        raise ToolError("TLC timed out after %ds: %s (log %s)" % (timeout, res.cmd, logp))
    if "Parsing or semantic analysis failed" in text or "***Parse Error***" in text \
            or "Semantic errors" in text:
        raise ToolError("TLC parse error in %s: see %s\n%s" % (module, logp, text[-2000:]))
    res.ok = ("No error has been found" in text) or \
             (res.mode == "simulate" and res.error is None and rc == 0)
    if not res.ok and res.error is None:
        raise ToolError("TLC failed without a reported error (rc=%s): %s\n%s"
                        % (rc, logp, text[-3000:]))
    if not res.ok and not expect_error:
        # keep the log for inspection
        keep = os.path.join(REPLAYS, "%s-tlc-%s.log" % (ctx.pid, cfgname))
        os.makedirs(REPLAYS, exist_ok=True)
        shutil.copy(logp, keep)
        res.log = keep
    ctx.tlc_runs.append(res)
    return res


def make_cfg(ctx, base, **consts):
    """Copy spec/<base> into the work dir with the given CONSTANT values replaced."""
    text = open(os.path.join(SPEC, base)).read()
    for k, v in consts.items():
        text, n = re.subn(r"(?m)^(\s*%s\s*=\s*).*$" % re.escape(k), lambda m: m.group(1) + str(v), text)
        if n != 1:
            raise ToolError("constant %s not found exactly once in %s" % (k, base))
    out = ctx.path("%s-%d.cfg" % (base.replace(".cfg", ""), len(os.listdir(ctx.work))))
    with open(out, "w") as f:
        f.write(text)
    return out


def require_actions(res, names, what=""):
    """Vacuity guard: every named action must have fired in this TLC run."""
    missing = [n for n in names if res.actions.get(n, (0, 0))[1] == 0]
    if missing:
        raise ToolError("vacuous TLC run %s: actions never taken: %s (log %s)"
                        % (what or res.cmd, missing, res.log))


def tamper_trace(ctx, trace, name, pick, change):
    """Binding self-test support: copy `trace` with the first line for which pick(record) holds changed by
    change(record) (None = drop the line).  Returns the new path, or None when no line qualifies."""
    lines = open(trace).read().splitlines()
    for i, ln in enumerate(lines):
        d = json.loads(ln)
        if pick(d):
            nd = change(d)
            out = lines[:i] + ([json.dumps(nd)] if nd is not None else []) + lines[i + 1:]
            path = ctx.path(name)
            with open(path, "w") as f:
                f.write("\n".join(out) + "\n")
            return path
    return None


def sany(module):
    p = subprocess.run(["java", "-cp", TLA_CP, "tla2sany.SANY", module + ".tla"], cwd=SPEC,
                       stdout=subprocess.PIPE, stderr=subprocess.STDOUT, text=True)
    bad = p.returncode != 0 or "*** Errors" in p.stdout or "Parse Error" in p.stdout \
        or "Fatal errors" in p.stdout
    return (not bad), p.stdout


# --------------------------------------------------------------------------
# cargo / harness

def cargo_build(ctx, pkg, release=False, timeout=3000):
    """(Re)build a harness binary against /repo's current working tree (hooks on)."""
    cmd = ["cargo", "build", "--offline", "-q", "-p", pkg]
    if release:
        cmd.append("--release")
    env = dict(os.environ)
    env["CARGO_NET_OFFLINE"] = "true"
    t0 = time.time()
    p = subprocess.run(cmd, cwd=HARNESS, env=env, stdout=subprocess.PIPE,
                       stderr=subprocess.STDOUT, text=True, timeout=timeout)
    if p.returncode != 0:
        raise ToolError("cargo build -p %s failed:\n%s" % (pkg, p.stdout[-6000:]))
    if ctx:
        ctx.log("built %s (%s) in %.0fs" % (pkg, "release" if release else "dev", time.time() - t0))
    return os.path.join(HARNESS, "target", "release" if release else "debug", pkg)


class HarnessResult:
    def __init__(self):
        self.stats = {}
        self.violations = []
        self.rc = 0
        self.out = ""


def run_harness(ctx, binary, args, *, timeout=1800, env=None, stdin=None, allow_rc=(0,)):
    """Run a harness binary.  Protocol on stdout:
       VIOLATION <json>   one per violation {key, detail, replay(optional object)}
       STAT <json>        (last one wins; merged) coverage counters
    A crash of the harness itself (non-zero rc without STAT) is a tool error unless the
    harness reported it as data."""
    e = dict(os.environ)
    e["VERIF_SEED"] = str(ctx.seed)
    e["VERIF_TIER"] = ctx.tier
    e.setdefault("RUST_BACKTRACE", "0")
    if env:
        e.update(env)
    hr = HarnessResult()
    logp = ctx.path("harness-%d.log" % int(time.time() * 1000))
    with open(logp, "w") as lf:
        try:
            p = subprocess.run([binary] + [str(a) for a in args], cwd=ctx.work, env=e,
                               stdout=subprocess.PIPE, stderr=lf, text=True,
                               timeout=timeout, input=stdin)
        except subprocess.TimeoutExpired:
            raise ToolError("harness timed out after %ds: %s %s" % (timeout, binary, args))
    hr.rc = p.returncode
    hr.out = p.stdout
    for line in p.stdout.splitlines():
        if line.startswith("VIOLATION "):
            hr.violations.append(json.loads(line[len("VIOLATION "):]))
        elif line.startswith("STAT "):
            hr.stats.update(json.loads(line[len("STAT "):]))
    if hr.rc not in allow_rc or not hr.stats:
        with open(logp, errors="replace") as lf:
            err = lf.read()[-4000:]
        raise ToolError("harness %s %s failed rc=%s\nstdout tail:\n%s\nstderr tail:\n%s"
                        % (os.path.basename(binary), args, hr.rc, p.stdout[-2000:], err))
    return hr


def run_harness_chunked(ctx, binary, make_args, plans, *, chunk=1000, timeout=3000, env=None):
    """Run the harness over an NDJSON plan file in slices of `chunk` lines, one process per slice (a process that
    opens thousands of databases runs out of threads), and merge the results: violations are concatenated,
    numeric counters summed, class names united, samples taken from the first slice."""
    lines = [l for l in open(plans).read().splitlines() if l.strip()]
    merged = HarnessResult()
    names = set()
    for i in range(0, max(len(lines), 1), chunk):
        part = ctx.path("%s.part%d" % (os.path.basename(plans), i // chunk))
        with open(part, "w") as f:
            f.write("\n".join(lines[i:i + chunk]) + "\n")
        hr = run_harness(ctx, binary, make_args(part), timeout=timeout, env=env)
        merged.violations.extend(hr.violations)
        merged.rc = hr.rc
        for k, v in hr.stats.items():
            if k == "class_names":
                names.update(v)
            elif k == "samples":
                merged.stats.setdefault("samples", v)
            elif isinstance(v, bool) or not isinstance(v, (int, float)):
                merged.stats.setdefault(k, v)
            else:
                merged.stats[k] = merged.stats.get(k, 0) + v
    merged.stats["distinct_classes"] = len(names) if names else merged.stats.get("distinct_classes", 0)
    merged.stats["harness_processes"] = (len(lines) + chunk - 1) // chunk
    return merged


# --------------------------------------------------------------------------
# known findings / violations / evidence

def load_known():
    if not os.path.exists(KNOWN):
        return []
    with open(KNOWN) as f:
        return json.load(f).get("findings", [])


def add_violation(ctx, key, detail, replay=None):
    """Record a violation.  `replay` is any JSON-serialisable object sufficient to reproduce."""
    ctx.violations.append({"key": key, "detail": detail, "replay": replay})


def finish(ctx, level, coverage, assumptions=None):
    """Write evidence, print KNOWN-FINDING / VIOLATION lines, return exit code."""
    known = [k for k in load_known() if k.get("property") == ctx.pid and k.get("status") == "known"]
    new, old = [], []
    for v in ctx.violations:
        hit = None
        for k in known:
            if re.fullmatch(k["key"], v["key"]):
                hit = k
                break
        (old if hit else new).append((v, hit))
    os.makedirs(EVIDENCE, exist_ok=True)
    cov = dict(coverage)
    if ctx.tlc_runs:
        cov.setdefault("tlc_runs", [r.summary() for r in ctx.tlc_runs])
    cov.setdefault("known_findings_reproduced", sorted({h["key"] for _, h in old}))
    ev = {
        "property_id": ctx.pid,
        "tier": ctx.tier,
        "seed": ctx.seed,
        "level": level,
        "coverage": cov,
        "assumptions": (assumptions or []) + ctx.assumptions,
        "wall_s": round(time.time() - ctx.t0, 2),
        "violations": len(new),
    }
    with open(os.path.join(EVIDENCE, ctx.pid + ".json"), "w") as f:
        json.dump(ev, f, indent=1, sort_keys=True)
        f.write("\n")
    seen = set()
    for v, h in old:
        if h["key"] in seen:
            continue
        seen.add(h["key"])
        print("KNOWN-FINDING: property=%s %s" % (ctx.pid, h.get("what", h["key"])), flush=True)
    if new:
        os.makedirs(REPLAYS, exist_ok=True)
        for i, (v, _) in enumerate(new[:20]):
            rp = os.path.join(REPLAYS, "%s-%d-%d.json" % (ctx.pid, ctx.seed, i))
            with open(rp, "w") as f:
                json.dump({"property": ctx.pid, "tier": ctx.tier, "seed": ctx.seed,
                           "key": v["key"], "detail": v["detail"], "replay": v["replay"]},
                          f, indent=1)
            print("VIOLATION property=%s replay=%s" % (ctx.pid, rp), flush=True)
            print("  key=%s detail=%s" % (v["key"], str(v["detail"])[:600]), flush=True)
        return 1
    ctx.cleanup()
    return 0


def samples_of(items, n=3):
    out = []
    for it in items[:n]:
        s = json.dumps(it)
        if len(s) > 1500:
            it = {"truncated": s[:1500]}
        out.append(it)
    return out
