"""C23 (Ids.tla) and C25 (Versions.tla) + h-topology's algebra subcommands."""
from . import core
from .core import run_tlc, cargo_build, run_harness, add_violation, finish
from .p_topology import _tables, _tlc_must_hold


def check_C25(ctx, replay=None):
    res = run_tlc(ctx, "MCVersions", "MCVersions.cfg", workers=2, tags=("TABLE",), timeout=300)
    _tlc_must_hold(ctx, res, "c25:tlc-invariant")
    tables, n = _tables(ctx, res)
    binary = cargo_build(ctx, "h-topology", release=False)   # dev profile: arithmetic checks on
    hr = run_harness(ctx, binary, ["versions", tables])
    for v in hr.violations:
        add_violation(ctx, v["key"], v["detail"], v["replay"])
    rel = cargo_build(ctx, "h-topology", release=True)
    hr2 = run_harness(ctx, rel, ["versions", tables])
    for v in hr2.violations:
        add_violation(ctx, v["key"], v["detail"], v["replay"])
    cov = {
        "states": res.distinct, "transitions": res.generated, "traces_validated_against_impl": n,
        "samples": hr.stats.get("samples", []),
        "evaluations": hr.stats["evaluations"] + hr2.stats["evaluations"],
        "distinct_nontrivial": hr.stats["distinct_classes"],
        "rule": "TLC: all (expected,current) pairs over boundary representatives {0..3, MAX-3..MAX} with the algebra's "
                "invariants; each table row compared with the real gap_from/is_satisfied_by (dev and release profile), "
                "then a wider boundary grid and random u64 pairs through a u128 mirror of Versions!Gap, and the "
                "Display/FromStr and from_next/into_next round trips. distinct_nontrivial = (expected kind x current kind) classes.",
    }
    return finish(ctx, "model_checking", cov,
                  ["'accepted by the store iff satisfied' is bound to the writer by C02's replay (EventStore!Append uses Versions!Satisfied)"])


def check_C23(ctx, replay=None):
    res = run_tlc(ctx, "MCIds", "MCIds.cfg", workers=12, tags=("TABLE",), timeout=900)
    _tlc_must_hold(ctx, res, "c23:tlc-invariant")
    tables, n = _tables(ctx, res)
    binary = cargo_build(ctx, "h-topology", release=True)
    hr = run_harness(ctx, binary, ["ids", tables])
    for v in hr.violations:
        add_violation(ctx, v["key"], v["detail"], v["replay"])
    cov = {
        "states": res.distinct, "transitions": res.generated, "traces_validated_against_impl": n,
        "samples": hr.stats.get("samples", []),
        "evaluations": hr.stats["evaluations"], "distinct_nontrivial": hr.stats["distinct_classes"],
        "rule": "TLC: EmbedsHash and FlagPreserves on the 128-bit layout for all 2^16 hashes x 4 boundary fillings of the "
                "time/random fields; tabulated ids compared bit for bit with uuid_to_partition_hash/validate_event_id/"
                "set_uuid_flag/get_uuid_flag; real uuid_v7_with_partition_hash for all 2^16 hashes x draws checked against "
                "Ids!WellFormed; flag functions on all single-bit patterns, complements and random UUIDs; routing of "
                "key/event/partition/bucket for all P,B<=64 and sampled large P.",
    }
    return finish(ctx, "model_checking", cov,
                  ["the 2^128 UUID space for the flag functions is covered by bit-independence (single-bit patterns) plus random sampling",
                   "extract_event_id_bucket is an unused helper and not part of routing"])
