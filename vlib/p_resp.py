"""C21 / C22: the RESP command surface (sierradb-server request parsers, sierradb-client emitters)."""
import json

from . import core
from .core import run_tlc, cargo_build, run_harness, add_violation, finish
from .p_store import _dedupe_table, _tlc_must_hold


def check_C21(ctx, replay=None):
    # Commands.tla enumerates the documented grammar of every command (clause subsets, clause orders, keyword case,
    # boundary values) with the request each line denotes, plus near-misses that must be rejected
    res = run_tlc(ctx, "Commands", "MCCommands.cfg", workers=4, tags=("TABLE",), timeout=1200, xmx="6g")
    _tlc_must_hold(ctx, res, "c21:tlc-invariant")
    table, nrows = _dedupe_table(ctx, res, "commands-table.ndjson")
    if replay:
        rp = json.load(open(replay))["replay"]
        if "row" in rp:
            with open(table, "w") as f:
                f.write(json.dumps(rp["row"]) + "\n")
            nrows = 1
    binary = cargo_build(ctx, "h-resp")
    hr = run_harness(ctx, binary, ["parse", table], timeout=3000)
    for v in hr.violations:
        add_violation(ctx, v["key"], v["detail"], v["replay"])
    cov = {
        "states": res.distinct, "transitions": res.generated,
        "traces_validated_against_impl": nrows,
        "evaluations": hr.stats["evaluations"], "distinct_nontrivial": hr.stats["distinct_classes"],
        "classes": hr.stats.get("classes"), "samples": hr.stats.get("samples", []),
        "client_calls_not_captured": hr.stats.get("client_calls_not_captured", 0),
        "rule": "Commands.tla is the documented grammar written as a generator: for each command the positional arguments, every "
                "subset and every order of its optional clauses, upper and lower case keywords, boundary numbers, and for each "
                "line the request it denotes; plus near-miss lines (missing value, duplicated clause, out-of-range number, "
                "keyword in a positional slot) that denote a rejection.  TLC emits one row per line; each row is framed as a "
                "RESP3 array of blob strings and run through the server's own <Command>::parser().skip(eof()), and the parsed "
                "request is compared field by field with the denotation (a rejection must be rejected).  The client side: every "
                "CmdExt builder and every SubscriptionManager subscribe_* function is called, the bytes it emits are captured "
                "(Cmd::args_iter, or a loopback endpoint for the manager) and must parse into the request the call denotes.",
    }
    return finish(ctx, "model_checking", cov,
                  ["blob-string framing only (what redis clients send); commands are checked one at a time, the dispatcher's "
                   "command-name lookup is covered by C22"])
