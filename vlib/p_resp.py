"""C21 / C22: the RESP command surface (sierradb-server request parsers, sierradb-client emitters)."""
import json

from . import core
from .core import run_tlc, cargo_build, run_harness, add_violation, finish
from .p_store import _dedupe_table, _tlc_must_hold


def check_C21(ctx, replay=None):
    # Commands.tla enumerates the documented grammar of every command (clause subsets, clause orders, keyword case,
    # boundary values) with the request each line denotes, plus near-misses that must be rejected
    res = run_tlc(ctx, "Commands", "MCCommands.cfg", workers=4, tags=("TABLE",), timeout=1200, xmx="6g")
    _tlc_must_hold(ctx, res, "c21:tlc-invariant")
    table, nrows = _dedupe_table(ctx, res, "commands-table.ndjson")
    if replay:
        rp = json.load(open(replay))["replay"]
        if "row" in rp:
            with open(table, "w") as f:
                f.write(json.dumps(rp["row"]) + "\n")
            nrows = 1
    binary = cargo_build(ctx, "h-resp")
    hr = run_harness(ctx, binary, ["parse", table], timeout=3000)
    for v in hr.violations:
        add_violation(ctx, v["key"], v["detail"], v["replay"])
    cov = {
        "states": res.distinct, "transitions": res.generated,
        "traces_validated_against_impl": nrows,
        "evaluations": hr.stats["evaluations"], "distinct_nontrivial": hr.stats["distinct_classes"],
        "classes": hr.stats.get("classes"), "samples": hr.stats.get("samples", []),
        "client_calls_not_captured": hr.stats.get("client_calls_not_captured", 0),
        "rule": "Commands.tla is the documented grammar written as a generator: for each command the positional arguments, every "
                "subset and every order of its optional clauses, upper and lower case keywords, boundary numbers, and for each "
                "line the request it denotes; plus near-miss lines (missing value, duplicated clause, out-of-range number, "
                "keyword in a positional slot) that denote a rejection.  TLC emits one row per line; each row is framed as a "
                "RESP3 array of blob strings and run through the server's own <Command>::parser().skip(eof()), and the parsed "
                "request is compared field by field with the denotation (a rejection must be rejected).  The client side: every "
                "CmdExt builder and every SubscriptionManager subscribe_* function is called, the bytes it emits are captured "
                "(Cmd::args_iter, or a loopback endpoint for the manager) and must parse into the request the call denotes.",
    }
    return finish(ctx, "model_checking", cov,
                  ["blob-string framing only (what redis clients send); commands are checked one at a time, the dispatcher's "
                   "command-name lookup is covered by C22"])


def check_C22(ctx, replay=None):
    quick = ctx.quick()
    # the API model's own properties, every command over small bounds
    ex = run_tlc(ctx, "MCApi", core.make_cfg(ctx, "MCApi.cfg", MaxCmd=3 if quick else 4), workers=8, tags=(),
                 timeout=3000, xmx="12g")
    _tlc_must_hold(ctx, ex, "c22:tlc-invariant")
    hist = ctx.path("api-histories.ndjson")
    sims = []
    if replay:
        rp = json.load(open(replay))["replay"]
        with open(hist, "w") as f:
            f.write(json.dumps(rp["history"]) + "\n")
        n = 1
    else:
        n = 0
        with open(hist, "w") as f:
            for cfg, num in (("MCApiSim.cfg", 45 if quick else 900), ("MCApiSimStrict.cfg", 12 if quick else 150)):
                sim = run_tlc(ctx, "MCApi", cfg, workers=1, simulate=num, depth=46, timeout=3000, tags=("REPLAY",),
                              coverage=False)
                if not sim.ok:
                    raise core.ToolError("Api simulation failed: %s (%s)" % (sim.error, sim.log))
                sims.append(sim)
                for t, v in sim.prints:
                    f.write(json.dumps(v) + "\n")
                    n += 1
        if n == 0:
            raise core.ToolError("TLC produced no API histories")
    binary = cargo_build(ctx, "h-resp")
    hr = run_harness(ctx, binary, ["api", hist, ctx.path("api-run")], timeout=12000)
    for v in hr.violations:
        add_violation(ctx, v["key"], v["detail"], v["replay"])
    cov = {
        "states": ex.distinct, "transitions": ex.generated,
        "traces_validated_against_impl": hr.stats.get("histories_completed", 0),
        "histories": hr.stats.get("histories"),
        "evaluations": hr.stats["evaluations"], "distinct_nontrivial": hr.stats["distinct_classes"],
        "samples": hr.stats.get("samples", []),
        "has_more_true_on_last_page": hr.stats.get("has_more_true_on_last_page", 0),
        "has_more_true_beyond_requested_range": hr.stats.get("has_more_true_beyond_requested_range", 0),
        "rule": "Api.tla puts the RESP commands on top of the reference event store (EventStore.tla): each command is an action that "
                "records the command and the reply the model prescribes (append outcome with first sequence and per-event versions; "
                "EGET record or null; scan pages with the has_more obligations; latest version / sequence; what every subscription "
                "owes per unit in order, capped by acknowledged + window; an error and an unchanged state for 40 kinds of invalid "
                "request; two client connections, subscriptions owned by the connection that opened them, EACK from another connection "
                "refused, RECONNECT ending the old connection's subscriptions; HELLO and PING). TLC checks the model's own properties exhaustively for small bounds (AppendReplyMatchesLog, PagingComplete, "
                "FlagsConsistent, WindowBound, the store invariants) and generates 45-command histories by simulation (lax and strict "
                "versioning). Each history is sent, command by command, over a real TCP connection as raw RESP3 to a real single-node "
                "server (Database + ClusterActor + Server::listen, dev profile with overflow checks, three storage variants with segment "
                "rollover and compression); every reply is decoded and compared field by field (ids, keys, partition, sequences, versions, "
                "timestamps, payload, metadata, transaction ids), pushed subscription messages are compared with what is owed (order per "
                "unit, cursors, nothing beyond the window, nothing extra after a grace period), and the connection must survive every "
                "invalid request. evaluations = commands sent; distinct_nontrivial = command/outcome classes seen.",
    }
    return finish(ctx, "model_checking", cov,
                  ["reads and subscriptions through a partition key of another partition than the one the stream lives in (same bucket) "
                   "are outside the generated domain (stream identity is per bucket, gating per partition)",
                   "has_more = true on a non-empty last page, or when events exist only beyond the requested end, is tolerated (counted): "
                   "the property asks that has_more never hides events; an empty page with has_more = true and nothing at or after the "
                   "start is a violation",
                   "error replies are compared as error / no error, not by code"])
