"""C01..C06, C15, C16, C19, C20: EventStore.tla / Durability.tla + h-store."""
import json
from . import core
from .core import run_tlc, cargo_build, run_harness, add_violation, finish
from .p_topology import _tlc_must_hold
from .p_seglog import _plans


def _es_behaviours(ctx, n_sim, depth=41):
    """EventStore: exhaustive model check of the append rule + simulated histories."""
    ex = run_tlc(ctx, "MCEventStore", "MCEventStore.cfg" if ctx.quick() else "MCEventStoreT.cfg",
                 workers=8 if ctx.quick() else 12, timeout=2400, tags=(), xmx="10g")
    core.require_actions(ex, ["HAppend", "HAppendBad"], "eventstore")
    _tlc_must_hold(ctx, ex, "%s:tlc-invariant" % ctx.pid.lower())
    simcfg = core.make_cfg(ctx, "MCEventStoreSim.cfg", EmitAt=depth - 1)
    sim = run_tlc(ctx, "MCEventStore", simcfg, workers=1, simulate=n_sim, depth=depth, timeout=900)
    _tlc_must_hold(ctx, sim, "%s:tlc-invariant" % ctx.pid.lower())
    plans, n = _plans(ctx, [sim], "es-plans.ndjson")
    return ex, sim, plans, n


def _store_cov(ctx, ex, sim, n, hr, rule):
    return {
        "states": ex.distinct, "transitions": ex.generated + sim.generated,
        "traces_validated_against_impl": n,
        "samples": hr.stats.get("samples", []),
        "evaluations": hr.stats["evaluations"], "distinct_nontrivial": hr.stats["distinct_classes"],
        "appends": hr.stats.get("appends"), "accepted": hr.stats.get("accepted"), "rejects": hr.stats.get("rejects"),
        "reopens": hr.stats.get("reopens"), "scans": hr.stats.get("scans"),
        "events_compared": hr.stats.get("events_compared"), "lookups": hr.stats.get("lookups"),
        "segments_created": hr.stats.get("segments_created"), "variants": hr.stats.get("variants"),
        "rule": rule,
    }


def check_C02(ctx, replay=None):
    ex, sim, plans, n = _es_behaviours(ctx, 60 if ctx.quick() else 1500)
    binary = cargo_build(ctx, "h-store")
    hr = run_harness(ctx, binary, ["replay", plans, "c02"], timeout=3000)
    for v in hr.violations:
        add_violation(ctx, v["key"], v["detail"], v["replay"])
    cov = _store_cov(ctx, ex, sim, n, hr,
                     "TLC: every transaction shape within bounds applied in every reachable state of EventStore.tla "
                     "(StreamGapless, OneKeyPerStream, TxContiguous); simulated histories of 40 transactions (right/wrong "
                     "Any/Exists/Empty/Exact expectations, repeated streams inside a transaction, partition-key conflicts, "
                     "expected partition sequences, bad timestamps, oversized payloads) carry the prescribed outcome "
                     "(accept + sequences + per-event versions, or reject) and the prescribed latest version of every stream "
                     "and latest sequence of every partition after every step; replayed on a real Database under each "
                     "variant with reopen stutters. distinct_nontrivial = outcome classes x variants seen.")
    return finish(ctx, "model_checking", cov,
                  ["reject classes are compared only as accept/reject (the property does not fix the error kind)"])


def check_C03(ctx, replay=None):
    ex, sim, plans, n = _es_behaviours(ctx, 14 if ctx.quick() else 150, depth=81 if ctx.quick() else 121)
    binary = cargo_build(ctx, "h-store")
    hr = run_harness(ctx, binary, ["replay", plans, "c03"], timeout=6000)
    for v in hr.violations:
        add_violation(ctx, v["key"], v["detail"], v["replay"])
    cov = _store_cov(ctx, ex, sim, n, hr,
                     "histories generated from EventStore.tla are built on a real Database under layouts whose records "
                     "straddle 64 KiB block and segment boundaries; for every stream and partition, every start position "
                     "0..len+2 and u64::MAX, both directions, batch sizes {1,2,3,7,50} via next_batch, in the open segment, "
                     "across sealed segments and after reopen: forward = list equality with the model's SeqFrom/VersFrom; "
                     "reverse = distinct events equal SeqUpto/VersUpto (siblings of a straddling transaction tolerated), one "
                     "transaction per group, groups non-increasing; plus read_event/read_transaction for every event.")
    return finish(ctx, "model_checking", cov, [])
