"""C01..C06, C15, C16, C19, C20: EventStore.tla / Durability.tla + h-store."""
import json
from . import core
from .core import run_tlc, cargo_build, run_harness, add_violation, finish
from .p_topology import _tlc_must_hold
from .p_seglog import _plans


def _es_behaviours(ctx, n_sim, depth=41):
    """EventStore: exhaustive model check of the append rule + simulated histories."""
    ex = run_tlc(ctx, "MCEventStore", "MCEventStore.cfg" if ctx.quick() else "MCEventStoreT.cfg",
                 workers=8 if ctx.quick() else 12, timeout=2400, tags=(), xmx="10g")
    core.require_actions(ex, ["HAppend", "HAppendBad"], "eventstore")
    _tlc_must_hold(ctx, ex, "%s:tlc-invariant" % ctx.pid.lower())
    simcfg = core.make_cfg(ctx, "MCEventStoreSim.cfg", EmitAt=depth - 1)
    sim = run_tlc(ctx, "MCEventStore", simcfg, workers=1, simulate=n_sim, depth=depth, timeout=900)
    _tlc_must_hold(ctx, sim, "%s:tlc-invariant" % ctx.pid.lower())
    plans, n = _plans(ctx, [sim], "es-plans.ndjson")
    return ex, sim, plans, n


def _store_cov(ctx, ex, sim, n, hr, rule):
    return {
        "states": ex.distinct, "transitions": ex.generated + sim.generated,
        "traces_validated_against_impl": n,
        "samples": hr.stats.get("samples", []),
        "evaluations": hr.stats["evaluations"], "distinct_nontrivial": hr.stats["distinct_classes"],
        "appends": hr.stats.get("appends"), "accepted": hr.stats.get("accepted"), "rejects": hr.stats.get("rejects"),
        "reopens": hr.stats.get("reopens"), "scans": hr.stats.get("scans"),
        "events_compared": hr.stats.get("events_compared"), "lookups": hr.stats.get("lookups"),
        "segments_created": hr.stats.get("segments_created"), "variants": hr.stats.get("variants"),
        "rule": rule,
    }


def check_C02(ctx, replay=None):
    ex, sim, plans, n = _es_behaviours(ctx, 60 if ctx.quick() else 1500)
    binary = cargo_build(ctx, "h-store")
    hr = run_harness(ctx, binary, ["replay", plans, "c02"], timeout=3000)
    for v in hr.violations:
        add_violation(ctx, v["key"], v["detail"], v["replay"])
    cov = _store_cov(ctx, ex, sim, n, hr,
                     "TLC: every transaction shape within bounds applied in every reachable state of EventStore.tla "
                     "(StreamGapless, OneKeyPerStream, TxContiguous); simulated histories of 40 transactions (right/wrong "
                     "Any/Exists/Empty/Exact expectations, repeated streams inside a transaction, partition-key conflicts, "
                     "expected partition sequences, bad timestamps, oversized payloads) carry the prescribed outcome "
                     "(accept + sequences + per-event versions, or reject) and the prescribed latest version of every stream "
                     "and latest sequence of every partition after every step; replayed on a real Database under each "
                     "variant with reopen stutters. distinct_nontrivial = outcome classes x variants seen.")
    return finish(ctx, "model_checking", cov,
                  ["reject classes are compared only as accept/reject (the property does not fix the error kind)"])


def check_C03(ctx, replay=None):
    ex, sim, plans, n = _es_behaviours(ctx, 14 if ctx.quick() else 150, depth=81 if ctx.quick() else 121)
    binary = cargo_build(ctx, "h-store")
    hr = run_harness(ctx, binary, ["replay", plans, "c03"], timeout=6000)
    for v in hr.violations:
        add_violation(ctx, v["key"], v["detail"], v["replay"])
    cov = _store_cov(ctx, ex, sim, n, hr,
                     "histories generated from EventStore.tla are built on a real Database under layouts whose records "
                     "straddle 64 KiB block and segment boundaries; for every stream and partition, every start position "
                     "0..len+2 and u64::MAX, both directions, batch sizes {1,2,3,7,50} via next_batch, in the open segment, "
                     "across sealed segments and after reopen: forward = list equality with the model's SeqFrom/VersFrom; "
                     "reverse = distinct events equal SeqUpto/VersUpto (siblings of a straddling transaction tolerated), one "
                     "transaction per group, groups non-increasing; plus read_event/read_transaction for every event.")
    return finish(ctx, "model_checking", cov, [])


def _trace_validate(ctx, trace_path, key_prefix):
    """Run TraceDurability.tla over a recorded trace; returns (accepted, lines, tlc result)."""
    import os
    n = sum(1 for _ in open(trace_path))
    res = run_tlc(ctx, "TraceDurability", "TraceDurability.cfg", workers=1, deque=True, timeout=1800, xmx="6g",
                  env={"TRACE": trace_path}, tags=(), coverage=False, expect_error=True)
    text = open(res.log, errors="replace").read()
    if res.ok:
        return True, n, res, None
    import re
    m = re.search(r'<<"TRACE_REJECTED_AT", (\d+), (".*")>>', text)
    info = {"tlc_error": res.error}
    if m:
        info["line"] = int(m.group(1))
        try:
            info["event"] = json.loads(json.loads(m.group(2)))
        except Exception:
            info["event"] = m.group(2)
    else:
        # an invariant failed in a state of the trace
        inv = re.search(r"Error: Invariant (\w+) is violated", text)
        if inv:
            info["invariant"] = inv.group(1)
        lm = re.findall(r"/\\ l = (\d+)", text)
        if lm:
            info["line"] = int(lm[-1]) - 1
    keep = os.path.join(core.REPLAYS, "%s-trace-%d.ndjson" % (ctx.pid, ctx.seed))
    os.makedirs(core.REPLAYS, exist_ok=True)
    import shutil
    shutil.copy(trace_path, keep)
    info["trace"] = keep
    return False, n, res, info


def check_C01(ctx, replay=None):
    quick = ctx.quick()
    ex = run_tlc(ctx, "Durability", "MCDurability.cfg", workers=8, timeout=900, tags=())
    core.require_actions(ex, ["Write", "Reply", "WriteFail", "Fsync", "Publish", "RollSync", "RollCreate", "RollSwap",
                              "RollInstallNew", "AckAny", "LookLive", "LookPool"], "durability")
    _tlc_must_hold(ctx, ex, "c01:tlc-invariant")
    if not quick:
        # the model must be able to tell: both recorded design deviations violate an invariant
        for cfg in ("MCDurabilityD2.cfg", "MCDurabilityD10.cfg"):
            dv = run_tlc(ctx, "Durability", cfg, workers=4, timeout=600, tags=(), expect_error=True)
            if dv.ok:
                raise core.ToolError("specification self-test failed: %s should violate an invariant" % cfg)
    simcfg = core.make_cfg(ctx, "MCEventStoreSim1.cfg", EmitAt=30)
    sim = run_tlc(ctx, "MCEventStore", simcfg, workers=1, simulate=6 if quick else 60, depth=31, timeout=900)
    plans, n = _plans(ctx, [sim], "c01-plans.ndjson")
    binary = cargo_build(ctx, "h-store")
    trace = ctx.path("durability-trace.ndjson")
    hr = run_harness(ctx, binary, ["trace", plans, trace], timeout=3000)
    for v in hr.violations:
        add_violation(ctx, v["key"], v["detail"], v["replay"])
    accepted, nlines, tres, info = _trace_validate(ctx, trace, "c01")
    if not accepted:
        add_violation(ctx, "c01:trace-rejected", info, {"trace": info.get("trace"), "line": info.get("line")})
    binding = []
    if accepted and not replay:
        # binding self-test: the same trace with one hook's event removed, or one recorded field changed, must be rejected
        tampers = [("drop-fsync", lambda d: d.get("e") == "fsync", lambda d: None),
                   ("read-not-found", lambda d: d.get("e") == "read" and d.get("found") == 1, lambda d: dict(d, found=0))]
        if not quick:
            tampers.append(("published-beyond-synced", lambda d: d.get("e") == "published", lambda d: dict(d, units=d["units"] + 1)))
        for name, pick, change in tampers:
            t = core.tamper_trace(ctx, trace, "tampered-%s.ndjson" % name, pick, change)
            if t is None:
                continue
            tr = run_tlc(ctx, "TraceDurability", "TraceDurability.cfg", workers=1, deque=True, timeout=1800, xmx="6g",
                         env={"TRACE": t}, tags=(), coverage=False, expect_error=True)
            if tr.ok:
                raise core.ToolError("binding self-test failed: the recorded trace with '%s' applied is still accepted by "
                                     "TraceDurability.tla (trace validation does not constrain that event)" % name)
            binding.append(name)
    cov = _store_cov(ctx, ex, sim, hr.stats.get("runs", 0), hr,
                     "TLC: Durability.tla (write, reply, fsync, publish, per-segment watch, acknowledgement, rollover sub-steps, "
                     "two-step reader lookups) explored exhaustively for 3 transactions / 2 segments with AckedDurable, "
                     "AckedPublished, PublishedFindable, ReaderNeverMisses, PublishedMonotone. Binding: histories from "
                     "EventStore.tla (valid, version-/key-conflicting, oversized, bad-timestamp transactions) are run on a real "
                     "Database (1 bucket, 128/256 KiB segments, compression on/off, sync on every append vs. by timer) followed by "
                     "4 concurrent clients; cfg-gated hooks record fsync/publish/reply/rollover events, the harness records "
                     "acknowledgements and the result of reads issued right after each one and after close+reopen; the whole "
                     "trace is validated by TLC against TraceDurability.tla with every invariant evaluated at every line.")
    cov["trace_lines_validated"] = nlines
    cov["trace_accepted"] = accepted
    cov["binding_selftests_rejected"] = binding
    cov["max_append_ms"] = hr.stats.get("max_append_ms")
    return finish(ctx, "model_checking", cov,
                  ["fsync is observed at the seglog Writer::sync hook right after File::sync_data returns",
                   "traces cover single-bucket runs (one writer thread); multi-bucket configurations are covered by C02/C16 replay"])


def check_C20(ctx, replay=None):
    live = run_tlc(ctx, "Durability", "MCDurabilityLive.cfg", workers=8, timeout=1500, tags=())
    core.require_actions(live, ["Write", "Reply", "WriteFail", "Fsync", "Publish", "RollSync", "RollSwap"], "durability-live")
    _tlc_must_hold(ctx, live, "c20:tlc-liveness")
    binary = cargo_build(ctx, "h-store")
    trace = ctx.path("timing-trace.ndjson")
    hr = run_harness(ctx, binary, ["timing", trace], timeout=3000)
    for v in hr.violations:
        add_violation(ctx, v["key"], v["detail"], v["replay"])
    accepted, nlines, tres, info = _trace_validate(ctx, trace, "c20")
    if not accepted:
        add_violation(ctx, "c20:trace-rejected", info, {"trace": info.get("trace"), "line": info.get("line")})
    # no missed notification: AckStable on the model, the late-acknowledgement schedules on the code
    late = run_tlc(ctx, "Durability", "MCDurabilityLate.cfg", workers=4, timeout=900, tags=("TABLE",))
    _tlc_must_hold(ctx, late, "c20:tlc-invariant")
    if not ctx.quick():
        dv = run_tlc(ctx, "Durability", "MCDurabilityReset.cfg", workers=4, timeout=600, tags=(), expect_error=True)
        if dv.ok:
            raise core.ToolError("specification self-test failed: MCDurabilityReset.cfg should violate AckStable")
    ltab, lrows = _dedupe_table(ctx, late, "late-table.ndjson")
    la = run_harness(ctx, binary, ["lateack", ltab], timeout=3000)
    for v in la.violations:
        add_violation(ctx, v["key"], v["detail"], v["replay"])
    hr.stats["evaluations"] += la.stats["evaluations"]
    hr.stats["distinct_classes"] += la.stats["distinct_classes"]
    hr.stats["samples"] = hr.stats.get("samples", []) + la.stats.get("samples", [])[:2]
    cov = {
        "late_ack_schedules": la.stats["evaluations"],
        "states": live.distinct + late.distinct, "transitions": live.generated, "traces_validated_against_impl": hr.stats.get("runs", 0),
        "samples": hr.stats.get("samples", []),
        "evaluations": hr.stats["evaluations"], "distinct_nontrivial": hr.stats["distinct_classes"],
        "appends": hr.stats.get("appends"), "append_errors": hr.stats.get("append_errors"),
        "max_append_ms": hr.stats.get("max_append_ms"), "deadline_ms": hr.stats.get("deadline_ms"),
        "clients": hr.stats.get("clients"), "segments_created": hr.stats.get("segments_created"),
        "trace_lines_validated": nlines, "trace_accepted": accepted,
        "rule": "TLC checks EveryAppendCompletes (every reply is eventually acknowledged) on Durability.tla under weak fairness of "
                "fsync/publish/reply/rollover steps, with liveness checking on and no state constraint (3 transactions, a rollover, a "
                "failed write). Binding: concurrent clients issue valid, rejected, half-failing and oversized appends with payloads "
                "that force a rollover every few transactions, for each sync configuration (interval x byte/batch/timer trigger x "
                "compression); every call must return within the deadline and the hook trace of each run, ending with close+reopen, "
                "must be accepted by TraceDurability.tla (which requires that no reply is left unacknowledged). AckStable (an "
                "acknowledgement that became possible stays possible) is checked on Durability.tla, and for every writer position at "
                "which a waiter of the sealed segment may still look at its watch (EmitLate table) the schedule is forced on the real "
                "code: append A parked on its watch and kept from being polled, append B stepped through the rollover hook by hook, A "
                "polled again at that position; it must complete at once.",
    }
    return finish(ctx, "model_checking", cov,
                  ["bounded time is decided as liveness under fairness in the specification and as a wall-clock deadline (5 s, far above "
                   "any configured interval) on real runs",
                   "sync_interval = Duration::MAX with unreachable byte/batch thresholds (a library-only configuration that never syncs "
                   "by construction) is outside the domain"])


def check_C05(ctx, replay=None):
    from .p_topology import _tables
    res = run_tlc(ctx, "Recovery", "Recovery.cfg" if ctx.quick() else "RecoveryT.cfg", workers=4, tags=("TABLE",), timeout=600)
    _tlc_must_hold(ctx, res, "c05:tlc-invariant")
    table, n = _tables(ctx, res)
    binary = cargo_build(ctx, "h-store")
    hr = run_harness(ctx, binary, ["crash", table], timeout=6000)
    for v in hr.violations:
        add_violation(ctx, v["key"], v["detail"], v["replay"])
    cov = {
        "evaluations": hr.stats["evaluations"], "distinct_nontrivial": hr.stats["distinct_classes"],
        "rule": "Recovery.tla enumerates (history of 1-3 event transactions, number acknowledged, complete records of the "
                "unacknowledged tail that reached the OS, torn?) and checks RecoversPrefix on the record model; each class is "
                "expanded to crash images of a real data directory: the directory at the last acknowledgement plus the tail cut at "
                "the record boundary, or at every byte inside the next record (quick: 22 positions per record), zeros beyond; each "
                "image is opened with DatabaseBuilder::open, every read API is compared with the model after the transactions "
                "Recovery!Recover keeps, then one more append must continue sequences and versions. A third of the groups have "
                "sealed segments in front of the live one; compression alternates. evaluations = images opened; "
                "distinct_nontrivial = (complete records, torn, kept) classes.",
        "samples": hr.stats.get("samples", []),
        "images": hr.stats.get("images"), "groups": hr.stats.get("groups"),
        "scans": hr.stats.get("scans"), "events_compared": hr.stats.get("events_compared"),
        "states": res.distinct, "transitions": res.generated, "table_rows": n,
    }
    return finish(ctx, "fault_enumeration", cov,
                  ["a process crash keeps every byte that reached write(2): images are prefixes of the bytes the writer produced, "
                   "the preallocated rest of the segment is zeros",
                   "the open-segment index files are whatever was on disk at the last acknowledgement"])


def check_C19(ctx, replay=None):
    from .p_topology import _tables
    res = run_tlc(ctx, "Space", "MCSpace.cfg", workers=2, tags=("TABLE",), timeout=600)
    core.require_actions(res, ["Request"], "space")
    _tlc_must_hold(ctx, res, "c19:tlc-invariant")
    if not ctx.quick():
        dv = run_tlc(ctx, "Space", "MCSpaceDev.cfg", workers=2, tags=(), timeout=600, expect_error=True)
        if dv.ok:
            raise core.ToolError("specification self-test failed: MCSpaceDev.cfg (rollover decided on the estimate only) "
                                 "should violate AcceptedWithinOneRetry")
    # the table is a function of the class: de-duplicate
    seen, rows = set(), []
    for t, v in res.prints:
        k = json.dumps(v, sort_keys=True)
        if t == "TABLE" and k not in seen:
            seen.add(k)
            rows.append(v)
    table = ctx.path("space-table.ndjson")
    with open(table, "w") as f:
        for r in rows:
            f.write(json.dumps(r) + "\n")
    binary = cargo_build(ctx, "h-store")
    hr = run_harness(ctx, binary, ["space", table], timeout=6000)
    for v in hr.violations:
        add_violation(ctx, v["key"], v["detail"], v["replay"])
    cov = {
        "states": res.distinct, "transitions": res.generated, "traces_validated_against_impl": hr.stats.get("targets", 0),
        "samples": hr.stats.get("samples", []),
        "evaluations": hr.stats["evaluations"], "distinct_nontrivial": hr.stats["distinct_classes"],
        "classes_in_table": hr.stats.get("classes_in_table"), "classes_covered": hr.stats.get("classes_covered"),
        "fill_misses": hr.stats.get("fill_misses", 0),
        "rule_divergences": {"accepted_where_the_rule_rejects": hr.stats.get("accepted_where_the_rule_rejects", 0),
                             "rollover_count_differs_from_the_rule": hr.stats.get("rollover_count_differs_from_the_rule", 0)},
        "rule": "Space.tla transcribes the writer thread's space rule (admission on the estimate, rollover on the estimate, "
                "SegmentFull on the stored size, rollover-and-rewrite when a non-empty segment turns out too full) and TLC checks "
                "NoOverflow / AcceptedWithinOneRetry / AcceptedAtOnce for every fill level and every (estimate, stored) pair; the "
                "model's table (free space vs estimate, vs stored size, compression shrinks/grows/same -> outcome, rollovers) is "
                "expanded on a real Database: for each segment size x compression x payload kind (zeros, text, random) x 1-2 events "
                "x payload length the stored size is measured, the live segment is filled with incompressible filler so that its "
                "free space takes every value from min(estimate, stored)-2 to max+2 (strided in the middle of wide ranges), the "
                "transaction is appended; it must be accepted and readable (a rejection is retried twice and reported); an "
                "acceptance the rule would not have granted, or a rollover it would not have made yet, is counted as a divergence "
                "of the transcription (the statement asks for acceptance, not for a particular rollover policy). evaluations = "
                "fill levels tried; distinct_nontrivial = table classes reached on the real code.",
    }
    return finish(ctx, "model_checking", cov,
                  ["domain: transactions whose uncompressed estimate and stored size both fit an empty segment (the admission rule "
                   "turns away larger estimates by design; they are not judged)"])


def _serial_search(ctx, path, nb, timeout=1500):
    """TraceSerial.tla over one recorded file: (explained?, TLC result)."""
    cfg = core.make_cfg(ctx, "TraceSerial.cfg", NB=nb)
    res = run_tlc(ctx, "TraceSerial", cfg, workers=1, deque=True, timeout=timeout, xmx="6g", env={"TRACE": path},
                  tags=(), coverage=False, expect_error=True)
    if res.ok:
        return False, res          # state space exhausted without reaching the end of the last run
    if res.error and "NotAllExplained" in res.error:
        return True, res           # the counterexample is the serial order
    raise core.ToolError("TraceSerial.tla failed unexpectedly: %s (log %s)" % (res.error, res.log))


def check_C16(ctx, replay=None):
    import os
    import shutil
    if not ctx.quick():
        # the reference model's own invariants (checked on every change by C02)
        ex = run_tlc(ctx, "MCEventStore", "MCEventStore.cfg", workers=8, timeout=2400, tags=(), xmx="10g")
        core.require_actions(ex, ["HAppend", "HAppendBad"], "eventstore")
        _tlc_must_hold(ctx, ex, "c16:tlc-invariant")
    binary = cargo_build(ctx, "h-store")
    if replay:
        rp = json.load(open(replay))["replay"]
        files = [{"path": rp["trace"], "nb": rp["nb"], "wt": rp.get("wt", 0), "runs": 1}]
        stats = {"evaluations": 1, "distinct_classes": 2, "samples": [rp]}
    else:
        hr = run_harness(ctx, binary, ["race", ctx.path("race")], timeout=3000)
        for v in hr.violations:
            add_violation(ctx, v["key"], v["detail"], v["replay"])
        files, stats = hr.stats["files"], hr.stats
    explained_runs = 0
    searches = 0
    for f in files:
        ok, res = _serial_search(ctx, f["path"], f["nb"])
        searches += 1
        if ok:
            explained_runs += f["runs"]
            continue
        # which run has no serial explanation?  re-check each run on its own
        lines = [json.loads(l) for l in open(f["path"])]
        for r in sorted({l["run"] for l in lines}):
            one = ctx.path("race-nb%d-wt%d-run%d.ndjson" % (f["nb"], f["wt"], r))
            with open(one, "w") as o:
                for l in lines:
                    if l["run"] == r:
                        l = dict(l)
                        l["run"] = 1
                        o.write(json.dumps(l) + "\n")
            ok1, _ = _serial_search(ctx, one, f["nb"])
            searches += 1
            if ok1:
                explained_runs += 1
                continue
            keep = os.path.join(core.REPLAYS, "C16-%d-nb%d-wt%d-run%d.ndjson" % (ctx.seed, f["nb"], f["wt"], r))
            os.makedirs(core.REPLAYS, exist_ok=True)
            shutil.copy(one, keep)
            calls = [l for l in lines if l["run"] == r and l["e"] == "call"]
            add_violation(ctx, "c16:no-serial-order",
                          {"buckets": f["nb"], "writer_threads": f["wt"], "run": r, "calls": len(calls),
                           "accepted": sum(1 for c in calls if c["ok"] == 1),
                           "problem": "no serial order of the reference model reproduces the recorded outcomes and final state"},
                          {"trace": keep, "nb": f["nb"], "wt": f["wt"]})
    cov = {
        "states": sum(r.distinct for r in ctx.tlc_runs), "transitions": sum(r.generated for r in ctx.tlc_runs),
        "traces_validated_against_impl": explained_runs,
        "samples": stats.get("samples", []),
        "evaluations": stats["evaluations"], "distinct_nontrivial": stats["distinct_classes"],
        "calls": stats.get("calls"), "accepted": stats.get("accepted"), "rejects": stats.get("rejects"),
        "clients": stats.get("clients"), "serial_searches": searches,
        "rule": "8 clients race optimistic appends (Exact/Empty expectations read a moment earlier, some one ahead, Any/Exists, "
                "expected partition sequences, 1-2 events, occasional foreign partition or key) on 3 shared streams / 4 partitions "
                "of a real Database with 1-4 buckets and 1-2 writer threads; every call is recorded with its outcome (first "
                "sequence and per-event versions, or rejection) and each run ends with the latest version of every stream and "
                "sequence of every partition. TLC searches TraceSerial.tla (next-state relation: apply a not yet applied accepted "
                "call whose recorded outcome EventStore!Evaluate reproduces; a rejected call must be rejected in some state of the "
                "order) for a serial order ending in the recorded final observations; the witness is the counterexample to "
                "NotAllExplained, and exhausting the search space without one is the violation. evaluations = runs; "
                "distinct_nontrivial = configurations + rejection classes that occurred.",
    }
    return finish(ctx, "model_checking", cov,
                  ["a serial order need not respect real-time order of non-overlapping calls (the statement does not ask for it)"])


def _dedupe_table(ctx, res, name):
    seen, rows = set(), []
    for t, v in res.prints:
        k = json.dumps(v, sort_keys=True)
        if t == "TABLE" and k not in seen:
            seen.add(k)
            rows.append(v)
    if not rows:
        raise core.ToolError("TLC produced no TABLE lines (%s)" % res.log)
    table = ctx.path(name)
    with open(table, "w") as f:
        for r in rows:
            f.write(json.dumps(r) + "\n")
    return table, len(rows)


def check_C04(ctx, replay=None):
    from .p_topology import _tables
    quick = ctx.quick()
    tx = run_tlc(ctx, "TxAtomic", "MCTxAtomic.cfg", workers=4, tags=("TABLE",), timeout=900)
    core.require_actions(tx, ["Begin", "WriteEvent", "Fail", "WriteCommit", "Finish", "Sync", "CrashRecover"], "txatomic")
    _tlc_must_hold(ctx, tx, "c04:tlc-invariant")
    if not quick:
        dv = run_tlc(ctx, "TxAtomic", "MCTxAtomicDev.cfg", workers=2, tags=(), timeout=600, expect_error=True)
        if dv.ok:
            raise core.ToolError("specification self-test failed: MCTxAtomicDev.cfg (index entries queued per event) should "
                                 "violate an invariant")
    table, nrows = _dedupe_table(ctx, tx, "tx-table.ndjson")
    binary = cargo_build(ctx, "h-store")
    # (schedules) the writer parked inside a transaction while every read API runs
    mid = run_harness(ctx, binary, ["midtx", table], timeout=3000)
    for v in mid.violations:
        add_violation(ctx, v["key"].replace("c04:", "c04:"), v["detail"], v["replay"])
    # (histories) group completeness of every read over generated histories with failed transactions
    simcfg = core.make_cfg(ctx, "MCEventStoreSim.cfg", EmitAt=60)
    sim = run_tlc(ctx, "MCEventStore", simcfg, workers=1, simulate=6 if quick else 60, depth=61, timeout=900)
    plans, n = _plans(ctx, [sim], "c04-plans.ndjson")
    hist = run_harness(ctx, binary, ["replay", plans, "c04"], timeout=6000)
    for v in hist.violations:
        add_violation(ctx, v["key"], v["detail"], v["replay"])
    # (crash points) images cut between a transaction's events and its commit record
    rec = run_tlc(ctx, "Recovery", "Recovery.cfg" if quick else "RecoveryT.cfg", workers=4, tags=("TABLE",), timeout=600)
    _tlc_must_hold(ctx, rec, "c04:tlc-invariant")
    rows = [v for t, v in rec.prints if t == "TABLE" and any(s > 1 for s in v["shapes"]) and v["acked"] < len(v["shapes"])]
    ctab = ctx.path("c04-crash.ndjson")
    with open(ctab, "w") as f:
        for r in rows:
            f.write(json.dumps(r) + "\n")
    crash = run_harness(ctx, binary, ["crash", ctab], timeout=6000)
    for v in crash.violations:
        add_violation(ctx, v["key"].replace("c05:", "c04:crash:"), v["detail"], v["replay"])
    cov = {
        "states": tx.distinct + rec.distinct, "transitions": tx.generated + rec.generated + sim.generated,
        "traces_validated_against_impl": mid.stats["evaluations"] + n,
        "samples": mid.stats.get("samples", []) + hist.stats.get("samples", [])[:1],
        "evaluations": mid.stats["evaluations"] + hist.stats["evaluations"] + crash.stats["evaluations"],
        "distinct_nontrivial": mid.stats["distinct_classes"] + crash.stats["distinct_classes"],
        "midtx_cases": mid.stats["evaluations"], "midtx_read_rounds": mid.stats.get("read_rounds"),
        "history_scans": hist.stats.get("scans"), "history_events_compared": hist.stats.get("events_compared"),
        "crash_images": crash.stats.get("images"),
        "rule": "TxAtomic.tla (event records one by one, commit record, index entries queued after the last record, published by "
                "sync, truncation of a failed write, crash at any record boundary + recovery) is explored exhaustively with "
                "NoPartialTx, InFlightInvisible, NoDanglingEntry. Binding: (schedules) for every transaction shape of the model "
                "(1-3 events, failing at event j or not, with and without a rollover first) the real writer thread is parked "
                "through hooks after every written event, before the commit record and before the reply, and at each stop every "
                "read API (event lookup, read_transaction, stream and partition scans, latest version/sequence) must show nothing of "
                "the transaction in flight and all committed data; after an error reply, after the next append and after reopen "
                "nothing of the failed transaction; (histories) generated histories with rejected and half-failed transactions, "
                "every scan group checked for transaction completeness; (crash points) crash images cut between a transaction's "
                "events and its commit record, every read compared with the model. distinct_nontrivial = shapes x stops + crash classes.",
    }
    return finish(ctx, "model_checking", cov,
                  ["with sync-per-append the index entries may already be published when the writer is parked before its reply: "
                   "at that stop only all-or-nothing is required"])


def check_C15(ctx, replay=None):
    quick = ctx.quick()
    ex = run_tlc(ctx, "Durability", "MCDurabilitySched.cfg", workers=4, timeout=900, tags=("TABLE",))
    core.require_actions(ex, ["Write", "Reply", "Fsync", "Publish", "RollSync", "RollCreate", "RollSwap", "RollInstallNew",
                              "AckAny", "LookLive", "LookPool"], "durability-sched")
    _tlc_must_hold(ctx, ex, "c15:tlc-invariant")
    full = run_tlc(ctx, "Durability", "MCDurability.cfg", workers=8, timeout=1500, tags=())
    _tlc_must_hold(ctx, full, "c15:tlc-invariant")
    if not quick:
        dv = run_tlc(ctx, "Durability", "MCDurabilityD10.cfg", workers=4, timeout=600, tags=(), expect_error=True)
        if dv.ok:
            raise core.ToolError("specification self-test failed: MCDurabilityD10.cfg should violate ReaderNeverMisses")
    table, nrows = _dedupe_table(ctx, ex, "sched-table.ndjson")
    binary = cargo_build(ctx, "h-store")
    hr = run_harness(ctx, binary, ["sched", table], timeout=6000)
    for v in hr.violations:
        add_violation(ctx, v["key"], v["detail"], v["replay"])
    cov = {
        "states": ex.distinct + full.distinct, "transitions": ex.generated + full.generated,
        "traces_validated_against_impl": hr.stats["evaluations"],
        "samples": hr.stats.get("samples", []),
        "evaluations": hr.stats["evaluations"], "distinct_nontrivial": hr.stats["distinct_classes"],
        "schedules": hr.stats.get("schedules"), "two_step_reads": hr.stats.get("two_step_reads"),
        "table_rows": nrows, "stress_reads": hr.stats.get("stress_reads"),
        "rule": "Durability.tla with two-step reader lookups and the rollover sub-steps is explored exhaustively (ReaderNeverMisses, "
                "PublishedMonotone, PublishedFindable); its state graph yields every reachable pair (writer position at the reader's "
                "live-index step, writer position at its reader-pool step). Each pair is forced on a real Database: the writer thread "
                "is stepped from hook to hook through a real rollover (reply point, synced, created, indexes swapped with the lock "
                "held, sealed segment installed, new segment installed, next reply point), the read (read_event, read_transaction, "
                "read_stream, read_partition, get_stream_version, get_partition_sequence) is started at the first position, parked "
                "at its hook between the two lookups, resumed at the second position; it must return everything acknowledged before "
                "it started, and a second read by the same reader must not lose anything. Plus free-running stress: 4 writers / 4 "
                "readers over 128 KiB segments with the same two assertions. distinct_nontrivial = (API, positions) combinations run.",
    }
    return finish(ctx, "model_checking", cov,
                  ["the window between two hook points is covered by the stress part only"])


def check_C06(ctx, replay=None):
    res = run_tlc(ctx, "IndexCrash", "MCIndexCrash.cfg", workers=2, tags=("TABLE",), timeout=600)
    _tlc_must_hold(ctx, res, "c06:tlc-invariant")
    dv = run_tlc(ctx, "IndexCrash", "MCIndexCrashDev.cfg", workers=2, tags=(), timeout=600, expect_error=True)
    if dv.ok:
        raise core.ToolError("specification self-test failed: MCIndexCrashDev.cfg (index files opened as found) should violate Recovers")
    table, nrows = _dedupe_table(ctx, res, "idx-table.ndjson")
    binary = cargo_build(ctx, "h-store")
    hr = run_harness(ctx, binary, ["idxcrash", table], timeout=6000)
    for v in hr.violations:
        add_violation(ctx, v["key"], v["detail"], v["replay"])
    cov = {
        "evaluations": hr.stats["evaluations"], "distinct_nontrivial": hr.stats["distinct_classes"],
        "samples": hr.stats.get("samples", []), "images": hr.stats.get("images"), "table_rows": nrows,
        "sealed_segments": hr.stats.get("sealed_segments"), "states": res.distinct, "transitions": res.generated,
        "rule": "IndexCrash.tla enumerates, for the three index files of a sealed segment independently, the section a crash cut "
                "the file in (empty, magic, counts, MPHF, bloom filter, records, complete: 252 joint classes) and requires that "
                "reopening succeeds and lookups are total (the design rebuilds an incomplete file from the fsynced segment; the "
                "as-is behaviour is a named deviation that violates the invariant). Each class is expanded on a real data "
                "directory (history with two sealed segments, three streams, two partitions, multi-event transactions, background "
                "flush completed): every file cut to section boundaries +-1 and strided interior lengths, the image reopened with "
                "DatabaseBuilder::open and every event looked up by id, stream scan and partition scan against the reference log. "
                "evaluations = images opened; distinct_nontrivial = joint classes run (quick: all single-file classes, every ninth joint one).",
    }
    return finish(ctx, "fault_enumeration", cov,
                  ["the sealed segment's data file is complete (the rollover fsyncs it before the index flush starts)"])
