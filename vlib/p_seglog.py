"""C17, C18: SegLog.tla / SegFault.tla + h-seglog."""
import json
from . import core
from .core import run_tlc, cargo_build, run_harness, add_violation, finish
from .p_topology import _tables, _tlc_must_hold


def _plans(ctx, results, name):
    p = ctx.path(name)
    n = 0
    with open(p, "w") as f:
        for r in results:
            for t, v in r.prints:
                if t == "REPLAY":
                    f.write(json.dumps(v) + "\n")
                    n += 1
    if n == 0:
        raise core.ToolError("TLC emitted no behaviours for %s" % name)
    return p, n


def check_C18(ctx, replay=None):
    quick = ctx.quick()
    ex = run_tlc(ctx, "MCSegLog", "MCSegLog.cfg" if quick else "MCSegLogT.cfg", workers=12,
                 timeout=600 if quick else 3000, xmx="12g")
    core.require_actions(ex, ["HAppend", "HAppendFull", "HFlushW", "HSync", "HToggle", "HReopen", "HSetLen",
                              "HReadRandom", "HReadSeq", "HIter", "HReplace"], "seglog")
    _tlc_must_hold(ctx, ex, "c18:tlc-invariant")
    sim = run_tlc(ctx, "MCSegLog", "MCSegLogSim.cfg", workers=1, simulate=40 if quick else 600, depth=41,
                  timeout=900)
    _tlc_must_hold(ctx, sim, "c18:tlc-invariant")
    # exhaustive run emits one behaviour per deepest-level state; cap what is replayed in quick mode
    plans, n = _plans(ctx, [ex, sim], "seglog-plans.ndjson")
    if quick and n > 4000:
        import random
        rnd = random.Random(ctx.seed)
        lines = open(plans).read().splitlines()
        sims = lines[-len(sim.prints):]
        lines = rnd.sample(lines[:-len(sim.prints)], 3500) + sims
        open(plans, "w").write("\n".join(lines) + "\n")
        n = len(lines)
    binary = cargo_build(ctx, "h-seglog", release=False)
    hr = run_harness(ctx, binary, ["replay", plans], timeout=3000)
    for v in hr.violations:
        add_violation(ctx, v["key"], v["detail"], v["replay"])
    cov = {
        "states": ex.distinct, "transitions": ex.generated + sim.generated,
        "traces_validated_against_impl": n,
        "samples": hr.stats.get("samples", []),
        "evaluations": hr.stats["evaluations"], "distinct_nontrivial": hr.stats["distinct_classes"],
        "steps_replayed": hr.stats.get("steps_replayed"), "ops": hr.stats.get("ops"),
        "layouts": hr.stats.get("layouts"),
        "rule": "TLC explores every sequence of writer operations (append, flush, sync, set_len, compression toggle, reopen) "
                "interleaved with random/sequential reads, iteration and header replacement by two long-lived readers up to the "
                "depth bound, checking CursorAtWofs, FlushedIsLog, ReadBelowFlushedExact, NoReadBeyondFlushed in every state; "
                "behaviours (exhaustive frontier + simulation, depth 40) carry the prescribed result of every read and are "
                "replayed on a real Writer<H> and two real Readers (H in {1,8}) under 5 byte layouts that hit every read path. "
                "distinct_nontrivial = operation kinds exercised.",
    }
    return finish(ctx, "model_checking", cov,
                  ["operations are replayed sequentially (the writer and the readers are not run on racing threads here; "
                   "concurrent schedules are covered at database level by C15)",
                   "a CRC-32 collision on misaligned reads is ignored (2^-32)"])


def check_C17(ctx, replay=None):
    res = run_tlc(ctx, "SegFault", "SegFault.cfg", workers=2, tags=("TABLE",), timeout=300)
    _tlc_must_hold(ctx, res, "c17:tlc-invariant")
    table, n = _tables(ctx, res)
    binary = cargo_build(ctx, "h-seglog", release=True)
    hr = run_harness(ctx, binary, ["faults", table], timeout=6000)
    for v in hr.violations:
        add_violation(ctx, v["key"], v["detail"], v["replay"])
    # round trip + reopen resumption on histories: reuse the C18 behaviours (reads must be byte-identical)
    ex = run_tlc(ctx, "MCSegLog", "MCSegLogSim.cfg", workers=1, simulate=15 if ctx.quick() else 250, depth=41,
                 timeout=900)
    plans, np_ = _plans(ctx, [ex], "roundtrip-plans.ndjson")
    dbg = cargo_build(ctx, "h-seglog", release=False)
    hr2 = run_harness(ctx, dbg, ["replay", plans], timeout=3000)
    for v in hr2.violations:
        add_violation(ctx, v["key"].replace("c18:", "c17:roundtrip:"), v["detail"], v["replay"])
    cov = {
        "evaluations": hr.stats["evaluations"] + hr2.stats["evaluations"],
        "distinct_nontrivial": hr.stats["distinct_classes"],
        "rule": "SegFault.tla enumerates (header size, data-length class at every reader/writer branch boundary, compression, "
                "fault kind, region) classes and checks on the cell model that no fault leaves an acceptable record; the harness "
                "expands each class to concrete corruptions of a real segment file - every single-bit flip of the region (strided "
                "in the middle of large payloads), bursts of 2..8 bits in every pattern and sampled 9..32-bit bursts at each start "
                "bit, every truncation length as zero-filled tail and as shortened file - and runs random read, sequential read, "
                "iteration, parse_record and Writer::open on each image. evaluations = corrupted images checked; "
                "distinct_nontrivial = classes.",
        "samples": hr.stats.get("samples", []),
        "classes": hr.stats.get("classes"),
        "roundtrip_behaviours": np_,
        "states": res.distinct, "transitions": res.generated,
    }
    return finish(ctx, "fault_enumeration", cov,
                  ["that CRC-32 detects every burst of <= 32 bits is exercised on the enumerated positions, not derived",
                   "zstd frame integrity is relied on only after the CRC has matched"])
