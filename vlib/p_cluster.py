"""C07..C12, C26: cluster-layer specifications + h-cluster."""
import json
import re
from . import core
from .core import run_tlc, cargo_build, run_harness, add_violation, finish
from .p_topology import _tlc_must_hold
from .p_seglog import _plans


def _consts(cfg):
    text = open(core.SPEC + "/" + cfg).read()
    out = {}
    for k in ("Threshold", "Timeout", "MaxCalls", "SuccThreshold", "MaxClock", "MaxOps"):
        m = re.search(r"(?m)^\s*%s\s*=\s*(\d+)" % k, text)
        out[k] = int(m.group(1))
    return out


def check_C26(ctx, replay=None):
    quick = ctx.quick()
    ex = run_tlc(ctx, "MCBreaker", "MCBreakerEmit.cfg", workers=8, timeout=1800, xmx="10g")
    core.require_actions(ex, ["HStep", "HTick"], "breaker")
    _tlc_must_hold(ctx, ex, "c26:tlc-invariant")
    runs = [ex]
    if not quick:
        ex3 = run_tlc(ctx, "MCBreaker", "MCBreaker3.cfg", workers=12, timeout=3000, xmx="12g", tags=())
        _tlc_must_hold(ctx, ex3, "c26:tlc-invariant")
        dv = run_tlc(ctx, "MCBreaker", "MCBreakerOrig.cfg", workers=4, timeout=900, tags=(), expect_error=True)
        if dv.ok:
            raise core.ToolError("specification self-test failed: MCBreakerOrig.cfg (plain subtraction, uncounted transition "
                                 "request, reset at half-open) should violate an invariant")
    sim = run_tlc(ctx, "MCBreaker", "MCBreakerSim.cfg", workers=1, simulate=300 if quick else 5000, depth=80, timeout=1800)
    _tlc_must_hold(ctx, sim, "c26:tlc-invariant")
    runs.append(sim)
    # one thread, six operations: whole outage cycles (open, wait, probe, recover, fail again) that two operations per
    # thread cannot reach; the ghost `cycle` in the view keeps one behaviour per stage of the cycle
    seq = run_tlc(ctx, "MCBreaker", "MCBreakerSeq.cfg", workers=4, timeout=900)
    _tlc_must_hold(ctx, seq, "c26:tlc-invariant")
    runs.append(seq)
    plans, n = _plans(ctx, runs, "breaker-plans.ndjson")
    consts = _consts("MCBreaker.cfg")
    binary = cargo_build(ctx, "h-cluster")
    hr = run_harness(ctx, binary, ["breaker", plans, json.dumps(consts), "conform"], timeout=6000)
    for v in hr.violations:
        add_violation(ctx, v["key"], v["detail"], v["replay"])
    # the recorded finding: the first schedule that exceeds the probe limit, replayed on the real breaker
    kn = run_tlc(ctx, "MCBreaker", "MCBreakerKnown.cfg", workers=4, timeout=900, expect_error=True)
    known_replayed = 0
    if not kn.ok:
        kplans, kn_n = _plans(ctx, [kn], "breaker-known.ndjson")
        hk = run_harness(ctx, binary, ["breaker", kplans, json.dumps(consts), "known"], timeout=600)
        known_replayed = kn_n
        for v in hk.violations:
            add_violation(ctx, v["key"], v["detail"], v["replay"])
    cov = {
        "states": sum(r.distinct for r in ctx.tlc_runs), "transitions": sum(r.generated for r in ctx.tlc_runs),
        "traces_validated_against_impl": n,
        "samples": hr.stats.get("samples", []),
        "evaluations": hr.stats["evaluations"], "distinct_nontrivial": hr.stats["distinct_classes"],
        "steps_replayed": hr.stats.get("steps_replayed"), "known_finding_schedules": known_replayed,
        "constants": consts,
        "rule": "Breaker.tla transcribes should_allow_request / record_success / record_failure / estimated_recovery_time at "
                "the grain of their atomic operations and clock readings; TLC explores every interleaving of 2 threads x 2 "
                "operations (thorough: also 3 threads), and of one thread x 6 operations (whole outage cycles), with a freely advancing clock "
                "and checks NoUnderflow, "
                "OpensOnlyAfterThreshold, ProbesBoundedUnlessLateReset. One behaviour per distinct final state (including the "
                "ones in which a thread read the clock before a concurrent failure report stored a later time) plus random "
                "walks are replayed on the real WriteCircuitBreaker in the dev profile: real threads parked at the hook point "
                "in front of every atomic operation are released one step at a time in the schedule's order, the clock is the "
                "model's; the next hook reached and every return value must be the specification's, a panic is a violation. "
                "distinct_nontrivial = distinct (operations per thread) shapes replayed.",
    }
    return finish(ctx, "model_checking", cov,
                  ["probe bound: a half-open episode starts at a successful Open->HalfOpen compare_exchange; requests admitted "
                   "through the half-open path are counted until the next one",
                   "recorded finding: with state and call counter in separate atomics the bound fails when the opening thread's "
                   "counter reset lands after the next half-open episode began (replayed, reported as KNOWN-FINDING)"])


def check_C08(ctx, replay=None):
    quick = ctx.quick()
    runs = []
    for rf in (1, 2, 3):
        cfg = core.make_cfg(ctx, "MCWatermark.cfg", RF=rf)
        ex = run_tlc(ctx, "Watermark", cfg, workers=8, timeout=2400, xmx="10g")
        core.require_actions(ex, ["Report", "PersistStep", "Crash", "Restart"], "watermark rf=%d" % rf)
        _tlc_must_hold(ctx, ex, "c08:tlc-invariant")
        runs.append(ex)
    if not quick:
        big = core.make_cfg(ctx, "MCWatermark.cfg", N=4, MaxRep=5)
        exb = run_tlc(ctx, "Watermark", big, workers=12, timeout=3000, tags=(), xmx="14g")
        _tlc_must_hold(ctx, exb, "c08:tlc-invariant")
        dv = run_tlc(ctx, "Watermark", "MCWatermarkDev.cfg", workers=4, timeout=600, tags=(), expect_error=True)
        if dv.ok:
            raise core.ToolError("specification self-test failed: MCWatermarkDev.cfg (last report wins) should violate Complete")
        # with the administrative operations (force / skip): Sound, Monotone, RestartNoRegress, PersistDurable still hold
        exa = run_tlc(ctx, "Watermark", "MCWatermarkAdmin.cfg", workers=8, timeout=3000, tags=(), xmx="12g")
        core.require_actions(exa, ["AdminForce", "AdminSkip"], "watermark admin")
        _tlc_must_hold(ctx, exa, "c08:tlc-invariant")
    sims = []
    for rf in (1, 2, 3):
        cfg = core.make_cfg(ctx, "MCWatermarkSim.cfg", RF=rf)
        sims.append(run_tlc(ctx, "Watermark", cfg, workers=1, simulate=40 if quick else 700, depth=15, timeout=1200))
        _tlc_must_hold(ctx, sims[-1], "c08:tlc-invariant")
    for rf in (2, 3):
        cfg = core.make_cfg(ctx, "MCWatermarkAdminSim.cfg", RF=rf)
        sims.append(run_tlc(ctx, "Watermark", cfg, workers=1, simulate=25 if quick else 400, depth=15, timeout=1200))
        _tlc_must_hold(ctx, sims[-1], "c08:tlc-invariant")
    # stale-count histories from the exhaustive runs (a bounded number per replication factor) + the random walks
    cap = 150 if quick else 3000
    for r in runs:
        r.prints = r.prints[:: max(1, len(r.prints) // cap)][:cap]
    plans, n = _plans(ctx, runs + sims, "watermark-plans.ndjson")
    binary = cargo_build(ctx, "h-cluster")
    hr = core.run_harness_chunked(ctx, binary, lambda part: ["watermark", part], plans, chunk=1000, timeout=6000)
    for v in hr.violations:
        add_violation(ctx, v["key"], v["detail"], v["replay"])
    cov = {
        "states": sum(r.distinct for r in ctx.tlc_runs), "transitions": sum(r.generated for r in ctx.tlc_runs),
        "traces_validated_against_impl": n, "samples": hr.stats.get("samples", []),
        "evaluations": hr.stats["evaluations"], "distinct_nontrivial": hr.stats["distinct_classes"],
        "steps_replayed": hr.stats.get("steps_replayed"),
        "rule": "Watermark.tla (reports in any order with duplicates and stale lower counts, the four persistence steps, crash "
                "between any two of them, restart = load current/previous + re-report on-disk counts) is explored exhaustively for "
                "3 versions, every target count vector, replication factors 1-3 with Monotone, Sound, Complete, RestartNoRegress. "
                "Random walks (4 versions, 6 reports) are replayed on a real BucketConfirmationManager over a real Database: every "
                "report first raises the event's on-disk count (set_confirmations) and then calls update_confirmation, the "
                "watermark must be the specification's after every step; persist_bucket_state runs with hook points snapshotting "
                "the confirmation directory between its steps, a crash restores the snapshot of that step, restart initialises a "
                "fresh manager on it. Beyond the listed property the model also takes the administrative operations "
                "(admin_force_watermark, admin_skip_event: advance only, persist at once, a crash inside that round may lose the "
                "advance) and walks with them are replayed the same way. distinct_nontrivial = (rf, crash points, persisted?) "
                "classes replayed.",
    }
    return finish(ctx, "model_checking", cov,
                  ["the on-disk confirmation count of an event is at least every count reported for it (write path order: "
                   "set_confirmations before UpdateConfirmation)"])


def _merge_stats(hrs):
    out = {"evaluations": 0, "samples": [], "classes": set()}
    for hr in hrs:
        out["evaluations"] += hr.stats["evaluations"]
        out["samples"] += hr.stats.get("samples", [])[:2]
    return out


def check_C07(ctx, replay=None):
    quick = ctx.quick()
    rows = []
    for rf in (1, 2, 3, 5):
        cfg = core.make_cfg(ctx, "MCGating.cfg", RF=rf, MaxTx=3 if quick else 4)
        res = run_tlc(ctx, "Gating", cfg, workers=4, tags=("TABLE",), timeout=900)
        _tlc_must_hold(ctx, res, "c07:tlc-invariant")
        rows += [v for t, v in res.prints if t == "TABLE"]
    if not quick:
        dv = run_tlc(ctx, "Gating", "MCGatingDev.cfg", workers=2, timeout=600, tags=(), expect_error=True)
        if dv.ok:
            raise core.ToolError("specification self-test failed: MCGatingDev.cfg (a stream read addressed to a sibling partition "
                                 "is gated by the sibling's watermark) should violate SiblingRevealsNothingUnconfirmed")
    table = ctx.path("gating-table.ndjson")
    with open(table, "w") as f:
        for r in rows:
            f.write(json.dumps(r) + "\n")
    binary = cargo_build(ctx, "h-cluster")
    hrs = []
    for rf in (1, 2, 3, 5):
        # one process per replication factor (one ClusterActor per process)
        hr = run_harness(ctx, binary, ["reads", table, rf], timeout=6000)
        for v in hr.violations:
            add_violation(ctx, v["key"], v["detail"], v["replay"])
        hrs.append(hr)
    cov = {
        "states": sum(r.distinct for r in ctx.tlc_runs), "transitions": sum(r.generated for r in ctx.tlc_runs),
        "traces_validated_against_impl": sum(h.stats["evaluations"] for h in hrs),
        "samples": sum((h.stats.get("samples", [])[:1] for h in hrs), []),
        "evaluations": sum(h.stats["evaluations"] for h in hrs),
        "distinct_nontrivial": sum(h.stats["distinct_classes"] for h in hrs),
        "queries": sum(h.stats.get("queries", 0) for h in hrs),
        "answers_equal_to_visible_set": sum(h.stats.get("answers_equal_to_visible_set", 0) for h in hrs),
        "answers_with_fewer_than_visible": sum(h.stats.get("answers_with_fewer_than_visible", 0) for h in hrs),
        "table_rows": len(rows),
        "rule": "Gating.tla enumerates every partition history of up to 3 (thorough: 4) transactions of 1-2 events with on-disk "
                "confirmation counts {0, quorum-1, quorum, rf} for rf in {1,2,3,5}, defines the watermark and the visible set and "
                "checks GateIsPrefix / UnconfirmedHidden / StreamPrefix. Each history is built on a real Database "
                "(Transaction::with_confirmation_count), handed to the process's real ClusterActor with ResetCluster so that the "
                "ConfirmationActor derives the watermark from disk, and ReadEvent for every event, ReadPartition for every (start, "
                "end, count), ReadStream for every (stream, start, end, count), GetStreamVersion and GetPartitionSequence are sent; "
                "no answer may contain an event at or above the specification's watermark nor a version/sequence beyond the visible "
                "ones. evaluations = histories; distinct_nontrivial = (rf, watermark, length) classes.",
    }
    return finish(ctx, "model_checking", cov,
                  ["single process: the node is the only member of its topology (node_count 1), so reads are answered locally; "
                   "forwarding between replicas is not exercised",
                   "answers that reveal fewer events than are visible are counted (answers_with_fewer_than_visible), not judged: "
                   "the statement bounds what may be revealed"])


def check_C12(ctx, replay=None):
    quick = ctx.quick()
    runs = []
    for limit, nd in ((2, 5), (1, 4)) if quick else ((2, 6), (1, 5), (3, 6)):
        cfg = core.make_cfg(ctx, "MCReplicator.cfg", Limit=limit, MaxDeliveries=nd)
        ex = run_tlc(ctx, "Replicator", cfg, workers=8, timeout=3000, xmx="10g")
        core.require_actions(ex, ["Deliver", "Expire", "CatchUp"], "replicator limit=%d" % limit)
        _tlc_must_hold(ctx, ex, "c12:tlc-invariant")
        runs.append(ex)
    if not quick:
        dv = run_tlc(ctx, "Replicator", "MCReplicatorDev.cfg", workers=4, timeout=900, tags=(), expect_error=True)
        if dv.ok:
            raise core.ToolError("specification self-test failed: MCReplicatorDev.cfg should violate NoPendingBelowNext")
    # behaviours: all without timers (fast), plus a sample of those that wait for a real timer
    cap = 160 if quick else 2500
    for r in runs:
        fast = [p for p in r.prints if not any(s["op"] in ("expire", "catchup") for s in p[1]["steps"])]
        slow = [p for p in r.prints if any(s["op"] in ("expire", "catchup") for s in p[1]["steps"])]
        r.prints = fast[:: max(1, len(fast) // cap)][:cap] + slow[:: max(1, len(slow) // (cap // 4))][: cap // 4]
    plans, n = _plans(ctx, runs, "replicator-plans.ndjson")
    binary = cargo_build(ctx, "h-cluster")
    hr = core.run_harness_chunked(ctx, binary, lambda part: ["replicator", part], plans, chunk=600, timeout=9000)
    for v in hr.violations:
        add_violation(ctx, v["key"], v["detail"], v["replay"])
    cov = {
        "states": sum(r.distinct for r in ctx.tlc_runs), "transitions": sum(r.generated for r in ctx.tlc_runs),
        "traces_validated_against_impl": hr.stats["evaluations"], "samples": hr.stats.get("samples", []),
        "evaluations": hr.stats["evaluations"], "distinct_nontrivial": hr.stats["distinct_classes"],
        "with_expiry": hr.stats.get("with_expiry"), "with_catchup": hr.stats.get("with_catchup"),
        "steps_replayed": hr.stats.get("steps_replayed"),
        "rule": "Replicator.tla transcribes the ordered buffer (insert at / before / after the next expected sequence, merge of "
                "duplicates, conflict, eviction of the largest key, refusal when full), the drain loop, expiry and catch-up from "
                "the coordinator's confirmed log; TLC explores every delivery order of six transactions (single and 2-event, one "
                "conflicting, one inside a multi-event range) with buffer limits 1-3 and checks AppliedAtAssignedSeq, AtMostOnce, "
                "NoPendingBelowNext, RejectLeavesLogUnchanged, AllAnsweredAtRest. One behaviour per distinct quiescent final state "
                "is replayed on a real PartitionReplicatorActor (real Database and ConfirmationActor; catch-up served by the "
                "process's real ClusterActor over a coordinator database): each delivery is a real ReplicateWrite ask, expiry and "
                "catch-up are waited for on the real timers; the reply of every delivery and the replica's partition log must be "
                "the specification's. distinct_nontrivial = (set of reply kinds, timer) classes replayed.",
    }
    return finish(ctx, "model_checking", cov,
                  ["the replica's database is written by its replicator only (a node that also coordinates writes to the same "
                   "partition is outside the property's quantifier)",
                   "expiry and catch-up are alternatives of one actor configuration (which timer is shorter); behaviours "
                   "containing both are not replayed"])


def _replication(ctx, pid):
    quick = ctx.quick()
    key = pid.lower()
    ex = run_tlc(ctx, "MCReplication", "MCReplicationQ.cfg" if quick else "MCReplication.cfg", workers=10, timeout=5400,
                 xmx="24g", tags=())
    # (message deliveries are one disjunct of Next in TLC's coverage report)
    # (every disjunct of Next carries the commit-count bookkeeping conjunct, so TLC's coverage report names them all
    # "Next"; which kinds of step the replayed behaviours contain is checked below)
    core.require_actions(ex, ["Next"], "replication")
    _tlc_must_hold(ctx, ex, "%s:tlc-invariant" % key)
    if not quick:
        dv = run_tlc(ctx, "MCReplication", "MCReplicationDev.cfg", workers=4, timeout=900, tags=(), expect_error=True)
        if dv.ok:
            raise core.ToolError("specification self-test failed: MCReplicationDev.cfg (quorum one reply too small) should "
                                 "violate OneConfirmedPerSeq")
    sim = run_tlc(ctx, "MCReplication", "MCReplicationSim.cfg", workers=1, simulate=120 if quick else 1500, depth=60,
                  timeout=1800, coverage=False)
    _tlc_must_hold(ctx, sim, "%s:tlc-invariant" % key)
    # one (the longest) behaviour per walk prefix family: de-duplicate identical prints
    seen, uniq = set(), []
    for t, v in sim.prints:
        k = json.dumps(v["steps"])
        if k not in seen:
            seen.add(k)
            uniq.append((t, v))
    sim.prints = uniq[: (80 if quick else 1200)]
    # catch-up: random walks hardly ever reach it, so the behaviours come from an exhaustive run that holds the first
    # ReplicateWrite to one node back for ever (a legal delay) and emits the quiescent behaviours containing a catch-up
    # attempt - including those where the catching-up replica coordinated a write itself and its log is ahead of its
    # replicator (the served commit must then be refused, not appended at another sequence)
    cu = run_tlc(ctx, "MCReplication", "MCReplicationCU.cfg", workers=10, timeout=3000, xmx="16g", tags=("REPLAY",), coverage=False)
    _tlc_must_hold(ctx, cu, "%s:tlc-invariant" % key)
    seen, ahead, plain = set(), [], []
    for t, v in cu.prints:
        k = json.dumps(v["steps"])
        if k in seen:
            continue
        seen.add(k)
        (ahead if any(st["op"] == "catchup" and st["ahead"] for st in v["steps"]) else plain).append((t, v))
    if not ahead or not plain:
        raise core.ToolError("vacuous catch-up generation: %d behaviours with a replica ahead of its replicator, %d without"
                             % (len(ahead), len(plain)))
    import random
    rnd = random.Random(ctx.seed)
    rnd.shuffle(ahead)
    rnd.shuffle(plain)
    cu.prints = ahead[: (40 if quick else 400)] + plain[: (60 if quick else 800)]
    if not quick:
        pin = run_tlc(ctx, "MCReplication", "MCReplicationPin.cfg", workers=10, timeout=3000, xmx="16g", tags=(), coverage=False,
                      expect_error=True)
        if pin.ok:
            raise core.ToolError("specification self-test failed: MCReplicationPin.cfg (a commit served by catch-up is appended "
                                 "wherever the replica's log ends) should violate OneConfirmedPerSeq")
    # the coordinator itself: behaviours in which the last write is carried out by the REAL coordinator code
    # (write/transaction.rs) with the process's ClusterActor as its one reachable replica - after a leader change, with
    # the replica level with, ahead of (stale) or behind (buffered, then timeout) the new leader
    sl = run_tlc(ctx, "MCReplication", "MCReplicationSlice.cfg", workers=4, timeout=1200, tags=("REPLAY",), coverage=False)
    _tlc_must_hold(ctx, sl, "%s:tlc-invariant" % key)
    seen, by = set(), {"ok": [], "stale": [], "buffered": []}
    for t, v in sl.prints:
        k = json.dumps(v["steps"])
        if k in seen:
            continue
        seen.add(k)
        reps = [st for st in v["steps"] if st["op"] == "rep" and st["tx"] == v["real_coordinator"]]
        if reps and reps[0]["res"] in by:
            by[reps[0]["res"]].append((t, v))
    if not all(by.values()):
        raise core.ToolError("vacuous coordinator slice: %s" % {k: len(v) for k, v in by.items()})
    for v in by.values():
        rnd.shuffle(v)
    sl.prints = by["ok"][: (40 if quick else 400)] + by["stale"][: (30 if quick else 200)] + by["buffered"][: (2 if quick else 10)]
    ops_seen = {st["op"] for r in (sim, cu, sl) for _, v in r.prints for st in v["steps"]}
    missing = {"write", "rep", "reply", "confirm", "giveup", "crash", "restart", "view", "catchup", "lose"} - ops_seen
    if missing:
        raise core.ToolError("vacuous replication behaviours: no step of kind %s" % sorted(missing))
    plans, n = _plans(ctx, [sim, cu, sl], "replication-plans.ndjson")
    binary = cargo_build(ctx, "h-cluster")
    hr = core.run_harness_chunked(ctx, binary, lambda part: ["vcluster", part], plans, chunk=400, timeout=9000)
    for v in hr.violations:
        k = v["key"]
        # the two properties share the machinery; each reports what belongs to it (conformance failures to both)
        if pid == "C11" and k.startswith("c10:two-confirmed"):
            continue
        if pid == "C10" and k.startswith("c11:"):
            continue
        add_violation(ctx, k.replace("c10:conformance", "%s:conformance" % key).replace("c10:panic", "%s:panic" % key), v["detail"], v["replay"])
    cov = {
        "states": ex.distinct, "transitions": ex.generated + sim.generated,
        "traces_validated_against_impl": hr.stats["evaluations"], "samples": hr.stats.get("samples", []),
        "evaluations": hr.stats["evaluations"], "distinct_nontrivial": hr.stats["distinct_classes"],
        "steps_replayed": hr.stats.get("steps_replayed"), "with_catchup": hr.stats.get("with_catchup"),
        "catchup_behaviours_generated": {"replica_ahead": len(ahead), "plain": len(plain)},
        "with_real_coordinator": hr.stats.get("with_real_coordinator"),
        "coordinator_slice_generated": {k: len(v) for k, v in by.items()},
        "rule": "Replication.tla models 3 nodes (logs, on-disk counts, replicator next/buffer, membership views), the coordinator of "
                "transaction.rs (local append, ReplicateWrite fan-out to its view, reply counting, set_confirmations at the quorum, "
                "ConfirmTransaction to the replicas that answered, late replies), the replica (sender check, replicator, "
                "ConfirmTransaction checks), catch-up below the coordinator's watermark, message loss / duplication / reordering, "
                "divergent views (two simultaneous coordinators), give-up, crash and restart; TLC checks OneConfirmedPerSeq, "
                "ConfirmedPrefixAgree, AckedOnQuorum, QuorumCountMeansQuorumHeld, AckedStable exhaustively (quick: 2 transactions, 1 "
                "view change, 1 crash; thorough: + loss and duplication). Random walks with 3 transactions are replayed on a "
                "virtual cluster of real Database directories and real PartitionReplicatorActors: local appends, ReplicateWrite "
                "asks, set_confirmations_with_retry, the real ConfirmTransaction handler (ClusterActor switched to the replica's "
                "database), close/reopen for crash/restart; every reply and finally every node's log and on-disk counts must be the "
                "specification's, and the two properties are evaluated on the real final state. Catch-up is replayed too: the real "
                "replicator's catch-up is held back by a hook and released at the behaviour's step, served by the real "
                "PartitionSyncRequest handler over the coordinator's database; behaviours in which the catching-up replica's own log "
                "is ahead of its replicator (it coordinated a write through a divergent view) come from a dedicated exhaustive run. "
                "The coordinator itself is bound by a third family: after a leader change (old leader's writes delivered, lost or "
                "half-confirmed in every combination, then dead) the new leader's write is carried out by the real "
                "write::transaction::spawn over its database with the real ClusterActor as the one reachable replica; the client "
                "reply (acknowledged / error), the sequence, and the final logs and counts must be the specification's.",
    }
    return finish(ctx, "model_checking", cov,
                  ["one ClusterActor per process: in the random-walk and catch-up families the coordinator's fan-out, reply "
                   "counting and late-reply logic are decided on the specification and mirrored by the harness for rf = 3; the real "
                   "coordinator runs in the coordinator-slice family, with one reachable replica (2 of 3); the sender check of the "
                   "ReplicateWrite handler is mirrored from the view",
                   "a replica's Ok reply implies its append is durable (C01)"])


def check_C10(ctx, replay=None):
    return _replication(ctx, "C10")


def check_C11(ctx, replay=None):
    return _replication(ctx, "C11")


def check_C09(ctx, replay=None):
    import os
    import shutil
    quick = ctx.quick()
    for cfg in ("MCSubscription.cfg", "MCSubscriptionStream.cfg", "MCSubscriptionB2.cfg"):
        c = cfg if quick else core.make_cfg(ctx, cfg, RingCap=2, Window=2)
        ex = run_tlc(ctx, "MCSubscription", c, workers=8, timeout=1800, tags=())
        core.require_actions(ex, ["Confirm", "Broadcast", "HistOpen", "HistBatch", "HistCommit", "LiveRecv", "Lagged", "Ack"], cfg)
        _tlc_must_hold(ctx, ex, "c09:tlc-invariant")
    for cfg in ("MCSubscriptionDevBreak.cfg", "MCSubscriptionDevBcast.cfg"):
        dv = run_tlc(ctx, "MCSubscription", cfg, workers=4, timeout=600, tags=(), expect_error=True)
        if dv.ok:
            raise core.ToolError("specification self-test failed: %s should violate an invariant" % cfg)
    binary = cargo_build(ctx, "h-cluster")
    trace = ctx.path("subs-trace.ndjson")
    hr = run_harness(ctx, binary, ["subs", trace], timeout=6000)
    for v in hr.violations:
        add_violation(ctx, v["key"], v["detail"], v["replay"])
    nlines = sum(1 for _ in open(trace))
    res = run_tlc(ctx, "TraceSub", "TraceSub.cfg", workers=1, deque=True, timeout=1800, xmx="6g", env={"TRACE": trace},
                  tags=(), coverage=False, expect_error=True)
    accepted = res.ok
    if not accepted:
        text = open(res.log, errors="replace").read()
        m = re.search(r'<<"TRACE_REJECTED_AT", (\d+), (".*")>>', text)
        info = {"tlc_error": res.error}
        if m:
            info["line"] = int(m.group(1))
            try:
                info["event"] = json.loads(json.loads(m.group(2)))
            except Exception:
                info["event"] = m.group(2)
            # which scenario the rejected line belongs to
            lines = open(trace).read().splitlines()
            for ln in reversed(lines[: info["line"]]):
                d = json.loads(ln)
                if d.get("e") == "start":
                    info["scenario"] = d["scenario"]
                    break
        keep = os.path.join(core.REPLAYS, "C09-trace-%d.ndjson" % ctx.seed)
        os.makedirs(core.REPLAYS, exist_ok=True)
        shutil.copy(trace, keep)
        info["trace"] = keep
        ev = info.get("event", {})
        what = "rest" if isinstance(ev, dict) and ev.get("e") == "rest" else "record"
        add_violation(ctx, "c09:trace-rejected:%s" % what, info, {"trace": keep, "line": info.get("line")})
    binding = []
    states = sum(r.distinct for r in ctx.tlc_runs)
    transitions = sum(r.generated for r in ctx.tlc_runs)
    if accepted and not replay:
        # binding self-test: the same trace with one delivery removed (a gap), or one delivery repeated, must be rejected
        lines = open(trace).read().splitlines()
        recs = [i for i, ln in enumerate(lines) if json.loads(ln).get("e") == "record"]
        tampered = {}
        if len(recs) >= 3:
            k = recs[len(recs) // 2]
            tampered["gap"] = lines[:k] + lines[k + 1:]
            tampered["duplicate"] = lines[:k + 1] + [lines[k]] + lines[k + 1:]
        for name, tl in tampered.items():
            tp = ctx.path("subs-trace-%s.ndjson" % name)
            with open(tp, "w") as f:
                f.write("\n".join(tl) + "\n")
            tr = run_tlc(ctx, "TraceSub", "TraceSub.cfg", workers=1, deque=True, timeout=1800, xmx="6g", env={"TRACE": tp},
                         tags=(), coverage=False, expect_error=True)
            if tr.ok:
                raise core.ToolError("binding self-test failed: the recorded subscription trace with a %s is still accepted "
                                     "by TraceSub.tla" % name)
            binding.append(name)
    cov = {
        "states": states, "transitions": transitions,
        "traces_validated_against_impl": hr.stats.get("scenarios", 0), "samples": hr.stats.get("samples", []),
        "evaluations": hr.stats["evaluations"], "distinct_nontrivial": hr.stats["distinct_classes"],
        "trace_lines_validated": nlines, "trace_accepted": accepted, "records_delivered": hr.stats.get("records"),
        "binding_selftests_rejected": binding,
        "rule": "Subscription.tla (watermark advance and broadcast as separate steps, bounded ring with lag, history read in "
                "batches with the stop at the first unconfirmed commit, hand-over to the live ring with de-duplication, "
                "acknowledgement window) is explored exhaustively for partition and stream matchers, batch sizes 1-2, ring 2, window "
                "2 with InOrderNoGap, OnlyConfirmed, WindowRespected, CompleteAtRest; two named deviations must violate them. "
                "Binding: real Subscribe on the real ClusterActor (rf 3) for Partition / Partitions / Stream / Streams matchers, "
                "start positions and windows; events are on disk unconfirmed and are confirmed through the real ConfirmTransaction "
                "handler while the subscriber receives and acknowledges; histories longer than one batch are read with the "
                "subscription task parked (hook) at its first / second batch while everything is confirmed. The recorded trace "
                "(confirmations issued, records received with cursor, acknowledgements, rest) is validated by TLC against "
                "TraceSub.tla, the observable projection of the specification. distinct_nontrivial = (matcher, parked batch, long "
                "history) classes.",
    }
    return finish(ctx, "model_checking", cov,
                  ["a record must be below the watermark implied by the confirmations the harness had issued when it received it",
                   "single process: confirmations reach the node through ConfirmTransaction (the replica path) only"])
