"""C13, C14, C24: Topology.tla / Membership.tla + h-topology."""
import json
from . import core
from .core import run_tlc, cargo_build, run_harness, add_violation, finish, samples_of


def _tables(ctx, res, tag="TABLE"):
    p = ctx.path("tables-%d.ndjson" % len(ctx.tlc_runs))
    n = 0
    with open(p, "w") as f:
        for t, v in res.prints:
            if t == tag:
                f.write(json.dumps(v) + "\n")
                n += 1
    if n == 0:
        raise core.ToolError("TLC produced no %s lines (%s)" % (tag, res.log))
    return p, n


def _tlc_must_hold(ctx, res, key):
    if not res.ok:
        add_violation(ctx, key, {"tlc_error": res.error, "log": res.log},
                      {"tlc_cmd": res.cmd, "log": res.log})


def _placement(ctx, which):
    res = run_tlc(ctx, "MCPlacement", "MCPlacement.cfg", workers=4, tags=("TABLE",), timeout=300)
    _tlc_must_hold(ctx, res, "%s:tlc-invariant" % which)
    if not ctx.quick():
        big = run_tlc(ctx, "MCPlacement", "MCPlacementBig.cfg", workers=12, tags=(), timeout=1500)
        _tlc_must_hold(ctx, big, "%s:tlc-invariant" % which)
    tables, n = _tables(ctx, res)
    binary = cargo_build(ctx, "h-topology", release=True)
    hr = run_harness(ctx, binary, ["placement", tables, which])
    for v in hr.violations:
        add_violation(ctx, v["key"], v["detail"], v["replay"])
    return res, hr, n


def check_C13(ctx, replay=None):
    res, hr, n = _placement(ctx, "c13")
    cov = {
        "states": sum(r.distinct for r in ctx.tlc_runs), "transitions": sum(r.generated for r in ctx.tlc_runs),
        "traces_validated_against_impl": n,
        "samples": hr.stats.get("samples", []),
        "evaluations": hr.stats["evaluations"], "distinct_nontrivial": hr.stats["distinct_classes"],
        "rule": "TLC: one state per configuration (N,B,P,rf), Agreement checked on the transcription and the "
                "transcription tabulated; harness: every table row compared with the real AppConfig::assigned_buckets/"
                "assigned_partitions and TopologyManager::new(..).assigned_partitions; then Agreement evaluated on the real "
                "functions for every validated configuration of the enumerated domain plus sampled large ones. "
                "distinct_nontrivial counts the classes (rf<N?, B>N?, N|B?) that occurred.",
        "configurations_on_real_code": hr.stats.get("configurations"),
        "table_rows_compared": hr.stats.get("table_rows_compared"),
        "spec_divergences": hr.stats.get("spec_divergences", 0),
    }
    notes = ["AppConfig built programmatically (file/env loading not exercised)",
             "replication factors above MAX_REPLICATION_FACTOR=12 are outside the domain"]
    if cov["spec_divergences"]:
        notes.append("the real placement functions differ from the specification's transcription on %d table rows (e.g. %s): TLC's "
                     "result about the transcription does not transfer; the verdict rests on Agreement evaluated directly on the real "
                     "functions" % (cov["spec_divergences"], json.dumps(hr.stats.get("spec_divergence_sample"))[:300]))
    return finish(ctx, "model_checking", cov, notes)


def _membership(ctx):
    quick = ctx.quick()
    res = run_tlc(ctx, "MCMembership", "MCMembership.cfg" if quick else "MCMembershipT.cfg",
                  workers=8 if quick else 12, timeout=900 if quick else 3000, tags=("REPLAY",), xmx="12g")
    core.require_actions(res, ["HConnect", "HHeartbeat", "HDisconnect", "HTimeouts", "HResponse"], "membership")
    _tlc_must_hold(ctx, res, "c14:tlc-membership-invariant")
    sim = run_tlc(ctx, "MCMembership", "MCMembershipSim.cfg", workers=1, simulate=40 if quick else 600,
                  depth=30, timeout=600, tags=("REPLAY",))
    _tlc_must_hold(ctx, sim, "c14:tlc-membership-invariant")
    plans = ctx.path("membership.ndjson")
    n = 0
    with open(plans, "w") as f:
        for r in (res, sim):
            for t, v in r.prints:
                f.write(json.dumps(v) + "\n")
                n += 1
    if n == 0:
        raise core.ToolError("no membership behaviours emitted")
    return plans, n


def check_C14(ctx, replay=None):
    res, hr, ntab = _placement(ctx, "c14")
    plans, nplans = _membership(ctx)
    binary = cargo_build(ctx, "h-topology", release=True)
    hm = run_harness(ctx, binary, ["membership", plans, 3, 3, 3, 2])
    for v in hm.violations:
        add_violation(ctx, v["key"], v["detail"], v["replay"])
    cov = {
        "states": sum(r.distinct for r in ctx.tlc_runs), "transitions": sum(r.generated for r in ctx.tlc_runs),
        "traces_validated_against_impl": nplans + ntab,
        "samples": hm.stats.get("samples", []) + hr.stats.get("samples", [])[:1],
        "evaluations": hr.stats["evaluations"] + hm.stats["evaluations"],
        "distinct_nontrivial": hr.stats["distinct_classes"] + hm.stats["distinct_classes"],
        "rule": "static: TLC one state per (N,B,P,rf) with ReplicaCount/OwnsIffReplica; table compared with real "
                "TopologyManager; property evaluated on real managers for the enumerated domain and N in {255..1000}. "
                "dynamic: TLC explores every interleaving of connect/heartbeat/disconnect/timeouts/ownership-response/restart "
                "for 3 peers (SameViewSameReplicas, SameOrder, SelfKnown); each emitted behaviour is replayed on three real "
                "TopologyManager<ActorId> with the full state compared after every step.",
        "membership_behaviours_replayed": nplans, "membership_steps": hm.stats.get("steps_replayed"),
        "membership_ops": hm.stats.get("ops"),
        "configurations_on_real_code": hr.stats.get("configurations"),
        "spec_divergences": hr.stats.get("spec_divergences", 0),
    }
    notes = ["heartbeat timeouts are injected by back-dating node_heartbeats (as the repository's tests do)",
             "gossipsub transport is abstracted: any ownership response ever sent may reach any node at any time",
             "replication factors above MAX_REPLICATION_FACTOR=12 are outside the domain"]
    if cov["spec_divergences"]:
        notes.append("the real static placement differs from the specification's transcription on %d table rows: TLC's static result "
                     "does not transfer; the static verdict rests on the property evaluated directly on real managers"
                     % cov["spec_divergences"])
    return finish(ctx, "model_checking", cov, notes)


def check_C24(ctx, replay=None):
    res = run_tlc(ctx, "MCDistribute", "MCDistribute.cfg", workers=8, tags=("TABLE",), timeout=600)
    _tlc_must_hold(ctx, res, "c24:tlc-invariant")
    tables, n = _tables(ctx, res)
    binary = cargo_build(ctx, "h-topology", release=True)
    hr = run_harness(ctx, binary, ["distribute", tables], timeout=3000)
    for v in hr.violations:
        add_violation(ctx, v["key"], v["detail"], v["replay"])
    # boundary region once more with overflow checks compiled in
    dbg = cargo_build(ctx, "h-topology", release=False)
    hd = run_harness(ctx, dbg, ["distribute", tables], env={"VERIF_TIER": "quick"}, timeout=3000)
    for v in hd.violations:
        add_violation(ctx, v["key"] + ":dev-profile", v["detail"], v["replay"])
    cov = {
        "evaluations": hr.stats["evaluations"] + hd.stats["evaluations"],
        "distinct_nontrivial": hr.stats["distinct_classes"],
        "rule": "TLC: DistinctWalk(n) for every n in 1..65535 on the closed form, DistributeOK for all (h,n,rf) with n<=40, "
                "closed form tabulated; harness: the real distribute_partition is compared with the table and the closed form "
                "(a walk that differs but satisfies the property is counted as closed_form_divergences, not reported), and the "
                "property as stated (length min(rf,n,12), pairwise distinct, below n, first = h mod n, prefix of the result for a "
                "larger rf, same result when called again, no panic) is evaluated on the real function for every covered n: all "
                "start points p<n x rf in {0..13,255} and all 2^16 hashes x rf in {1,3}; thorough covers every n in 0..65535 "
                "(release build) and the quick domain again in the dev profile (overflow checks on). "
                "distinct_nontrivial = number of jump classes covered.",
        "samples": hr.stats.get("samples", []),
        "states": res.distinct, "transitions": res.generated, "traces_validated_against_impl": n,
        "exhaustive": bool(hr.stats.get("exhaustive")),
        "partition_counts_covered": hr.stats.get("partition_counts_covered"),
        "closed_form_divergences": hr.stats.get("closed_form_divergences", 0) + hd.stats.get("closed_form_divergences", 0),
    }
    notes = ["TLC integers suffice: all values < 2^17"]
    if cov["closed_form_divergences"]:
        notes.append("the real function no longer follows the specification's closed form (%d inputs): TLC's result about the closed "
                     "form does not transfer; the verdict rests on the direct evaluation of the property over the covered inputs"
                     % cov["closed_form_divergences"])
    return finish(ctx, "model_checking", cov, notes)
