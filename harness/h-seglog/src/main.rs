//! Harness for the seglog crate (C17, C18).
//!   replay <plans.ndjson>   SegLog.tla behaviours replayed on a real Writer and long-lived
//!                           Readers, under several concrete layouts
//!   faults <classes.ndjson> spec-driven fault enumeration on single records
use std::collections::BTreeMap;
use std::path::{Path, PathBuf};

use hcommon::{Report, catch, read_ndjson};
use serde_json::{Value, json};

use seglog::read::{ReadError, ReadHint, Reader};
use seglog::write::{WriteError, Writer};

mod faults;

fn main() {
    hcommon::quiet_panics();
    let args: Vec<String> = std::env::args().collect();
    let mut rep = Report::new();
    match args[1].as_str() {
        "replay" => replay(&mut rep, &args[2]),
        "faults" => faults::run(&mut rep, &args[2]),
        other => panic!("unknown subcommand {other}"),
    }
    rep.finish();
}

pub fn scratch(name: &str) -> PathBuf {
    let d = std::env::current_dir().unwrap().join(format!("seglog-{}-{}", std::process::id(), name));
    let _ = std::fs::remove_dir_all(&d);
    std::fs::create_dir_all(&d).unwrap();
    d
}

// ---------------------------------------------------------------------------
// concrete layouts for the abstract cells of SegLog.tla

#[derive(Clone, Copy, Debug)]
pub struct Layout {
    pub name: &'static str,
    /// data length of a record of 1 cell / 2 cells
    pub len1: usize,
    pub len2: usize,
}

pub const LAYOUTS: &[Layout] = &[
    Layout { name: "small", len1: 40, len2: 300 },
    Layout { name: "optimistic-boundary", len1: 2040, len2: 2048 },
    Layout { name: "fallback", len1: 1500, len2: 3900 },
    Layout { name: "large", len1: 5000, len2: 70_000 },
    Layout { name: "empty-and-threshold", len1: 0, len2: 128 },
];

pub fn data_for(id: u64, len: usize, compressible: bool) -> Vec<u8> {
    let mut v = Vec::with_capacity(len);
    let mut x = id.wrapping_mul(0x9E37_79B9_7F4A_7C15) | 1;
    for i in 0..len {
        if compressible {
            v.push(b'a' + ((id as usize + i / 37) % 7) as u8);
        } else {
            x ^= x << 13;
            x ^= x >> 7;
            x ^= x << 17;
            v.push((x >> 24) as u8 | 1); // never all-zero
        }
    }
    v
}

pub fn header_for<const H: usize>(id: u64, hv: u64) -> [u8; H] {
    let mut h = [0u8; H];
    for (i, b) in h.iter_mut().enumerate() {
        *b = (id as u8).wrapping_mul(31).wrapping_add(hv as u8 * 7).wrapping_add(i as u8) | 0x10;
    }
    h
}

const START: u64 = 64;
const SEG_SIZE: usize = 1 << 20;

struct Rec {
    id: u64,
    hv: u64,
    real_start: u64,
    real_len: u64,
    data_len: usize,
    compressible: bool,
}

struct World<const H: usize> {
    path: PathBuf,
    layout: Layout,
    writer: Option<Writer<H>>,
    readers: Vec<Option<Reader<H>>>,
    /// abstract start offset -> latest physical record written there
    recs: BTreeMap<u64, Rec>,
    /// abstract offset -> real offset for every boundary seen so far
    abs2real: BTreeMap<u64, u64>,
    abs_wofs: u64,
    /// boundaries of the current logical log (abstract offsets)
    bounds: std::collections::BTreeSet<u64>,
}

#[derive(Debug, PartialEq)]
enum Got {
    Ok { id: u64, hv: u64, compressed: bool },
    None(String),
    Foreign(String),
}

impl<const H: usize> World<H> {
    fn new(dir: &Path, layout: Layout) -> Self {
        let path = dir.join("seg.log");
        let _ = std::fs::remove_file(&path);
        let writer = Writer::<H>::create(&path, SEG_SIZE, START).unwrap();
        let mut w = World {
            path,
            layout,
            writer: Some(writer),
            readers: vec![],
            recs: BTreeMap::new(),
            abs2real: BTreeMap::new(),
            abs_wofs: 0,
            bounds: [0u64].into_iter().collect(),
        };
        w.abs2real.insert(0, START);
        w.open_readers();
        w
    }

    fn open_readers(&mut self) {
        let fo = self.writer.as_ref().unwrap().flushed_offset();
        self.readers = (0..2).map(|_| Some(Reader::<H>::open(&self.path, Some(fo.clone())).unwrap())).collect();
    }

    fn real_of(&self, abs: u64) -> u64 {
        if let Some(r) = self.abs2real.get(&abs) {
            return *r;
        }
        // inside some record (or beyond everything): a deliberately misaligned offset
        match self.abs2real.range(..abs).next_back() {
            Some((_, r)) => r + 5,
            None => START + 5,
        }
    }

    fn classify(&self, res: Result<seglog::read::Record<'_, H>, ReadError>, at_real: u64) -> Got {
        match res {
            Err(e) => Got::None(format!("{e}")),
            Ok(rec) => {
                for r in self.recs.values() {
                    if r.real_start == at_real
                        && rec.header.as_ref() == header_for::<H>(r.id, r.hv).as_slice()
                        && rec.data.as_ref() == data_for(r.id, r.data_len, r.compressible).as_slice()
                        && rec.len as u64 == r.real_len
                        && rec.offset == at_real
                    {
                        return Got::Ok { id: r.id, hv: r.hv, compressed: rec.compressed_data.is_some() };
                    }
                }
                Got::Foreign(format!(
                    "offset {} len {} header {:02x?} data[..8] {:02x?}",
                    rec.offset,
                    rec.len,
                    &rec.header[..H.min(8)],
                    &rec.data[..rec.data.len().min(8)]
                ))
            }
        }
    }

    fn check_read(&self, op: &Value, got: Got) -> Result<(), String> {
        let want = &op["res"];
        match (want["st"].as_str().unwrap(), &got) {
            ("none", Got::None(_)) => Ok(()),
            ("ok", Got::Ok { id, hv, .. }) if *id == want["id"].as_u64().unwrap() && *hv == want["hv"].as_u64().unwrap() => Ok(()),
            _ => Err(format!("spec prescribes {want}, real read gave {got:?}")),
        }
    }

    /// executes one step; Err(description) on divergence from the specification
    fn step(&mut self, op: &Value) -> Result<(), String> {
        let kind = op["op"].as_str().unwrap();
        match kind {
            "append" => {
                let n = op["n"].as_u64().unwrap();
                let c = op["c"].as_bool().unwrap();
                let id = op["id"].as_u64().unwrap();
                let at = op["at"].as_u64().unwrap();
                let len = if n == 1 { self.layout.len1 } else { self.layout.len2 };
                let data = data_for(id, len, c);
                let want_off = self.real_of(at);
                let w = self.writer.as_mut().unwrap();
                let before = w.write_offset();
                let (off, total) = w.append(&header_for::<H>(id, 1), &data).map_err(|e| format!("append failed: {e}"))?;
                if off != before || off != want_off || w.write_offset() != off + total as u64 {
                    return Err(format!("append returned offset {off}, expected {want_off} (write_offset before {before})"));
                }
                // forget physical records this one overwrites logically (same abstract start or beyond)
                self.recs.insert(at, Rec { id, hv: 1, real_start: off, real_len: total as u64, data_len: len, compressible: c });
                self.abs2real.insert(at + n, off + total as u64);
                self.abs_wofs = at + n;
                self.bounds.retain(|b| *b <= at);
                self.bounds.insert(at + n);
                Ok(())
            }
            "append_full" => {
                let w = self.writer.as_mut().unwrap();
                let remaining = w.remaining_bytes() as usize;
                let before = w.write_offset();
                let mut data = data_for(999, remaining + 4096, false); // head + header make it exceed the space left
                let mut x = 0x2545F4914F6CDD1Du64;
                for b in data.iter_mut() {
                    x ^= x << 13;
                    x ^= x >> 7;
                    x ^= x << 17;
                    *b = (x >> 32) as u8; // incompressible even with compression enabled
                }
                match w.append(&header_for::<H>(999, 1), &data) {
                    Err(WriteError::SegmentFull { .. }) if w.write_offset() == before => Ok(()),
                    other => Err(format!("oversized append: {other:?}, write_offset {} -> {}", before, w.write_offset())),
                }
            }
            "flush" => self.writer.as_mut().unwrap().flush_writer().map_err(|e| e.to_string()),
            "sync" => {
                let ret = self.writer.as_mut().unwrap().sync().map_err(|e| e.to_string())?;
                let want = self.real_of(op["ret"].as_u64().unwrap());
                if ret != want { Err(format!("sync returned {ret}, spec {want}")) } else { Ok(()) }
            }
            "set_len" => {
                let o = op["o"].as_u64().unwrap();
                let real = self.real_of(o);
                let w = self.writer.as_mut().unwrap();
                let old_end = w.write_offset();
                w.set_len(real).map_err(|e| e.to_string())?;
                // environment assumption of SegLog!SetLen: the truncated tail reads as zeros
                if old_end > real + 8 {
                    use std::os::unix::fs::FileExt;
                    w.file().write_all_at(&vec![0u8; (old_end - real - 8) as usize], real + 8).unwrap();
                }
                if w.write_offset() != real || w.flushed_offset().load() != real {
                    return Err(format!("after set_len({real}): write_offset {} flushed {}", w.write_offset(), w.flushed_offset().load()));
                }
                self.abs_wofs = o;
                self.bounds.retain(|b| *b <= o);
                Ok(())
            }
            "toggle" => {
                let w = self.writer.as_mut().unwrap();
                if op["on"].as_bool().unwrap() { w.enable_compression() } else { w.disable_compression() }
                Ok(())
            }
            "reopen" => {
                self.readers.clear();
                drop(self.writer.take()); // BufWriter flushes on drop, nothing is synced
                let w = Writer::<H>::open(&self.path, SEG_SIZE, START).map_err(|e| format!("open failed: {e}"))?;
                let want = self.real_of(op["wofs"].as_u64().unwrap());
                let got = w.write_offset();
                self.abs_wofs = op["wofs"].as_u64().unwrap();
                let aw = self.abs_wofs;
                self.bounds.retain(|b| *b <= aw);
                self.writer = Some(w);
                self.open_readers();
                if got != want { Err(format!("reopened writer resumes at {got}, spec says {want}")) } else { Ok(()) }
            }
            "read_random" | "read_seq" => {
                let r = op["r"].as_u64().unwrap() as usize - 1;
                let real = self.real_of(op["o"].as_u64().unwrap());
                let hint = if kind == "read_seq" { ReadHint::Sequential } else { ReadHint::Random };
                let mut rd = self.readers[r].take().unwrap();
                let got = {
                    let res = rd.read_record(real, hint);
                    self.classify(res, real)
                };
                self.readers[r] = Some(rd);
                self.check_read(op, got)
            }
            "iter" => {
                let r = op["r"].as_u64().unwrap() as usize - 1;
                let real = self.real_of(op["o"].as_u64().unwrap());
                let want: Vec<(u64, u64)> = op["ids"].as_array().unwrap().iter().zip(op["hvs"].as_array().unwrap())
                    .map(|(a, b)| (a.as_u64().unwrap(), b.as_u64().unwrap())).collect();
                let mut rd = self.readers[r].take().unwrap();
                let mut got = vec![];
                let mut err = None;
                {
                    let mut pos = real;
                    let mut it = rd.iter(real);
                    loop {
                        match it.next_record() {
                            Ok(Some(rec)) => {
                                let len = rec.len as u64;
                                match self.classify(Ok(rec), pos) {
                                    Got::Ok { id, hv, .. } => got.push((id, hv)),
                                    other => {
                                        err = Some(format!("iteration yielded {other:?} at {pos}"));
                                        break;
                                    }
                                }
                                pos += len;
                            }
                            Ok(None) => break,
                            Err(e) => {
                                // starting inside a record (not a boundary) reads garbage; reporting it
                                // as corruption is as good as ending the iteration
                                let misaligned = !self.bounds.contains(&op["o"].as_u64().unwrap());
                                if !(misaligned && got.is_empty()) {
                                    err = Some(format!("iteration failed at {pos}: {e}"));
                                }
                                break;
                            }
                        }
                    }
                }
                self.readers[r] = Some(rd);
                if let Some(e) = err {
                    return Err(e);
                }
                if got != want { Err(format!("iteration from {real} yielded (id,hv) {got:?}, spec {want:?}")) } else { Ok(()) }
            }
            "replace" => {
                let r = op["r"].as_u64().unwrap() as usize - 1;
                let o = op["o"].as_u64().unwrap();
                let real = self.real_of(o);
                let want_ok = op["ok"].as_bool().unwrap();
                let (id, hv) = if want_ok { (op["id"].as_u64().unwrap(), op["hv"].as_u64().unwrap()) } else { (998, 1) };
                let res = self.readers[r].as_mut().unwrap().replace_header(real, header_for::<H>(id, hv));
                match (want_ok, res) {
                    (true, Ok(())) => {
                        self.recs.get_mut(&o).unwrap().hv = hv;
                        Ok(())
                    }
                    (false, Err(_)) => Ok(()),
                    (w, r) => Err(format!("replace_header at {real}: spec ok={w}, real {r:?}")),
                }
            }
            other => panic!("unknown op {other}"),
        }
    }
}

fn run_plan<const H: usize>(dir: &Path, layout: Layout, plan: &[Value]) -> Option<(usize, String)> {
    let mut w = World::<H>::new(dir, layout);
    for (k, op) in plan.iter().enumerate() {
        let res = catch(std::panic::AssertUnwindSafe(|| w.step(op)));
        match res {
            Ok(Ok(())) => {}
            Ok(Err(e)) => return Some((k, e)),
            Err(p) => return Some((k, format!("panic: {p}"))),
        }
    }
    None
}

fn key_for(op: &Value, msg: &str) -> String {
    let kind = op["op"].as_str().unwrap();
    let what = if msg.starts_with("panic") {
        "panic"
    } else if msg.contains("Foreign") || msg.contains("spec prescribes {\"st\":\"none\"}") {
        "stale-or-unflushed-data"
    } else {
        "mismatch"
    };
    format!("c18:{kind}:{what}")
}

fn replay(rep: &mut Report, plans: &str) {
    let plans = read_ndjson(plans);
    let dir = scratch("replay");
    let quick = hcommon::tier_quick();
    let mut steps = 0u64;
    let mut ops: BTreeMap<String, u64> = BTreeMap::new();
    let mut reported = std::collections::BTreeSet::new();
    for (pi, plan) in plans.iter().enumerate() {
        let plan = plan.as_array().unwrap();
        // quick: rotate layouts over the plans; thorough: every plan under every layout
        let lays: Vec<(usize, &Layout)> = LAYOUTS.iter().enumerate().filter(|(li, _)| !quick || pi % LAYOUTS.len() == *li).collect();
        for (li, lay) in lays {
            let h8 = (pi + li) % 2 == 1;
            let bad = if h8 { run_plan::<8>(&dir, *lay, plan) } else { run_plan::<1>(&dir, *lay, plan) };
            rep.eval(1);
            steps += plan.len() as u64;
            if let Some((k, msg)) = bad {
                let key = key_for(&plan[k], &msg);
                if reported.insert((key.clone(), lay.name)) || rep.violations < 5 {
                    rep.violation(
                        &key,
                        json!({"step": k, "op": plan[k], "problem": msg, "layout": lay.name, "H": if h8 { 8 } else { 1 }}),
                        json!({"layout": lay.name, "H": if h8 { 8 } else { 1 }, "behaviour": plan}),
                    );
                } else {
                    rep.violations += 1;
                }
            }
        }
        for op in plan {
            *ops.entry(op["op"].as_str().unwrap().to_string()).or_default() += 1;
        }
        if pi < 2 {
            rep.sample(json!(plan.iter().map(|o| {
                let mut s = o["op"].as_str().unwrap().to_string();
                if let Some(x) = o.get("o") { s += &format!("@{x}"); }
                s
            }).collect::<Vec<_>>()));
        }
    }
    let _ = std::fs::remove_dir_all(&dir);
    rep.set("behaviours", json!(plans.len()));
    rep.set("steps_replayed", json!(steps));
    rep.set("ops", json!(ops));
    rep.set("layouts", json!(LAYOUTS.iter().map(|l| l.name).collect::<Vec<_>>()));
    for k in ops.keys() {
        rep.class(k.clone());
    }
}
