//! C17: spec-driven fault enumeration.  Each row of SegFault.tla's table is a class
//! (header size, data-length class, compression, fault kind, region); the class is expanded
//! here to every concrete bit / byte position it stands for.  For each corrupted image all
//! read paths are run at the victim's offset; the outcome the specification requires is
//! "detected": no path may return a record.
use std::os::unix::fs::FileExt;
use std::path::Path;
use std::sync::Mutex;
use std::sync::atomic::{AtomicU64, Ordering};

use hcommon::{Report, catch, read_ndjson};
use rand::{RngExt, SeedableRng};
use rayon::prelude::*;
use serde_json::{Value, json};

use seglog::parse::parse_record;
use seglog::read::{ReadHint, Reader};
use seglog::write::Writer;

use crate::{data_for, header_for};

const START: u64 = 64;

fn data_len(class: &str, h: usize) -> usize {
    match class {
        "empty" => 0,
        "one" => 1,
        "below-compress" => 127,
        "at-compress" => 128,
        "above-compress" => 129,
        "optimistic-1" => 2047 - h,
        "optimistic" => 2048 - h,
        "optimistic+1" => 2049 - h,
        "fallback-1" => 4095 - h,
        "fallback" => 4096 - h,
        "fallback+1" => 4097 - h,
        "beyond-readahead" => 70_000,
        other => panic!("unknown length class {other}"),
    }
}

struct Image {
    bytes: Vec<u8>, // whole file
    vo: usize,      // victim offset
    vlen: usize,    // victim stored length
    size: usize,
}

fn build<const H: usize>(path: &Path, dlen: usize, comp: bool) -> Image {
    let _ = std::fs::remove_file(path);
    let prev = data_for(1, 33, false);
    let victim = data_for(2, dlen, comp);
    let next = data_for(3, 21, false);
    let size = (START as usize + 3 * (8 + H) + prev.len() + victim.len() + next.len() + 4096 + 1024) & !4095;
    let mut w = Writer::<H>::create(path, size, START).unwrap();
    w.append(&header_for::<H>(1, 1), &prev).unwrap();
    if comp {
        w.enable_compression();
    }
    let (vo, vlen) = w.append(&header_for::<H>(2, 1), &victim).unwrap();
    w.disable_compression();
    w.append(&header_for::<H>(3, 1), &next).unwrap();
    w.sync().unwrap();
    drop(w);
    let bytes = std::fs::read(path).unwrap();
    Image { bytes, vo: vo as usize, vlen, size }
}

/// Runs every read path on the (already corrupted) file; returns the name of the first path
/// that accepted the victim, or panicked.
fn accepts<const H: usize>(path: &Path, img: &Image, corrupted: &[u8]) -> Option<String> {
    let vo = img.vo as u64;
    let size = img.size;
    let r = catch(std::panic::AssertUnwindSafe(|| -> Option<String> {
        let mut rd = Reader::<H>::open(path, None).unwrap();
        if rd.read_record(vo, ReadHint::Random).is_ok() {
            return Some("random read returned a record".into());
        }
        let mut rs = Reader::<H>::open(path, None).unwrap();
        if rs.read_record(vo, ReadHint::Sequential).is_ok() {
            return Some("sequential read returned a record".into());
        }
        let mut ri = Reader::<H>::open(path, None).unwrap();
        let mut it = ri.iter(START);
        let mut n = 0;
        loop {
            match it.next_record() {
                Ok(Some(rec)) => {
                    if rec.offset >= vo {
                        return Some(format!("iteration yielded a record at offset {}", rec.offset));
                    }
                    n += 1;
                }
                Ok(None) | Err(_) => break,
            }
        }
        if n != 1 {
            return Some(format!("iteration yielded {n} records before the victim, expected 1"));
        }
        if parse_record::<H>(corrupted, vo as usize).is_ok() {
            return Some("parse_record returned a record".into());
        }
        match Writer::<H>::open(path, size, START) {
            Ok(w) if w.write_offset() == vo => None,
            Ok(w) => Some(format!("reopened writer resumes at {}, last intact record ends at {vo}", w.write_offset())),
            Err(e) => Some(format!("reopening the writer failed: {e}")),
        }
    }));
    match r {
        Ok(x) => x,
        Err(p) => Some(format!("panic: {p}")),
    }
}

struct Case {
    /// (file position, new bytes) patches; everything else as in the original image
    pos: usize,
    bytes: Vec<u8>,
    desc: String,
    cut: Option<usize>, // Some(t): additionally shorten the file to t bytes
}

fn region_range(region: &str, h: usize, vlen: usize) -> (usize, usize) {
    match region {
        "len" => (0, 4),
        "crc" => (4, 8),
        "hdr" => (8, 8 + h),
        "data" => (8 + h, vlen),
        _ => unreachable!(),
    }
}

fn positions(lo: usize, hi: usize, dense_edge: usize, stride: usize) -> Vec<usize> {
    if hi - lo <= 2 * dense_edge + stride {
        return (lo..hi).collect();
    }
    let mut v: Vec<usize> = (lo..lo + dense_edge).collect();
    v.extend((lo + dense_edge..hi - dense_edge).step_by(stride));
    v.extend(hi - dense_edge..hi);
    v
}

fn cases(row: &Value, img: &Image, h: usize, quick: bool, rng: &mut rand::rngs::StdRng) -> Vec<Case> {
    let kind = row["kind"].as_str().unwrap();
    let region = row["region"].as_str().unwrap();
    let (lo, hi) = region_range(region, h, img.vlen);
    let mut out = vec![];
    let stride = if quick { 211 } else { 13 };
    let bytes_pos = positions(lo, hi, 48, stride);
    match kind {
        "flip" => {
            for &b in &bytes_pos {
                for bit in 0..8 {
                    let p = img.vo + b;
                    out.push(Case { pos: p, bytes: vec![img.bytes[p] ^ (1 << bit)], desc: format!("flip byte {b} bit {bit}"), cut: None });
                }
            }
        }
        "burst" => {
            // bursts of 2..=32 bits starting at every covered bit: a burst is a bit pattern whose
            // first and last bit are flipped
            let start_bytes = if quick { positions(lo, hi, 6, 977) } else { positions(lo, hi, 24, 97) };
            for &b in &start_bytes {
                for bit in 0..8u32 {
                    let mut pats: Vec<(u32, u64)> = vec![];
                    for len in 2..=(if quick { 6 } else { 8 }) {
                        for inner in 0..(1u64 << (len - 2)) {
                            pats.push((len, 1 | (inner << 1) | (1 << (len - 1))));
                        }
                    }
                    for len in [9u32, 16, 17, 24, 31, 32] {
                        for _ in 0..(if quick { 1 } else { 3 }) {
                            let inner: u64 = rng.random::<u64>() & ((1u64 << (len - 2)) - 1);
                            pats.push((len, 1 | (inner << 1) | (1 << (len - 1))));
                        }
                    }
                    for (len, pat) in pats {
                        // apply pattern starting at bit (b*8 + bit), LSB-first within bytes
                        let first = img.vo + b;
                        let nbytes = ((bit + len + 7) / 8) as usize;
                        if first + nbytes > img.bytes.len() {
                            continue;
                        }
                        let mut nb = img.bytes[first..first + nbytes].to_vec();
                        for k in 0..len {
                            if pat >> k & 1 == 1 {
                                let pos = bit + k;
                                nb[(pos / 8) as usize] ^= 1 << (pos % 8);
                            }
                        }
                        out.push(Case { pos: first, bytes: nb, desc: format!("burst len {len} pattern {pat:#x} at byte {b} bit {bit}"), cut: None });
                    }
                }
            }
        }
        "truncate" => {
            for &b in &bytes_pos {
                let t = img.vo + b;
                // crash image: zeros from t to the end of everything that was written
                let end = img.bytes.iter().rposition(|&x| x != 0).map(|x| x + 1).unwrap_or(t).max(t);
                out.push(Case { pos: t, bytes: vec![0; end - t], desc: format!("zero-filled from byte {b}"), cut: None });
                out.push(Case { pos: t, bytes: vec![], desc: format!("file cut at byte {b}"), cut: Some(t) });
            }
        }
        _ => unreachable!(),
    }
    out
}

fn run_row<const H: usize>(row: &Value, dir: &Path, idx: usize, quick: bool, evals: &AtomicU64, bad: &Mutex<Vec<Value>>) {
    let path = dir.join(format!("f{idx}.log"));
    let comp = row["comp"].as_bool().unwrap();
    let dlen = data_len(row["len"].as_str().unwrap(), H);
    let img = build::<H>(&path, dlen, comp);
    let mut rng = rand::rngs::StdRng::seed_from_u64(hcommon::seed() ^ idx as u64);
    let file = std::fs::OpenOptions::new().read(true).write(true).open(&path).unwrap();
    // sanity: the untouched image is read back identically by every path
    // (round trip; a panic or a wrong answer of the code under test is data, not a harness failure)
    {
        let sane = catch(std::panic::AssertUnwindSafe(|| -> Option<String> {
            let mut rd = match Reader::<H>::open(&path, None) {
                Ok(r) => r,
                Err(e) => return Some(format!("opening the intact segment failed: {e}")),
            };
            for hint in [ReadHint::Random, ReadHint::Sequential] {
                match rd.read_record(img.vo as u64, hint) {
                    Ok(rec) => {
                        if rec.data.as_ref() != data_for(2, dlen, comp).as_slice() {
                            return Some(format!("intact record read back with different data ({hint:?})"));
                        }
                    }
                    Err(e) => return Some(format!("intact record not readable ({hint:?}): {e}")),
                }
            }
            None
        }));
        let problem = match sane {
            Ok(None) => None,
            Ok(Some(p)) => Some(p),
            Err(p) => Some(format!("panic: {p} ({})", hcommon::last_panic())),
        };
        if let Some(p) = problem {
            bad.lock().unwrap().push(json!({"class": row, "H": H, "data_len": dlen, "victim_offset": img.vo,
                "victim_len": img.vlen, "fault": "none (round trip of the intact record)", "problem": p}));
            let _ = std::fs::remove_file(&path);
            return;
        }
    }
    let cs = cases(row, &img, H, quick, &mut rng);
    let mut local_bad = 0;
    for c in cs {
        let mut corrupted = img.bytes.clone();
        corrupted[c.pos..c.pos + c.bytes.len()].copy_from_slice(&c.bytes);
        if let Some(t) = c.cut {
            corrupted.truncate(t);
        }
        if corrupted == img.bytes {
            continue; // not a corruption (e.g. zero-filling bytes that were zero)
        }
        if !c.bytes.is_empty() {
            file.write_all_at(&c.bytes, c.pos as u64).unwrap();
        }
        if let Some(t) = c.cut {
            file.set_len(t as u64).unwrap();
        }
        evals.fetch_add(1, Ordering::Relaxed);
        let verdict = accepts::<H>(&path, &img, &corrupted);
        // restore
        if c.cut.is_some() {
            file.set_len(img.size as u64).unwrap();
            file.write_all_at(&img.bytes[c.pos.min(img.bytes.len())..], c.pos.min(img.bytes.len()) as u64).unwrap();
        } else {
            file.write_all_at(&img.bytes[c.pos..c.pos + c.bytes.len()], c.pos as u64).unwrap();
        }
        if let Some(v) = verdict {
            local_bad += 1;
            if local_bad <= 2 {
                bad.lock().unwrap().push(json!({"class": row, "H": H, "data_len": dlen, "victim_offset": img.vo,
                    "victim_len": img.vlen, "fault": c.desc, "problem": v}));
            }
        }
    }
    let _ = std::fs::remove_file(&path);
}

pub fn run(rep: &mut Report, table: &str) {
    let rows = read_ndjson(table);
    let quick = hcommon::tier_quick();
    let dir = crate::scratch("faults");
    let evals = AtomicU64::new(0);
    let bad = Mutex::new(Vec::new());
    rows.par_iter().enumerate().for_each(|(i, row)| {
        assert_eq!(row["outcome"], "detected");
        match row["h"].as_u64().unwrap() {
            0 => run_row::<0>(row, &dir, i, quick, &evals, &bad),
            1 => run_row::<1>(row, &dir, i, quick, &evals, &bad),
            8 => run_row::<8>(row, &dir, i, quick, &evals, &bad),
            16 => run_row::<16>(row, &dir, i, quick, &evals, &bad),
            h => panic!("unsupported header size {h}"),
        }
    });
    let _ = std::fs::remove_dir_all(&dir);
    rep.eval(evals.into_inner());
    let mut seen = std::collections::BTreeSet::new();
    for b in bad.into_inner().unwrap() {
        let problem = b["problem"].as_str().unwrap();
        let what = if b["fault"].as_str().unwrap_or("").starts_with("none") {
            "roundtrip"
        } else if problem.starts_with("panic") {
            "panic"
        } else if problem.contains("resumes") || problem.contains("reopening") {
            "reopen"
        } else {
            "accepted-corrupted-record"
        };
        let key = format!("c17:{what}:{}:{}", b["class"]["kind"].as_str().unwrap(), b["class"]["region"].as_str().unwrap());
        if seen.insert(key.clone()) {
            rep.violation(&key, b.clone(), b);
        } else {
            rep.violations += 1;
        }
    }
    for r in &rows {
        rep.class(format!("{}", json!([r["h"], r["len"], r["comp"], r["kind"], r["region"]])));
    }
    rep.set("classes", json!(rows.len()));
    rep.sample(rows[0].clone());
    rep.sample(rows[rows.len() / 2].clone());
}
