//! C22: histories generated from Api.tla (one command and its prescribed reply per step) are sent
//! over a real TCP connection to a real single-node server (Database + ClusterActor + Server);
//! every reply and every pushed subscription message is compared with the model.
use std::collections::{BTreeMap, HashMap, HashSet};
use std::path::{Path, PathBuf};
use std::sync::Arc;
use std::time::Duration;

use bytes::BytesMut;
use hcommon::Report;
use kameo::actor::{ActorRef, Spawn};
use libp2p::identity::Keypair;
use redis_protocol::resp3::decode::complete::decode_bytes_mut;
use redis_protocol::resp3::types::BytesFrame;
use serde_json::{Value, json};
use sierradb::database::{Database, DatabaseBuilder};
use sierradb::id::{NAMESPACE_PARTITION_KEY, uuid_to_partition_hash, uuid_v7_with_partition_hash};
use sierradb_cluster::{ClusterActor, ClusterArgs, ResetCluster};
use sierradb_server::server::Server;
use tokio::io::{AsyncReadExt, AsyncWriteExt};
use tokio::net::TcpStream;
use tokio::sync::mpsc;
use tokio_util::sync::CancellationToken;
use uuid::Uuid;

const U64MAX: &str = "18446744073709551615";
const REPLY_TIMEOUT: Duration = Duration::from_secs(20);

#[derive(Clone, Copy)]
pub struct Variant {
    pub name: &'static str,
    pub segment: usize,
    pub big_payload: usize,
    pub compression: bool,
}
pub const VARIANTS: [Variant; 3] = [
    Variant { name: "plain", segment: 1024 * 1024, big_payload: 0, compression: false },
    Variant { name: "rollover", segment: 128 * 1024, big_payload: 20000, compression: false },
    Variant { name: "compressed", segment: 128 * 1024, big_payload: 30000, compression: true },
];

fn open_db(dir: &Path, nb: u16, v: &Variant) -> Database {
    let mut b = DatabaseBuilder::new();
    b.segment_size_bytes(v.segment)
        .compression(v.compression)
        .total_buckets(nb)
        .bucket_ids(Arc::from((0..nb).collect::<Vec<_>>()))
        .writer_threads(2)
        .reader_threads(2)
        .sync_interval(Duration::from_millis(2))
        .min_sync_bytes(1)
        .max_batch_size(8);
    b.open(dir).expect("open database")
}

fn fresh_dir(root: &Path, name: &str) -> PathBuf {
    let d = root.join(name);
    let _ = std::fs::remove_dir_all(&d);
    std::fs::create_dir_all(&d).unwrap();
    d
}

pub struct Node {
    pub cluster: ActorRef<ClusterActor>,
    pub port_lax: u16,
    pub port_strict: u16,
    pub npart: u16,
    pub nb: u16,
}

fn free_port() -> u16 {
    let l = std::net::TcpListener::bind("127.0.0.1:0").unwrap();
    l.local_addr().unwrap().port()
}

pub async fn start_node(root: &Path, npart: u16, nb: u16) -> Node {
    let db = open_db(&fresh_dir(root, "boot"), nb, &VARIANTS[0]);
    let caches = db.reader_pool().caches().clone();
    let cluster = ClusterActor::spawn(ClusterArgs {
        keypair: Keypair::generate_ed25519(),
        database: db,
        listen_addrs: vec![],
        node_count: 1,
        node_index: 0,
        bucket_count: nb,
        partition_count: npart,
        replication_factor: 1,
        assigned_partitions: HashSet::from_iter(0..npart),
        heartbeat_timeout: Duration::from_millis(1_000),
        heartbeat_interval: Duration::from_millis(6_000),
        replication_buffer_size: 100,
        replication_buffer_timeout: Duration::from_millis(8_000),
        replication_catchup_timeout: Duration::from_millis(2_000),
        mdns: false,
    });
    cluster.wait_for_startup().await;
    let mut ports = [0u16; 2];
    for (i, strict) in [false, true].into_iter().enumerate() {
        let port = free_port();
        ports[i] = port;
        let server = Server::new(cluster.clone(), caches.clone(), npart, 64 * 1024 * 1024, strict, CancellationToken::new());
        tokio::spawn(async move {
            let _ = server.listen(("127.0.0.1", port)).await;
        });
    }
    // wait until both endpoints accept
    for p in ports {
        for _ in 0..200 {
            if TcpStream::connect(("127.0.0.1", p)).await.is_ok() {
                break;
            }
            tokio::time::sleep(Duration::from_millis(25)).await;
        }
    }
    Node { cluster, port_lax: ports[0], port_strict: ports[1], npart, nb }
}

// ---------------------------------------------------------------------------------- RESP client
pub enum Arg {
    Blob(Vec<u8>),
    Raw(Vec<u8>),
}
fn blob(s: impl AsRef<[u8]>) -> Arg {
    Arg::Blob(s.as_ref().to_vec())
}
fn encode(args: &[Arg]) -> Vec<u8> {
    let mut out = format!("*{}\r\n", args.len()).into_bytes();
    for a in args {
        match a {
            Arg::Blob(b) => {
                out.extend_from_slice(format!("${}\r\n", b.len()).as_bytes());
                out.extend_from_slice(b);
                out.extend_from_slice(b"\r\n");
            }
            Arg::Raw(r) => out.extend_from_slice(r),
        }
    }
    out
}
fn cmd(words: &[&str]) -> Vec<u8> {
    encode(&words.iter().map(blob).collect::<Vec<_>>())
}

pub enum Incoming {
    Reply(BytesFrame),
    Push(Vec<BytesFrame>),
    Closed(String),
}

pub struct Client {
    wr: tokio::net::tcp::OwnedWriteHalf,
    replies: mpsc::UnboundedReceiver<Incoming>,
    pushes: mpsc::UnboundedReceiver<Vec<BytesFrame>>,
}

impl Client {
    pub async fn connect(port: u16) -> Client {
        let s = TcpStream::connect(("127.0.0.1", port)).await.expect("connect to the server");
        s.set_nodelay(true).unwrap();
        let (mut rd, wr) = s.into_split();
        let (rtx, replies) = mpsc::unbounded_channel();
        let (ptx, pushes) = mpsc::unbounded_channel();
        tokio::spawn(async move {
            let mut buf = BytesMut::new();
            loop {
                loop {
                    match decode_bytes_mut(&mut buf) {
                        Ok(Some((BytesFrame::Push { data, .. }, _, _))) => {
                            let _ = ptx.send(data);
                        }
                        Ok(Some((f, _, _))) => {
                            let _ = rtx.send(Incoming::Reply(f));
                        }
                        Ok(None) => break,
                        Err(e) => {
                            let _ = rtx.send(Incoming::Closed(format!("undecodable reply: {e}")));
                            return;
                        }
                    }
                }
                match rd.read_buf(&mut buf).await {
                    Ok(0) => {
                        let _ = rtx.send(Incoming::Closed("connection closed by the server".into()));
                        return;
                    }
                    Ok(_) => {}
                    Err(e) => {
                        let _ = rtx.send(Incoming::Closed(format!("read error: {e}")));
                        return;
                    }
                }
            }
        });
        Client { wr, replies, pushes }
    }

    pub async fn call(&mut self, bytes: &[u8]) -> Result<BytesFrame, String> {
        if let Err(e) = self.wr.write_all(bytes).await {
            return Err(format!("write failed: {e}"));
        }
        match tokio::time::timeout(REPLY_TIMEOUT, self.replies.recv()).await {
            Ok(Some(Incoming::Reply(f))) => {
                if std::env::var("VERIF_TRACE").is_ok() {
                    eprintln!("   {:?} -> {}", String::from_utf8_lossy(bytes).replace("\r\n", " "), show(&f));
                }
                Ok(f)
            }
            Ok(Some(Incoming::Closed(e))) => Err(e),
            Ok(Some(Incoming::Push(_))) => unreachable!(),
            Ok(None) => Err("connection closed".into()),
            Err(_) => Err(format!("no reply within {} s", REPLY_TIMEOUT.as_secs())),
        }
    }
}

// ---------------------------------------------------------------------------------- frames -> values
fn text(f: &BytesFrame) -> Option<String> {
    match f {
        BytesFrame::SimpleString { data, .. } | BytesFrame::BlobString { data, .. } => Some(String::from_utf8_lossy(data).to_string()),
        BytesFrame::VerbatimString { data, .. } => Some(String::from_utf8_lossy(data).to_string()),
        _ => None,
    }
}
fn num(f: &BytesFrame) -> Option<i64> {
    match f {
        BytesFrame::Number { data, .. } => Some(*data),
        _ => None,
    }
}
fn is_error(f: &BytesFrame) -> Option<String> {
    match f {
        BytesFrame::SimpleError { data, .. } => Some(data.to_string()),
        BytesFrame::BlobError { data, .. } => Some(String::from_utf8_lossy(data).to_string()),
        _ => None,
    }
}
fn field<'a>(f: &'a BytesFrame, name: &str) -> Option<&'a BytesFrame> {
    match f {
        BytesFrame::Map { data, .. } => data.iter().find(|(k, _)| text(k).as_deref() == Some(name)).map(|(_, v)| v),
        _ => None,
    }
}
fn show(f: &BytesFrame) -> String {
    let s = format!("{f:?}");
    if s.len() > 700 { format!("{}...", &s[..700]) } else { s }
}

// ---------------------------------------------------------------------------------- the world of one history
#[derive(Clone, Debug)]
struct Stored {
    id: Uuid,
    key: Uuid,
    p: u16,
    seq: u64,
    stream: String,
    ver: u64,
    name: String,
    payload: Vec<u8>,
    metadata: Vec<u8>,
    ts_ms: Option<u64>,
    tx: u64,
}

struct World {
    npart: u16,
    umax: i64,
    keys: HashMap<String, Uuid>,
    streams: HashMap<String, String>,
    log: Vec<Vec<Stored>>,           // per partition, by sequence
    by_tx: HashMap<u64, Vec<Stored>>, // accepted transactions
    attempted_ids: HashMap<(u64, u64), Uuid>, // (tx, i) -> event id sent or generated (also of rejected transactions)
    subs: Vec<SubState>,
    big_payload: usize,
}

struct SubState {
    id: Uuid,
    conn: u64,
    open: bool,
    wrong_conn: Option<u64>,          // a message for this subscription arrived on another connection
    received: Vec<(i64, BytesFrame)>, // cursor, event
}

fn key_for_partition(p: u16, npart: u16, salt: u128) -> Uuid {
    let mut x = salt.wrapping_mul(0x9E37_79B9_7F4A_7C15_1234_5678_9ABC_DEF1) | 1;
    loop {
        let k = Uuid::from_u128(x);
        if uuid_to_partition_hash(k) % npart == p {
            return k;
        }
        x = x.wrapping_mul(6364136223846793005).wrapping_add(1442695040888963407);
    }
}

impl World {
    fn new(h: &Value, salt: u64, v: &Variant) -> World {
        let npart = h["npart"].as_u64().unwrap() as u16;
        let keypart: BTreeMap<String, u16> = h["keypart"].as_object().unwrap().iter().map(|(k, v)| (k.clone(), v.as_u64().unwrap() as u16)).collect();
        let defkey: BTreeMap<String, String> = h["defkey"].as_object().unwrap().iter().map(|(k, v)| (k.clone(), v.as_str().unwrap().to_string())).collect();
        let mut keys = HashMap::new();
        let defkeys: HashSet<&String> = defkey.values().collect();
        for (i, (k, p)) in keypart.iter().enumerate() {
            if !defkeys.contains(k) {
                keys.insert(k.clone(), key_for_partition(*p, npart, (salt as u128) * 1000 + i as u128 + 1));
            }
        }
        // stream names whose derived key falls into the partition the model gives the stream's default key
        let mut streams = HashMap::new();
        for (s, dk) in &defkey {
            let want = keypart[dk];
            let mut n = salt * 1000;
            loop {
                let name = format!("{s}-{n}");
                let key = Uuid::new_v5(&NAMESPACE_PARTITION_KEY, name.as_bytes());
                if uuid_to_partition_hash(key) % npart == want {
                    keys.insert(dk.clone(), key);
                    streams.insert(s.clone(), name);
                    break;
                }
                n += 1;
            }
        }
        World {
            npart,
            umax: h["umax"].as_i64().unwrap(),
            keys,
            streams,
            log: vec![vec![]; npart as usize],
            by_tx: HashMap::new(),
            attempted_ids: HashMap::new(),
            subs: vec![],
            big_payload: v.big_payload,
        }
    }
    fn n(&self, v: &Value) -> String {
        // the model's UMax stands for the largest 64-bit number
        let x = v.as_i64().unwrap();
        if x == self.umax { U64MAX.to_string() } else { x.to_string() }
    }
    fn expectation(&self, x: &Value) -> Option<String> {
        match x["k"].as_str().unwrap() {
            "any" => None,
            "exists" => Some("exists".into()),
            "empty" => Some("empty".into()),
            _ => Some(self.n(&x["v"])),
        }
    }
}

fn ts_ms(class: &str, tx: u64) -> Option<u64> {
    match class {
        "none" => None,
        "ok" => Some(1_700_000_000_000 + tx),
        "zero" => Some(0),
        "maxok" => Some(9_223_372_036_854),          // * 10^6 < 2^63
        "enc" => Some(if tx % 2 == 0 { 9_223_372_036_855 } else { 18_446_744_073_709 }), // * 10^6 in [2^63, 2^64)
        "ovf" => Some(if tx % 2 == 0 { 18_446_744_073_710 } else { u64::MAX }),          // * 10^6 overflows
        other => panic!("timestamp class {other}"),
    }
}

struct EvSpec {
    stream: String,
    name: String,
    id: Uuid,
    send_id: bool,
    x: Option<String>,
    any_explicit: bool,
    ts: Option<u64>,
    payload: Vec<u8>,
    metadata: Vec<u8>,
}

fn ev_words(e: &EvSpec, with_key: Option<Uuid>, lower: bool) -> Vec<Arg> {
    let kw = |s: &str| if lower { blob(s.to_lowercase()) } else { blob(s) };
    let mut w = vec![blob(&e.stream), blob(&e.name)];
    // clause order varies with the event
    let mut clauses: Vec<Vec<Arg>> = vec![];
    if e.send_id {
        clauses.push(vec![kw("EVENT_ID"), blob(e.id.to_string())]);
    }
    if let Some(k) = with_key {
        clauses.push(vec![kw("PARTITION_KEY"), blob(k.to_string())]);
    }
    if let Some(x) = &e.x {
        clauses.push(vec![kw("EXPECTED_VERSION"), blob(x)]);
    } else if e.any_explicit {
        clauses.push(vec![kw("EXPECTED_VERSION"), blob("any")]);
    }
    if let Some(t) = e.ts {
        clauses.push(vec![kw("TIMESTAMP"), blob(t.to_string())]);
    }
    if !e.payload.is_empty() {
        clauses.push(vec![kw("PAYLOAD"), blob(&e.payload)]);
    }
    if !e.metadata.is_empty() {
        clauses.push(vec![kw("METADATA"), blob(&e.metadata)]);
    }
    let rot = (e.id.as_u128() % 7) as usize % clauses.len().max(1);
    clauses.rotate_left(rot);
    for c in clauses {
        w.extend(c);
    }
    w
}

fn invalid_bytes(name: &str, w: &World) -> Vec<u8> {
    let s = w.streams.values().next().unwrap().as_str();
    let k = w.keys.values().next().unwrap().to_string();
    let other_part_id = {
        // an event id that embeds the hash of another partition than the key's
        let kp = uuid_to_partition_hash(Uuid::parse_str(&k).unwrap());
        uuid_v7_with_partition_hash(kp.wrapping_add(1)).to_string()
    };
    let u = Uuid::from_u128(0xdead_beef_0000_0000_0000_0000_0000_0001).to_string();
    match name {
        "unknown_command" => cmd(&["EFOO", "x"]),
        "lowercase_unknown" => cmd(&["efoo"]),
        "empty_array" => b"*0\r\n".to_vec(),
        "not_an_array" => b"+EGET\r\n".to_vec(),
        "number_as_command" => b"*1\r\n:5\r\n".to_vec(),
        "nested_array_arg" => encode(&[blob("EGET"), Arg::Raw(b"*1\r\n$1\r\nx\r\n".to_vec())]),
        "null_arg" => encode(&[blob("EGET"), Arg::Raw(b"_\r\n".to_vec())]),
        "eappend_no_name" => cmd(&["EAPPEND", s]),
        "eappend_bad_event_id" => cmd(&["EAPPEND", s, "E", "EVENT_ID", "not-a-uuid"]),
        "eappend_bad_partition_key" => cmd(&["EAPPEND", s, "E", "PARTITION_KEY", "xyz"]),
        "eappend_dup_payload" => cmd(&["EAPPEND", s, "E", "PAYLOAD", "a", "PAYLOAD", "b"]),
        "eappend_bad_expected" => cmd(&["EAPPEND", s, "E", "EXPECTED_VERSION", "-5"]),
        "eappend_ts_not_number" => cmd(&["EAPPEND", s, "E", "TIMESTAMP", "abc"]),
        "eappend_clause_without_value" => cmd(&["EAPPEND", s, "E", "PAYLOAD"]),
        "eappend_stream_id_empty" => cmd(&["EAPPEND", "", "E"]),
        "eappend_stream_id_too_long" => cmd(&["EAPPEND", &"x".repeat(300), "E"]),
        "eappend_event_id_of_other_partition" => cmd(&["EAPPEND", s, "E", "PARTITION_KEY", &k, "EVENT_ID", &other_part_id, "EXPECTED_VERSION", "any"]),
        "emappend_event_id_of_other_partition" => cmd(&["EMAPPEND", &k, s, "E", "EVENT_ID", &other_part_id]),
        "emappend_no_events" => cmd(&["EMAPPEND", &k]),
        "emappend_bad_key" => cmd(&["EMAPPEND", "nokey", s, "E"]),
        "emappend_event_without_name" => cmd(&["EMAPPEND", &k, s]),
        "emappend_dup_clause" => cmd(&["EMAPPEND", &k, s, "E", "TIMESTAMP", "1", "TIMESTAMP", "2"]),
        "eget_bad_uuid" => cmd(&["EGET", "12345"]),
        "eget_no_arg" => cmd(&["EGET"]),
        "eget_two_args" => cmd(&["EGET", &u, &u]),
        "escan_missing_end" => cmd(&["ESCAN", s, "0"]),
        "escan_bad_count" => cmd(&["ESCAN", s, "0", "+", "COUNT", "x"]),
        "escan_negative_start" => cmd(&["ESCAN", s, "-1", "+"]),
        "epscan_partition_out_of_range" => cmd(&["EPSCAN", "70000", "0", "+"]),
        "epscan_missing_range" => cmd(&["EPSCAN", "0"]),
        "epscan_count_not_number" => cmd(&["EPSCAN", "0", "0", "+", "COUNT", "many"]),
        "esver_extra_arg" => cmd(&["ESVER", s, "extra"]),
        "epseq_bad_selector" => cmd(&["EPSEQ", "abc"]),
        "eack_unknown_subscription" => cmd(&["EACK", &u, "0"]),
        "eack_bad_cursor" => cmd(&["EACK", &u, "x"]),
        "eack_no_args" => cmd(&["EACK"]),
        "esub_window_zero" => cmd(&["ESUB", s, "WINDOW", "0"]),
        "epsub_bad_map" => cmd(&["EPSUB", "*", "FROM", "MAP", "1=x"]),
        "hello_bad_version" => cmd(&["HELLO", "99"]),
        "ping_extra_args" => cmd(&["PING", "a", "b", "c"]),
        other => panic!("no bytes for invalid request {other}"),
    }
}

/// compares an encoded event (map frame) with the stored event
fn check_event(f: &BytesFrame, want: &Stored, tx_ids: &mut HashMap<u64, String>) -> Result<(), String> {
    let t = |n: &str| field(f, n).and_then(text);
    let i = |n: &str| field(f, n).and_then(num);
    let mut bad = vec![];
    if t("event_id") != Some(want.id.to_string()) {
        bad.push(format!("event_id {:?} != {}", t("event_id"), want.id));
    }
    if t("partition_key") != Some(want.key.to_string()) {
        bad.push(format!("partition_key {:?} != {}", t("partition_key"), want.key));
    }
    if i("partition_id") != Some(want.p as i64) {
        bad.push(format!("partition_id {:?} != {}", i("partition_id"), want.p));
    }
    if i("partition_sequence") != Some(want.seq as i64) {
        bad.push(format!("partition_sequence {:?} != {}", i("partition_sequence"), want.seq));
    }
    if i("stream_version") != Some(want.ver as i64) {
        bad.push(format!("stream_version {:?} != {}", i("stream_version"), want.ver));
    }
    if t("stream_id").as_deref() != Some(want.stream.as_str()) {
        bad.push(format!("stream_id {:?} != {}", t("stream_id"), want.stream));
    }
    if t("event_name").as_deref() != Some(want.name.as_str()) {
        bad.push(format!("event_name {:?} != {}", t("event_name"), want.name));
    }
    let bytes = |n: &str| match field(f, n) {
        Some(BytesFrame::BlobString { data, .. }) => Some(data.to_vec()),
        _ => None,
    };
    if bytes("payload").as_deref() != Some(&want.payload[..]) {
        bad.push(format!("payload of {} bytes != the {} bytes sent", bytes("payload").map(|b| b.len()).unwrap_or(0), want.payload.len()));
    }
    if bytes("metadata").as_deref() != Some(&want.metadata[..]) {
        bad.push("metadata differs".to_string());
    }
    if let Some(ms) = want.ts_ms {
        if i("timestamp") != Some(ms as i64) {
            bad.push(format!("timestamp {:?} != {ms}", i("timestamp")));
        }
    }
    match t("transaction_id") {
        Some(id) => {
            // one id per transaction, different transactions have different ids
            if let Some(prev) = tx_ids.get(&want.tx) {
                if prev != &id {
                    bad.push(format!("transaction_id {id} differs from {prev} of the same transaction"));
                }
            } else if tx_ids.values().any(|v| v == &id) {
                bad.push(format!("transaction_id {id} is shared with another transaction"));
            } else {
                tx_ids.insert(want.tx, id);
            }
        }
        None => bad.push("no transaction_id".into()),
    }
    if bad.is_empty() { Ok(()) } else { Err(bad.join("; ")) }
}

pub struct Outcome {
    pub problem: Option<(String, String, usize)>, // (key, detail, step)
    pub steps_done: usize,
}

/// runs one history; the first deviation ends it
async fn run_history(node: &Node, root: &Path, h: &Value, idx: usize, v: &Variant, rep: &mut Report, watch_lag: &mut u64) -> Outcome {
    let steps = h["steps"].as_array().unwrap();
    let strict = h["strict"].as_bool().unwrap();
    let mut w = World::new(h, idx as u64 + 1, v);
    let db = open_db(&fresh_dir(root, &format!("h{idx}")), node.nb, v);
    if let Err(e) = node.cluster.ask(ResetCluster { database: db.clone() }).await {
        panic!("ResetCluster failed: {e}");
    }
    let port = if strict { node.port_strict } else { node.port_lax };
    let mut clients: BTreeMap<u64, Client> = BTreeMap::new();
    let mut tx_ids: HashMap<u64, String> = HashMap::new();
    let lower = idx % 3 == 1;
    macro_rules! fail {
        ($i:expr, $key:expr, $($arg:tt)*) => {{
            let _ = db.shutdown().await;
            return Outcome { problem: Some(($key.to_string(), format!($($arg)*), $i)), steps_done: $i };
        }};
    }
    for (si, st) in steps.iter().enumerate() {
        let txn = si as u64 + 1;
        let cmdname = st["cmd"].as_str().unwrap();
        rep.eval(1);
        let res = &st["res"];
        let cn = st.get("conn").and_then(|c| c.as_u64()).unwrap_or(1);
        if !clients.contains_key(&cn) {
            clients.insert(cn, Client::connect(port).await);
        }
        let c = clients.get_mut(&cn).unwrap();
        if std::env::var("VERIF_TRACE").is_ok() {
            eprintln!("step {} {}", si + 1, cmdname);
        }
        match cmdname {
            "EAPPEND" | "EMAPPEND" => {
                let multi = cmdname == "EMAPPEND";
                let model_key = st["key"].as_str().unwrap();
                let evs_m: Vec<Value> = if multi { st["evs"].as_array().unwrap().clone() } else { vec![json!({"s": st["s"], "x": st["x"], "ts": st["ts"]})] };
                let key_uuid = if model_key == "-" {
                    Uuid::new_v5(&NAMESPACE_PARTITION_KEY, w.streams[st["s"].as_str().unwrap()].as_bytes())
                } else {
                    w.keys[model_key]
                };
                let hash = uuid_to_partition_hash(key_uuid);
                let mut specs = vec![];
                for (i, e) in evs_m.iter().enumerate() {
                    let x = w.expectation(&e["x"]);
                    let big = w.big_payload > 0 && (txn + i as u64) % 3 == 0;
                    let mut payload = format!("p-{idx}-{txn}-{i}").into_bytes();
                    if big {
                        // incompressible filler so that segments fill up
                        let mut z = txn.wrapping_mul(0x9E3779B97F4A7C15) ^ i as u64;
                        while payload.len() < w.big_payload {
                            z ^= z << 13;
                            z ^= z >> 7;
                            z ^= z << 17;
                            payload.extend_from_slice(&z.to_le_bytes());
                        }
                    }
                    if (txn + i as u64) % 11 == 0 {
                        payload.clear(); // an empty payload is allowed
                    }
                    specs.push(EvSpec {
                        stream: w.streams[e["s"].as_str().unwrap()].clone(),
                        name: format!("E{txn}"),
                        id: uuid_v7_with_partition_hash(hash),
                        send_id: (txn + i as u64) % 3 != 0,
                        any_explicit: x.is_none() && (txn + i as u64) % 2 == 0,
                        x,
                        ts: ts_ms(e["ts"].as_str().unwrap(), txn + i as u64),
                        payload,
                        metadata: if (txn + i as u64) % 4 == 0 { format!("m{txn}").into_bytes() } else { vec![] },
                    });
                }
                let bytes = if multi {
                    let mut a = vec![blob(if lower { "emappend" } else { "EMAPPEND" }), blob(key_uuid.to_string())];
                    for e in &specs {
                        a.extend(ev_words(e, None, lower));
                    }
                    encode(&a)
                } else {
                    let mut a = vec![blob(if lower { "eappend" } else { "EAPPEND" })];
                    a.extend(ev_words(&specs[0], if model_key == "-" { None } else { Some(key_uuid) }, lower));
                    encode(&a)
                };
                let reply = match c.call(&bytes).await {
                    Ok(f) => f,
                    Err(e) => fail!(si, format!("c22:connection-lost:{cmdname}"), "step {} {}: {e} (model: {})", si + 1, cmdname, res),
                };
                let want_ok = res["ok"].as_bool().unwrap();
                rep.class(format!("{cmdname}:{}", res["class"].as_str().unwrap()));
                match (is_error(&reply), want_ok) {
                    (Some(_), false) => {
                        for (i, e) in specs.iter().enumerate() {
                            w.attempted_ids.insert((txn, i as u64 + 1), e.id);
                        }
                    }
                    (Some(e), true) => fail!(si, format!("c22:append-refused:{cmdname}"), "step {}: the model accepts ({}), the server answered error {e}", si + 1, st),
                    (None, false) => fail!(si, format!("c22:append-accepted:{cmdname}:{}", res["class"].as_str().unwrap()), "step {}: the model refuses with {}, the server answered {}", si + 1, res["class"], show(&reply)),
                    (None, true) => {
                        let first = res["first"].as_u64().unwrap();
                        let vers: Vec<u64> = res["vers"].as_array().unwrap().iter().map(|v| v.as_u64().unwrap()).collect();
                        let p = (hash % w.npart) as u16;
                        let mut bad = vec![];
                        let pid = field(&reply, "partition_id").and_then(num);
                        if pid != Some(p as i64) {
                            bad.push(format!("partition_id {pid:?} != {p}"));
                        }
                        if field(&reply, "partition_key").and_then(text) != Some(key_uuid.to_string()) {
                            bad.push("partition_key differs".into());
                        }
                        let mut ids = vec![];
                        if multi {
                            let f1 = field(&reply, "first_partition_sequence").and_then(num);
                            let l1 = field(&reply, "last_partition_sequence").and_then(num);
                            if f1 != Some(first as i64) || l1 != Some((first + vers.len() as u64 - 1) as i64) {
                                bad.push(format!("sequences {f1:?}..{l1:?} != {first}..{}", first + vers.len() as u64 - 1));
                            }
                            match field(&reply, "events") {
                                Some(BytesFrame::Array { data, .. }) if data.len() == vers.len() => {
                                    for (i, ev) in data.iter().enumerate() {
                                        let sv = field(ev, "stream_version").and_then(num);
                                        if sv != Some(vers[i] as i64) {
                                            bad.push(format!("event {} stream_version {sv:?} != {}", i + 1, vers[i]));
                                        }
                                        if field(ev, "stream_id").and_then(text).as_deref() != Some(specs[i].stream.as_str()) {
                                            bad.push(format!("event {} stream_id differs", i + 1));
                                        }
                                        if let Some(ms) = specs[i].ts {
                                            if field(ev, "timestamp").and_then(num) != Some(ms as i64) {
                                                bad.push(format!("event {} timestamp {:?} != {ms}", i + 1, field(ev, "timestamp").and_then(num)));
                                            }
                                        }
                                        ids.push(field(ev, "event_id").and_then(text).and_then(|t| Uuid::parse_str(&t).ok()));
                                    }
                                }
                                other => bad.push(format!("events array of {} entries expected, got {:?}", vers.len(), other.map(show))),
                            }
                        } else {
                            let sq = field(&reply, "partition_sequence").and_then(num);
                            if sq != Some(first as i64) {
                                bad.push(format!("partition_sequence {sq:?} != {first}"));
                            }
                            let sv = field(&reply, "stream_version").and_then(num);
                            if sv != Some(vers[0] as i64) {
                                bad.push(format!("stream_version {sv:?} != {}", vers[0]));
                            }
                            if let Some(ms) = specs[0].ts {
                                if field(&reply, "timestamp").and_then(num) != Some(ms as i64) {
                                    bad.push(format!("timestamp {:?} != {ms}", field(&reply, "timestamp").and_then(num)));
                                }
                            }
                            ids.push(field(&reply, "event_id").and_then(text).and_then(|t| Uuid::parse_str(&t).ok()));
                        }
                        for (i, e) in specs.iter().enumerate() {
                            match ids.get(i).copied().flatten() {
                                Some(id) if !e.send_id || id == e.id => {}
                                other => bad.push(format!("event {} event_id {other:?}, sent {}", i + 1, e.id)),
                            }
                        }
                        if !bad.is_empty() {
                            fail!(si, format!("c22:append-reply:{cmdname}"), "step {} ({}): {}; reply {}", si + 1, st, bad.join("; "), show(&reply));
                        }
                        let mut stored = vec![];
                        for (i, e) in specs.iter().enumerate() {
                            let id = ids[i].unwrap();
                            w.attempted_ids.insert((txn, i as u64 + 1), id);
                            let s = Stored {
                                id,
                                key: key_uuid,
                                p,
                                seq: first + i as u64,
                                stream: e.stream.clone(),
                                ver: vers[i],
                                name: e.name.clone(),
                                payload: e.payload.clone(),
                                metadata: e.metadata.clone(),
                                ts_ms: e.ts,
                                tx: txn,
                            };
                            if w.log[p as usize].len() as u64 != s.seq {
                                fail!(si, "c22:harness", "model log out of step at partition {p}");
                            }
                            w.log[p as usize].push(s.clone());
                            stored.push(s);
                        }
                        w.by_tx.insert(txn, stored);
                    }
                }
            }
            "EGET" => {
                let t = st["tx"].as_u64().unwrap();
                let i = st["i"].as_u64().unwrap();
                let id = w.by_tx.get(&t).and_then(|v| v.get(i as usize - 1)).map(|s| s.id).or_else(|| w.attempted_ids.get(&(t, i)).copied()).unwrap_or_else(|| {
                    // an id nobody ever used, routed to some partition
                    uuid_v7_with_partition_hash((t * 31 + i) as u16)
                });
                let reply = match c.call(&cmd(&[if lower { "eget" } else { "EGET" }, &id.to_string()])).await {
                    Ok(f) => f,
                    Err(e) => fail!(si, "c22:connection-lost:EGET", "step {} EGET: {e}", si + 1),
                };
                rep.class(format!("EGET:{}", res["found"]));
                if res["found"].as_bool().unwrap() {
                    let want = &w.log[res["p"].as_u64().unwrap() as usize][res["q"].as_u64().unwrap() as usize];
                    if want.id != id {
                        fail!(si, "c22:harness", "EGET bookkeeping: {} vs {}", want.id, id);
                    }
                    if let Some(e) = is_error(&reply) {
                        fail!(si, "c22:eget", "step {}: EGET {id} of a stored event answered error {e}", si + 1);
                    }
                    if matches!(reply, BytesFrame::Null) {
                        *watch_lag += 1;
                        fail!(si, "c22:eget:not-found", "step {}: EGET {id} answered null; the event was acknowledged at partition {} sequence {}", si + 1, want.p, want.seq);
                    }
                    if let Err(e) = check_event(&reply, want, &mut tx_ids) {
                        fail!(si, "c22:eget:record", "step {}: EGET {id}: {e}", si + 1);
                    }
                } else if !matches!(reply, BytesFrame::Null) {
                    fail!(si, "c22:eget:phantom", "step {}: EGET {id} (never stored: transaction {t} event {i}) answered {}", si + 1, show(&reply));
                }
            }
            "ESCAN" | "EPSCAN" => {
                let is_stream = cmdname == "ESCAN";
                let mut a: Vec<String> = vec![if lower { cmdname.to_lowercase() } else { cmdname.to_string() }];
                if let Some(form) = st.get("bad_range").and_then(|b| b.as_str()) {
                    if is_stream {
                        a.push(w.streams[st["s"].as_str().unwrap()].clone());
                    } else {
                        a.push(st["sel"].as_u64().unwrap().to_string());
                    }
                    let (s0, e0) = match form {
                        "plus_start" => ("+", "5"),
                        "minus_end" => ("0", "-"),
                        "plus_plus" => ("+", "+"),
                        _ => ("-", "-"),
                    };
                    a.push(s0.into());
                    a.push(e0.into());
                    let words: Vec<&str> = a.iter().map(|s| s.as_str()).collect();
                    let reply = match c.call(&cmd(&words)).await {
                        Ok(f) => f,
                        Err(e) => fail!(si, format!("c22:connection-lost:{cmdname}"), "step {} {:?}: {e}", si + 1, words),
                    };
                    rep.class(format!("{cmdname}:bad-range"));
                    if is_error(&reply).is_none() {
                        fail!(si, format!("c22:invalid-accepted:{cmdname}:{form}"), "step {}: {:?} answered {}", si + 1, words, show(&reply));
                    }
                } else {
                    if is_stream {
                        a.push(w.streams[st["s"].as_str().unwrap()].clone());
                    } else if let Some(k) = st["sel"].as_str() {
                        a.push(w.keys[k].to_string());
                    } else {
                        a.push(st["sel"].as_u64().unwrap().to_string());
                    }
                    a.push(if st["start"].as_i64().unwrap() < 0 { "-".into() } else { w.n(&st["start"]) });
                    a.push(if st["end"].as_i64().unwrap() < 0 { "+".into() } else { w.n(&st["end"]) });
                    let mut tail: Vec<Vec<String>> = vec![];
                    if is_stream && st["key"].as_str().unwrap() != "-" {
                        tail.push(vec![if lower { "partition_key".into() } else { "PARTITION_KEY".into() }, w.keys[st["key"].as_str().unwrap()].to_string()]);
                    }
                    if st["count"].as_i64().unwrap() >= 0 {
                        tail.push(vec![if lower { "count".into() } else { "COUNT".into() }, w.n(&st["count"])]);
                    }
                    if si % 2 == 1 {
                        tail.reverse();
                    }
                    for t in tail {
                        a.extend(t);
                    }
                    let words: Vec<&str> = a.iter().map(|s| s.as_str()).collect();
                    let reply = match c.call(&cmd(&words)).await {
                        Ok(f) => f,
                        Err(e) => fail!(si, format!("c22:connection-lost:{cmdname}"), "step {} {:?}: {e}", si + 1, words),
                    };
                    if let Some(e) = is_error(&reply) {
                        fail!(si, format!("c22:scan-error:{cmdname}"), "step {}: {:?} answered error {e}; model {}", si + 1, words, res);
                    }
                    let want: Vec<(usize, usize)> = res["events"].as_array().unwrap().iter().map(|e| (e[0].as_u64().unwrap() as usize, e[1].as_u64().unwrap() as usize)).collect();
                    let got = match field(&reply, "events") {
                        Some(BytesFrame::Array { data, .. }) => data.clone(),
                        _ => fail!(si, format!("c22:scan-shape:{cmdname}"), "step {}: {:?} answered {}", si + 1, words, show(&reply)),
                    };
                    let more = match field(&reply, "has_more") {
                        Some(BytesFrame::Boolean { data, .. }) => *data,
                        _ => fail!(si, format!("c22:scan-shape:{cmdname}"), "step {}: no has_more in {}", si + 1, show(&reply)),
                    };
                    rep.class(format!("{cmdname}:n={}{}{}", want.len().min(3), if res["must_more"].as_bool().unwrap() { ":more" } else { "" }, if res["must_not_more"].as_bool().unwrap() { ":end" } else { "" }));
                    let got_pos: Vec<(i64, i64)> = got.iter().map(|e| (field(e, "partition_id").and_then(num).unwrap_or(-1), field(e, "partition_sequence").and_then(num).unwrap_or(-1))).collect();
                    let want_pos: Vec<(i64, i64)> = want.iter().map(|(p, q)| (*p as i64, *q as i64)).collect();
                    if got_pos != want_pos {
                        // a prefix of the prescribed events: the tail was acknowledged but is not visible to reads
                        let kind = if got_pos.len() < want_pos.len() && want_pos[..got_pos.len()] == got_pos[..] { "missing-tail" } else { "events" };
                        if kind == "missing-tail" {
                            *watch_lag += 1;
                        }
                        fail!(si, format!("c22:scan:{kind}:{cmdname}"), "step {}: {:?} returned (partition, sequence) {:?}, the model prescribes {:?}", si + 1, words, got_pos, want_pos);
                    }
                    for (e, (p, q)) in got.iter().zip(&want) {
                        if let Err(err) = check_event(e, &w.log[*p][*q], &mut tx_ids) {
                            fail!(si, format!("c22:scan:record:{cmdname}"), "step {}: {:?}: event at partition {p} sequence {q}: {err}", si + 1, words);
                        }
                    }
                    if res["must_more"].as_bool().unwrap() && !more {
                        fail!(si, format!("c22:scan:has-more-hides:{cmdname}"), "step {}: {:?} returned {} events and has_more=false although the range holds more", si + 1, words, got.len());
                    }
                    // an empty page that claims more although nothing lies at or after the start position would make a paging
                    // client spin; a non-empty last page that claims more costs one extra (empty) request and is only counted
                    if res["must_not_more"].as_bool().unwrap() && more {
                        if got.is_empty() {
                            fail!(si, format!("c22:scan:has-more-on-nothing:{cmdname}"), "step {}: {:?} returned no events and has_more=true although nothing lies at or after the start position", si + 1, words);
                        }
                        rep.add("has_more_true_on_last_page", 1);
                    }
                    if more != res["must_more"].as_bool().unwrap() {
                        rep.add("has_more_true_beyond_requested_range", 1);
                    }
                }
            }
            "ESVER" | "EPSEQ" => {
                let mut a: Vec<String> = vec![if lower { cmdname.to_lowercase() } else { cmdname.to_string() }];
                if cmdname == "ESVER" {
                    a.push(w.streams[st["s"].as_str().unwrap()].clone());
                    if st["key"].as_str().unwrap() != "-" {
                        a.push("PARTITION_KEY".into());
                        a.push(w.keys[st["key"].as_str().unwrap()].to_string());
                    }
                } else if let Some(k) = st["sel"].as_str() {
                    a.push(w.keys[k].to_string());
                } else {
                    a.push(st["sel"].as_u64().unwrap().to_string());
                }
                let words: Vec<&str> = a.iter().map(|s| s.as_str()).collect();
                let reply = match c.call(&cmd(&words)).await {
                    Ok(f) => f,
                    Err(e) => fail!(si, format!("c22:connection-lost:{cmdname}"), "step {} {:?}: {e}", si + 1, words),
                };
                let want = res.as_i64().unwrap();
                rep.class(format!("{cmdname}:{}", if want < 0 { "null" } else { "some" }));
                let got = match &reply {
                    BytesFrame::Null => -1,
                    f => match num(f) {
                        Some(n) => n,
                        None => fail!(si, format!("c22:latest:{cmdname}"), "step {}: {:?} answered {}", si + 1, words, show(&reply)),
                    },
                };
                if got != want {
                    if got < want {
                        *watch_lag += 1;
                    }
                    fail!(si, format!("c22:latest:{}:{cmdname}", if got < want { "behind" } else { "ahead" }), "step {}: {:?} answered {got}, the model prescribes {want} (-1 = null)", si + 1, words);
                }
            }
            "INVALID" => {
                let name = st["name"].as_str().unwrap();
                let bytes = invalid_bytes(name, &w);
                rep.class(format!("INVALID:{name}"));
                match c.call(&bytes).await {
                    Ok(f) => {
                        if is_error(&f).is_none() {
                            fail!(si, format!("c22:invalid-accepted:{name}"), "step {}: invalid request {name} ({:?}) answered {}", si + 1, String::from_utf8_lossy(&bytes), show(&f));
                        }
                    }
                    Err(e) => fail!(si, format!("c22:connection-lost:INVALID:{name}"), "step {}: invalid request {name} ({:?}): {e}", si + 1, String::from_utf8_lossy(&bytes)),
                }
            }
            "ESUB" | "EPSUB" => {
                let mut a: Vec<String> = vec![if lower { cmdname.to_lowercase() } else { cmdname.to_string() }];
                let kw = |s: &str| if lower { s.to_lowercase() } else { s.to_string() };
                let from = &st["from"];
                if cmdname == "ESUB" {
                    for s in st["streams"].as_array().unwrap() {
                        a.push(w.streams[s["s"].as_str().unwrap()].clone());
                        if s["key"].as_str().unwrap() != "-" {
                            a.push(kw("PARTITION_KEY"));
                            a.push(w.keys[s["key"].as_str().unwrap()].to_string());
                        }
                    }
                    match from["k"].as_str().unwrap() {
                        "none" => {}
                        "latest" => a.extend([kw("FROM"), kw("LATEST")]),
                        "all" => a.extend([kw("FROM"), w.n(&from["v"])]),
                        _ => {
                            a.extend([kw("FROM"), kw("MAP")]);
                            for m in from["m"].as_array().unwrap() {
                                a.push(format!("{}={}", w.streams[m["s"].as_str().unwrap()], m["v"]));
                            }
                        }
                    }
                } else {
                    let sel = &st["sel"];
                    a.push(match sel["k"].as_str().unwrap() {
                        "all" => "*".to_string(),
                        "one" => sel["p"].to_string(),
                        "list" => sel["ps"].as_array().unwrap().iter().map(|p| p.to_string()).collect::<Vec<_>>().join(","),
                        "range" => format!("{}-{}", sel["a"], sel["b"]),
                        _ => w.keys[sel["key"].as_str().unwrap()].to_string(),
                    });
                    match from["k"].as_str().unwrap() {
                        "none" => {}
                        "latest" => a.extend([kw("FROM"), kw("LATEST")]),
                        "all" => a.extend([kw("FROM"), w.n(&from["v"])]),
                        _ => {
                            a.extend([kw("FROM"), kw("MAP")]);
                            for m in from["m"].as_array().unwrap() {
                                a.push(format!("{}={}", m["p"], m["v"]));
                            }
                            if from["d"].as_i64().unwrap() >= 0 {
                                a.extend([kw("DEFAULT"), from["d"].to_string()]);
                            }
                        }
                    }
                }
                if st["win"].as_i64().unwrap() >= 0 {
                    a.extend([kw("WINDOW"), st["win"].to_string()]);
                }
                let words: Vec<&str> = a.iter().map(|s| s.as_str()).collect();
                let reply = match c.call(&cmd(&words)).await {
                    Ok(f) => f,
                    Err(e) => fail!(si, format!("c22:connection-lost:{cmdname}"), "step {} {:?}: {e}", si + 1, words),
                };
                rep.class(format!("{cmdname}:{}:{}", if cmdname == "ESUB" { st["streams"].as_array().unwrap().len().to_string() } else { st["sel"]["k"].as_str().unwrap().to_string() }, from["k"].as_str().unwrap()));
                let id = match text(&reply).and_then(|t| Uuid::parse_str(&t).ok()) {
                    Some(id) => id,
                    None => fail!(si, format!("c22:subscribe-reply:{cmdname}"), "step {}: {:?} answered {}", si + 1, words, show(&reply)),
                };
                w.subs.push(SubState { id, conn: cn, open: true, wrong_conn: None, received: vec![] });
            }
            "EACK" => {
                let i = st["sub"].as_u64().unwrap() as usize - 1;
                let upto = st["upto"].as_u64().unwrap();
                let id = w.subs[i].id.to_string();
                let reply = match c.call(&cmd(&["EACK", &id, &(upto - 1).to_string()])).await {
                    Ok(f) => f,
                    Err(e) => fail!(si, "c22:connection-lost:EACK", "step {} EACK: {e}", si + 1),
                };
                rep.class("EACK");
                if text(&reply).as_deref() != Some("OK") {
                    fail!(si, "c22:eack", "step {}: EACK {id} {} answered {}", si + 1, upto - 1, show(&reply));
                }
            }
            "EACK_FOREIGN" => {
                let i = st["sub"].as_u64().unwrap() as usize - 1;
                let id = w.subs[i].id.to_string();
                let reply = match c.call(&cmd(&["EACK", &id, "0"])).await {
                    Ok(f) => f,
                    Err(e) => fail!(si, "c22:connection-lost:EACK", "step {} EACK of a foreign subscription: {e}", si + 1),
                };
                rep.class("EACK:foreign");
                if is_error(&reply).is_none() {
                    fail!(si, "c22:eack:foreign-accepted", "step {}: EACK {id} 0 on connection {cn} (the subscription belongs to connection {}, open: {}) answered {}", si + 1, w.subs[i].conn, w.subs[i].open, show(&reply));
                }
            }
            "RECONNECT" => {
                rep.class("RECONNECT");
                clients.remove(&cn); // closes the socket
                for s in w.subs.iter_mut().filter(|s| s.conn == cn) {
                    s.open = false;
                }
                clients.insert(cn, Client::connect(port).await);
            }
            "HELLO" => {
                let reply = match c.call(&cmd(&["HELLO", "3"])).await {
                    Ok(f) => f,
                    Err(e) => fail!(si, "c22:connection-lost:HELLO", "step {} HELLO: {e}", si + 1),
                };
                rep.class("HELLO");
                let np = field(&reply, "num_partitions").and_then(num);
                if np != res["num_partitions"].as_i64() || field(&reply, "server").and_then(text).as_deref() != res["server"].as_str() {
                    fail!(si, "c22:hello", "step {}: HELLO 3 answered {}", si + 1, show(&reply));
                }
            }
            "PING" => {
                let reply = match c.call(&cmd(&[if lower { "ping" } else { "PING" }])).await {
                    Ok(f) => f,
                    Err(e) => fail!(si, "c22:connection-lost:PING", "step {} PING: {e}", si + 1),
                };
                rep.class("PING");
                if text(&reply).as_deref() != res.as_str() {
                    fail!(si, "c22:ping", "step {}: PING answered {}", si + 1, show(&reply));
                }
            }
            other => panic!("unknown model command {other}"),
        }

        // ---- subscriptions: what must have been delivered by now
        let subs_m = st.get("subs").and_then(|s| s.as_array()).cloned().unwrap_or_default();
        let last = si + 1 == steps.len();
        for (i, sm) in subs_m.iter().enumerate() {
            if i >= w.subs.len() {
                break;
            }
            if !w.subs[i].open {
                continue; // its connection was closed
            }
            // per unit (partition, or key and stream) the owed events as (partition, sequence), in the unit's order
            let due: Vec<Vec<(i64, i64)>> = sm["due"].as_array().unwrap().iter().map(|u| u.as_array().unwrap().iter().map(|e| (e[0].as_i64().unwrap(), e[1].as_i64().unwrap())).collect()).collect();
            let total: usize = due.iter().map(|d| d.len()).sum();
            let cap = sm["cap"].as_u64().unwrap() as usize;
            let expect = total.min(cap);
            // wait for the owed deliveries
            let deadline = tokio::time::Instant::now() + REPLY_TIMEOUT;
            loop {
                drain_pushes(&mut clients, &mut w);
                if w.subs[i].received.len() >= expect {
                    break;
                }
                if tokio::time::Instant::now() > deadline {
                    let _ = db.shutdown().await;
                    return Outcome {
                        problem: Some((format!("c22:subscription:missing:{}", st_sub_kind(steps, i)), format!("after step {} ({}): subscription {} received {} messages, {} are owed (owed per unit {:?}, acknowledged+window {})", si + 1, st["cmd"], i + 1, w.subs[i].received.len(), expect, due, cap), si)),
                        steps_done: si,
                    };
                }
                tokio::time::sleep(Duration::from_millis(3)).await;
            }
            if last {
                // nothing beyond what is owed may follow
                tokio::time::sleep(Duration::from_millis(250)).await;
                drain_pushes(&mut clients, &mut w);
            }
            if let Some(other) = w.subs[i].wrong_conn {
                fail!(si, format!("c22:subscription:wrong-connection:{}", st_sub_kind(steps, i)), "after step {}: a message of subscription {} (connection {}) arrived on connection {other}", si + 1, i + 1, w.subs[i].conn);
            }
            if let Err((kind, e)) = check_sub(&w, i, &due, expect, &mut tx_ids) {
                fail!(si, format!("c22:subscription:{kind}:{}", st_sub_kind(steps, i)), "after step {} ({}): subscription {}: {e}", si + 1, st["cmd"], i + 1);
            }
        }
    }
    // every connection is still alive
    for (cn, c) in clients.iter_mut() {
        match c.call(&cmd(&["PING"])).await {
            Ok(f) if is_error(&f).is_none() => {}
            Ok(f) => {
                let _ = db.shutdown().await;
                return Outcome { problem: Some(("c22:ping".into(), format!("PING on connection {cn} answered {}", show(&f)), steps.len())), steps_done: steps.len() };
            }
            Err(e) => {
                let _ = db.shutdown().await;
                return Outcome { problem: Some(("c22:connection-lost:PING".into(), format!("connection {cn}: {e}"), steps.len())), steps_done: steps.len() };
            }
        }
    }
    drop(clients);
    let _ = db.shutdown().await;
    Outcome { problem: None, steps_done: steps.len() }
}

fn st_sub_kind(steps: &[Value], i: usize) -> String {
    steps.iter().filter(|s| matches!(s["cmd"].as_str(), Some("ESUB") | Some("EPSUB"))).nth(i).map(|s| s["cmd"].as_str().unwrap().to_string()).unwrap_or_default()
}

fn drain_pushes(clients: &mut BTreeMap<u64, Client>, w: &mut World) {
    for (cn, c) in clients.iter_mut() {
        while let Ok(p) = c.pushes.try_recv() {
            if p.first().and_then(text).as_deref() == Some("message") && p.len() == 4 {
                if let Some(id) = text(&p[1]).and_then(|t| Uuid::parse_str(&t).ok()) {
                    let cursor = num(&p[2]).unwrap_or(-1);
                    if let Some(s) = w.subs.iter_mut().find(|s| s.id == id) {
                        if std::env::var("VERIF_TRACE").is_ok() {
                            eprintln!("push conn={cn} sub={id} cursor={cursor} p={:?} q={:?}", field(&p[3], "partition_id").and_then(num), field(&p[3], "partition_sequence").and_then(num));
                        }
                        if s.conn != *cn {
                            s.wrong_conn = Some(*cn);
                        }
                        s.received.push((cursor, p[3].clone()));
                    }
                }
            }
        }
    }
}

fn check_sub(w: &World, i: usize, due: &[Vec<(i64, i64)>], expect: usize, tx_ids: &mut HashMap<u64, String>) -> Result<(), (&'static str, String)> {
    let s = &w.subs[i];
    if s.received.len() > expect {
        let extra = &s.received[expect].1;
        return Err(("extra", format!("{} messages received, {} are owed; first extra: partition {:?} sequence {:?}", s.received.len(), expect, field(extra, "partition_id").and_then(num), field(extra, "partition_sequence").and_then(num))));
    }
    let mut next = vec![0usize; due.len()];
    for (k, (cursor, e)) in s.received.iter().enumerate() {
        if *cursor != k as i64 {
            return Err(("cursor", format!("message {} carries cursor {cursor}", k + 1)));
        }
        let p = field(e, "partition_id").and_then(num).unwrap_or(-1);
        let q = field(e, "partition_sequence").and_then(num).unwrap_or(-1);
        // the unit that owes this event next
        match (0..due.len()).find(|&u| due[u].get(next[u]) == Some(&(p, q))) {
            Some(u) => next[u] += 1,
            None => {
                let kind = if due.iter().enumerate().any(|(u, d)| d[..next[u]].contains(&(p, q))) {
                    "duplicate"
                } else if due.iter().any(|d| d.contains(&(p, q))) {
                    "order"
                } else {
                    "not-owed"
                };
                return Err((kind, format!("message {} is partition {p} sequence {q}; owed next per unit: {:?} (owed {:?})", k + 1, (0..due.len()).map(|u| due[u].get(next[u])).collect::<Vec<_>>(), due)));
            }
        }
        if p < 0 || p as usize >= w.log.len() || q as usize >= w.log[p as usize].len() {
            return Err(("not-owed", format!("message {} names partition {p} sequence {q}", k + 1)));
        }
        if let Err(err) = check_event(e, &w.log[p as usize][q as usize], tx_ids) {
            return Err(("record", format!("message {} (partition {p} sequence {q}): {err}", k + 1)));
        }
    }
    Ok(())
}

pub async fn api_cmd(rep: &mut Report, file: &str, root: &str) {
    let hs = hcommon::read_ndjson(file);
    let root = PathBuf::from(root);
    std::fs::create_dir_all(&root).unwrap();
    let first = &hs[0];
    let node = start_node(&root, first["npart"].as_u64().unwrap() as u16, first["nb"].as_u64().unwrap() as u16).await;
    let mut lag = 0u64;
    let mut reported = std::collections::BTreeSet::new();
    let mut completed = 0u64;
    for (idx, h) in hs.iter().enumerate() {
        // a replayed history carries the index it was first run with (names, keys and variant depend on it)
        let idx = h.get("idx").and_then(|i| i.as_u64()).map(|i| i as usize).unwrap_or(idx);
        let v = &VARIANTS[idx % VARIANTS.len()];
        let out = run_history(&node, &root, h, idx, v, rep, &mut lag).await;
        let _ = std::fs::remove_dir_all(root.join(format!("h{idx}")));
        match out.problem {
            None => completed += 1,
            Some((key, detail, step)) => {
                if reported.insert(key.clone()) {
                    let upto: Vec<Value> = h["steps"].as_array().unwrap()[..(step + 1).min(h["steps"].as_array().unwrap().len())].to_vec();
                    let mut hh = h.clone();
                    hh["steps"] = Value::Array(upto);
                    hh["idx"] = json!(idx);
                    rep.violation(&key, json!({"history": idx, "variant": v.name, "what": detail}), json!({"history": hh}));
                } else {
                    rep.violations += 1;
                }
            }
        }
        if rep.samples.len() < 2 {
            rep.sample(json!({"history": idx, "variant": v.name, "first_steps": h["steps"].as_array().unwrap().iter().take(4).map(|s| { let mut s = s.clone(); s.as_object_mut().unwrap().remove("subs"); s }).collect::<Vec<_>>() }));
        }
    }
    rep.set("histories", json!(hs.len()));
    rep.set("histories_completed", json!(completed));
    rep.set("reads_behind_acknowledged_appends", json!(lag));
}
