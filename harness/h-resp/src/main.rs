//! Harness for the RESP layer (crates/sierradb-server, crates/sierradb-client): command
//! grammar (C21) and the single-node RESP API against the event-store model (C22).
use hcommon::Report;

mod api;
mod client;
mod parse;

fn main() {
    if std::env::var("VERIF_LOUD").is_err() {
        hcommon::quiet_panics();
    }
    let args: Vec<String> = std::env::args().collect();
    let mut rep = Report::new();
    match args[1].as_str() {
        "parse" => {
            parse::parse_cmd(&mut rep, &args[2]);
            let rt = tokio::runtime::Builder::new_multi_thread().worker_threads(2).enable_all().build().unwrap();
            rt.block_on(client::client_cmd(&mut rep));
        }
        "api" => {
            let rt = tokio::runtime::Builder::new_multi_thread().worker_threads(6).enable_all().build().unwrap();
            rt.block_on(api::api_cmd(&mut rep, &args[2], &args[3]));
        }
        other => panic!("unknown subcommand {other}"),
    }
    rep.finish();
    std::process::exit(0);
}
