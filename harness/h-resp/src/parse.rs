//! C21: every row of Commands.tla's table (token list + denotation) goes through the real
//! `<Command>::parser().skip(eof())`; the parsed request is compared with the denotation.
use std::collections::{HashMap, HashSet};

use bytes::Bytes;
use combine::{Parser, eof};
use hcommon::{Report, read_ndjson};
use redis_protocol::resp3::types::BytesFrame;
use serde_json::{Value, json};
use sierradb::StreamId;
use sierradb::id::NAMESPACE_PARTITION_KEY;
use sierradb_cluster::subscription::{FromSequences, FromVersions, SubscriptionMatcher};
use sierradb_server::parser::frame_stream;
use sierradb_server::request::eack::EAck;
use sierradb_server::request::eappend::EAppend;
use sierradb_server::request::eget::EGet;
use sierradb_server::request::emappend::EMAppend;
use sierradb_server::request::epscan::EPScan;
use sierradb_server::request::epseq::EPSeq;
use sierradb_server::request::epsub::EPSub;
use sierradb_server::request::escan::EScan;
use sierradb_server::request::esub::ESub;
use sierradb_server::request::esver::ESVer;
use sierradb_server::request::{PartitionSelector, RangeValue};
use uuid::Uuid;

pub fn frames(toks: &[String]) -> Vec<BytesFrame> {
    toks.iter().map(|t| BytesFrame::BlobString { data: Bytes::from(t.clone().into_bytes()), attributes: None }).collect()
}

fn opt_uuid(v: &Value) -> Option<Uuid> {
    match v.as_str().unwrap() {
        "-" => None,
        s => Some(Uuid::parse_str(s).unwrap()),
    }
}
fn opt_u64(v: &Value) -> Option<u64> {
    match v.as_str().unwrap() {
        "-" => None,
        s => Some(s.parse().unwrap()),
    }
}
fn default_key(stream: &str) -> Uuid {
    Uuid::new_v5(&NAMESPACE_PARTITION_KEY, stream.as_bytes())
}
fn range(v: &Value) -> RangeValue {
    match v.as_str().unwrap() {
        "-" => RangeValue::Start,
        "+" => RangeValue::End,
        s => RangeValue::Value(s.parse().unwrap()),
    }
}
fn selector(v: &Value) -> PartitionSelector {
    let s = v.as_str().unwrap();
    match Uuid::parse_str(s) {
        Ok(u) => PartitionSelector::ByKey(u),
        Err(_) => PartitionSelector::ById(s.parse().unwrap()),
    }
}

/// Ok(()) when the real parser's verdict is the denotation; Err(description) otherwise
pub fn check_row(cmd: &str, toks: &[String], den: &Value) -> Result<(), String> {
    let fr = frames(toks);
    let reject = den.get("reject").is_some();
    macro_rules! parse {
        ($t:ty) => {
            <$t>::parser().skip(eof()).parse(frame_stream(&fr)).map(|(c, _)| c).map_err(|e| e.to_string())
        };
    }
    macro_rules! verdict {
        ($r:expr, $cmp:expr) => {
            match ($r, reject) {
                (Err(_), true) => Ok(()),
                (Err(e), false) => Err(format!("rejected: {}", e.replace('\n', " "))),
                (Ok(_), true) => Err("accepted although it is outside the documented grammar".to_string()),
                (Ok(c), false) => $cmp(c),
            }
        };
    }
    match cmd {
        "EAPPEND" => verdict!(parse!(EAppend), |c: EAppend| {
            let want = (
                den["stream"].as_str().unwrap().to_string(),
                den["name"].as_str().unwrap().to_string(),
                opt_uuid(&den["event_id"]),
                opt_uuid(&den["partition_key"]),
                den["expected"].as_str().unwrap().to_string(),
                opt_u64(&den["timestamp"]),
                den["payload"].as_str().unwrap().as_bytes().to_vec(),
                den["metadata"].as_str().unwrap().as_bytes().to_vec(),
            );
            let got = (c.stream_id.to_string(), c.event_name.clone(), c.event_id, c.partition_key, c.expected_version.to_string().to_lowercase(), c.timestamp, c.payload.clone(), c.metadata.clone());
            if got == want { Ok(()) } else { Err(format!("parsed as {got:?}, denotes {want:?}")) }
        }),
        "EMAPPEND" => verdict!(parse!(EMAppend), |c: EMAppend| {
            let mut got = vec![];
            for e in &c.events {
                got.push((e.stream_id.to_string(), e.event_name.clone(), e.event_id, e.expected_version.to_string().to_lowercase(), e.timestamp, e.payload.clone(), e.metadata.clone()));
            }
            let want: Vec<_> = den["events"].as_array().unwrap().iter().map(|d| {
                (d["stream"].as_str().unwrap().to_string(), d["name"].as_str().unwrap().to_string(), opt_uuid(&d["event_id"]), d["expected"].as_str().unwrap().to_string(), opt_u64(&d["timestamp"]),
                 d["payload"].as_str().unwrap().as_bytes().to_vec(), d["metadata"].as_str().unwrap().as_bytes().to_vec())
            }).collect();
            if c.partition_key == opt_uuid(&den["partition_key"]).unwrap() && got == want { Ok(()) } else { Err(format!("parsed as key {} events {got:?}, denotes {want:?}", c.partition_key)) }
        }),
        "ESUB" => verdict!(parse!(ESub), |c: ESub| {
            let streams: Vec<(String, Uuid)> = den["streams"].as_array().unwrap().iter().map(|s| {
                let name = s["s"].as_str().unwrap().to_string();
                let pk = opt_uuid(&s["pk"]).unwrap_or_else(|| default_key(&name));
                (name, pk)
            }).collect();
            let f = &den["from"];
            let want_matcher = if streams.len() == 1 {
                let (name, pk) = streams[0].clone();
                let from_version = match f["k"].as_str().unwrap() {
                    "none" | "latest" => None,
                    "all" => Some(f["v"].as_str().unwrap().parse().unwrap()),
                    _ => f["m"].as_array().unwrap().iter().find(|m| m["s"] == name.as_str()).map(|m| m["v"].as_str().unwrap().parse().unwrap()),
                };
                SubscriptionMatcher::Stream { partition_key: pk, stream_id: StreamId::new(name).unwrap(), from_version }
            } else {
                let ids: HashSet<(Uuid, StreamId)> = streams.iter().map(|(n, pk)| (*pk, StreamId::new(n.clone()).unwrap())).collect();
                let from_versions = match f["k"].as_str().unwrap() {
                    "none" | "latest" => FromVersions::Latest,
                    "all" => FromVersions::AllStreams(f["v"].as_str().unwrap().parse().unwrap()),
                    _ => FromVersions::Streams(f["m"].as_array().unwrap().iter().map(|m| {
                        let n = m["s"].as_str().unwrap();
                        let pk = streams.iter().find(|(x, _)| x == n).unwrap().1;
                        ((pk, StreamId::new(n.to_string()).unwrap()), m["v"].as_str().unwrap().parse().unwrap())
                    }).collect::<HashMap<_, _>>()),
                };
                SubscriptionMatcher::Streams { stream_ids: ids, from_versions }
            };
            let want_window = opt_u64(&den["window"]);
            if c.matcher == want_matcher && c.window_size == want_window { Ok(()) } else { Err(format!("parsed as {:?} window {:?}, denotes {:?} window {:?}", c.matcher, c.window_size, want_matcher, want_window)) }
        }),
        "EPSUB" => verdict!(parse!(EPSub), |c: EPSub| {
            let f = &den["from"];
            let fs = match f["k"].as_str().unwrap() {
                "none" | "latest" => FromSequences::Latest,
                "all" => FromSequences::AllPartitions(f["v"].as_str().unwrap().parse().unwrap()),
                _ => FromSequences::Partitions {
                    from_sequences: f["m"].as_array().unwrap().iter().map(|m| (m["p"].as_str().unwrap().parse().unwrap(), m["v"].as_str().unwrap().parse().unwrap())).collect(),
                    fallback: opt_u64(&f["d"]),
                },
            };
            let sel = den["sel"].as_str().unwrap();
            let key = uuid::Uuid::parse_str(sel).ok();
            if c.partition_key != key {
                return Err(format!("parsed with partition key {:?}, denotes {:?}", c.partition_key, key));
            }
            let want = if key.is_some() {
                // the partition id is resolved against the partition count when the request is handled; compared here is the
                // start position (the id resolution itself is exercised end to end by C22)
                let from_sequence = match fs {
                    FromSequences::AllPartitions(v) => Some(v),
                    FromSequences::Partitions { fallback, .. } => fallback,
                    FromSequences::Latest => None,
                };
                let id = match &c.matcher { SubscriptionMatcher::Partition { partition_id, .. } => *partition_id, _ => 0 };
                SubscriptionMatcher::Partition { partition_id: id, from_sequence }
            } else if sel == "*" {
                SubscriptionMatcher::AllPartitions { from_sequences: fs }
            } else if sel.contains(',') {
                SubscriptionMatcher::Partitions { partition_ids: sel.split(',').map(|p| p.parse().unwrap()).collect(), from_sequences: fs }
            } else if let Some((a, b)) = sel.split_once('-') {
                let (a, b): (u16, u16) = (a.parse().unwrap(), b.parse().unwrap());
                SubscriptionMatcher::Partitions { partition_ids: (a..=b).collect(), from_sequences: fs }
            } else {
                let id: u16 = sel.parse().unwrap();
                let from_sequence = match fs {
                    FromSequences::AllPartitions(v) => Some(v),
                    FromSequences::Partitions { from_sequences, fallback } => from_sequences.get(&id).copied().or(fallback),
                    FromSequences::Latest => None,
                };
                SubscriptionMatcher::Partition { partition_id: id, from_sequence }
            };
            let want_window = opt_u64(&den["window"]);
            if c.matcher == want && c.window_size == want_window { Ok(()) } else { Err(format!("parsed as {:?} window {:?}, denotes {:?} window {:?}", c.matcher, c.window_size, want, want_window)) }
        }),
        "ESCAN" => verdict!(parse!(EScan), |c: EScan| {
            let want = (den["stream"].as_str().unwrap().to_string(), range(&den["start"]), range(&den["end"]), opt_uuid(&den["partition_key"]), opt_u64(&den["count"]));
            let got = (c.stream_id.to_string(), c.start_version.clone(), c.end_version.clone(), c.partition_key, c.count);
            if got == want { Ok(()) } else { Err(format!("parsed as {got:?}, denotes {want:?}")) }
        }),
        "EPSCAN" => verdict!(parse!(EPScan), |c: EPScan| {
            let want = (selector(&den["partition"]), range(&den["start"]), range(&den["end"]), opt_u64(&den["count"]));
            let got = (c.partition, c.start_sequence.clone(), c.end_sequence.clone(), c.count);
            if got == want { Ok(()) } else { Err(format!("parsed as {got:?}, denotes {want:?}")) }
        }),
        "EGET" => verdict!(parse!(EGet), |c: EGet| if Some(c.event_id) == opt_uuid(&den["event_id"]) { Ok(()) } else { Err(format!("parsed as {}", c.event_id)) }),
        "ESVER" => verdict!(parse!(ESVer), |c: ESVer| {
            if c.stream_id.to_string() == den["stream"].as_str().unwrap() && c.partition_key == opt_uuid(&den["partition_key"]) { Ok(()) } else { Err(format!("parsed as {} {:?}", c.stream_id, c.partition_key)) }
        }),
        "EPSEQ" => verdict!(parse!(EPSeq), |c: EPSeq| if c.partition == selector(&den["partition"]) { Ok(()) } else { Err(format!("parsed as {:?}", c.partition)) }),
        "EACK" => verdict!(parse!(EAck), |c: EAck| {
            if Some(c.subscription_id) == opt_uuid(&den["subscription_id"]) && Some(c.cursor) == opt_u64(&den["cursor"]) { Ok(()) } else { Err(format!("parsed as {} {}", c.subscription_id, c.cursor)) }
        }),
        other => panic!("unknown command {other}"),
    }
}

pub fn parse_cmd(rep: &mut Report, table: &str) {
    let rows = read_ndjson(table);
    let mut reported = std::collections::BTreeSet::new();
    for r in &rows {
        rep.eval(1);
        let cmd = r["cmd"].as_str().unwrap();
        let toks: Vec<String> = r["toks"].as_array().unwrap().iter().map(|t| t.as_str().unwrap().to_string()).collect();
        let reject = r["den"].get("reject").is_some();
        rep.class(format!("{cmd}:{}", if reject { "near-miss" } else { "documented" }));
        let res = hcommon::catch(std::panic::AssertUnwindSafe(|| check_row(cmd, &toks, &r["den"])));
        let problem = match res {
            Ok(Ok(())) => None,
            Ok(Err(e)) => Some(e),
            Err(p) => Some(format!("panic: {p}")),
        };
        if let Some(e) = problem {
            let what = if e.starts_with("rejected") { "documented-form-rejected" } else if e.starts_with("accepted") { "near-miss-accepted" } else if e.starts_with("panic") { "panic" } else { "misparsed" };
            let key = format!("c21:{what}:{cmd}");
            if reported.insert(key.clone()) {
                rep.violation(&key, json!({"command": format!("{cmd} {}", toks.join(" ")), "problem": e}), json!({"row": r}));
            } else {
                rep.violations += 1;
            }
        }
        if rep.samples.len() < 3 && toks.len() > 5 && !reject {
            rep.sample(json!({"command": format!("{cmd} {}", toks.join(" ")), "denotes": r["den"]}));
        }
    }
    rep.set("rows", json!(rows.len()));
}
