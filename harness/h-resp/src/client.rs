//! C21, client side: every command the Rust client emits (the `CmdExt` builders and the
//! SubscriptionManager's subscribe functions, the latter captured on a loopback endpoint) is
//! parsed by the real server parsers and compared with the request the called function denotes.
use std::collections::HashMap;
use std::sync::{Arc, Mutex};
use std::time::{Duration, SystemTime, UNIX_EPOCH};

use hcommon::Report;
use redis::Cmd;
use serde_json::{Value, json};
use sierradb_client::{CmdExt, EAppendOptions, EMAppendEvent, ExpectedVersion, SubscriptionManager};
use tokio::io::{AsyncReadExt, AsyncWriteExt};
use uuid::Uuid;

use crate::parse::check_row;

const U1: &str = "550e8400-e29b-41d4-a716-446655440000";
const U2: &str = "6ba7b810-9dad-11d1-80b4-00c04fd430c8";

fn args_of(cmd: &Cmd) -> Vec<String> {
    cmd.args_iter()
        .map(|a| match a {
            redis::Arg::Simple(b) => String::from_utf8_lossy(b).to_string(),
            _ => "<cursor>".to_string(),
        })
        .collect()
}

/// minimal RESP reader: arrays of bulk strings (what redis-rs sends)
fn parse_requests(buf: &mut Vec<u8>) -> Vec<Vec<String>> {
    let mut out = vec![];
    loop {
        let mut pos = 0;
        let line = |p: &mut usize, b: &[u8]| -> Option<String> {
            let rest = &b[*p..];
            let i = rest.windows(2).position(|w| w == b"\r\n")?;
            let s = String::from_utf8_lossy(&rest[..i]).to_string();
            *p += i + 2;
            Some(s)
        };
        let Some(h) = line(&mut pos, buf) else { break };
        if !h.starts_with('*') {
            buf.clear();
            break;
        }
        let n: usize = h[1..].parse().unwrap_or(0);
        let mut items = vec![];
        let mut complete = true;
        for _ in 0..n {
            let Some(l) = line(&mut pos, buf) else {
                complete = false;
                break;
            };
            let len: usize = l[1..].parse().unwrap_or(0);
            if buf.len() < pos + len + 2 {
                complete = false;
                break;
            }
            items.push(String::from_utf8_lossy(&buf[pos..pos + len]).to_string());
            pos += len + 2;
        }
        if !complete {
            break;
        }
        buf.drain(..pos);
        out.push(items);
    }
    out
}

async fn capture_server(captured: Arc<Mutex<Vec<Vec<String>>>>) -> u16 {
    let listener = tokio::net::TcpListener::bind("127.0.0.1:0").await.unwrap();
    let port = listener.local_addr().unwrap().port();
    tokio::spawn(async move {
        loop {
            let Ok((mut sock, _)) = listener.accept().await else { break };
            let captured = captured.clone();
            tokio::spawn(async move {
                let mut buf = vec![];
                let mut tmp = [0u8; 4096];
                loop {
                    let Ok(n) = sock.read(&mut tmp).await else { break };
                    if n == 0 {
                        break;
                    }
                    buf.extend_from_slice(&tmp[..n]);
                    for req in parse_requests(&mut buf) {
                        let name = req.first().map(|s| s.to_uppercase()).unwrap_or_default();
                        let reply: Vec<u8> = match name.as_str() {
                            "HELLO" => b"%1\r\n+proto\r\n:3\r\n".to_vec(),
                            "ESUB" | "EPSUB" => format!("+{}\r\n", Uuid::new_v4()).into_bytes(),
                            _ => b"+OK\r\n".to_vec(),
                        };
                        if name.starts_with('E') {
                            captured.lock().unwrap().push(req);
                        }
                        if sock.write_all(&reply).await.is_err() {
                            return;
                        }
                    }
                }
            });
        }
    });
    port
}

fn stream_den(stream: &str, pk: Option<&str>, from: Option<u64>, window: Option<u64>) -> Value {
    json!({"streams": [{"s": stream, "pk": pk.unwrap_or("-")}],
           "from": match from { Some(v) => json!({"k": "all", "v": v.to_string()}), None => json!({"k": "none"}) },
           "window": window.map(|w| w.to_string()).unwrap_or("-".into())})
}
fn part_den(sel: &str, from: Value, window: Option<u64>) -> Value {
    json!({"sel": sel, "from": from, "window": window.map(|w| w.to_string()).unwrap_or("-".into())})
}
fn all(v: u64) -> Value {
    json!({"k": "all", "v": v.to_string()})
}

pub async fn client_cmd(rep: &mut Report) {
    let u1 = Uuid::parse_str(U1).unwrap();
    let u2 = Uuid::parse_str(U2).unwrap();
    let ts = UNIX_EPOCH + Duration::from_millis(1_700_000_000_123);
    let mut cases: Vec<(String, Vec<String>, Value)> = vec![]; // (function, tokens, denotation)
    let mut push = |f: &str, c: &Cmd, den: Value| cases.push((f.to_string(), args_of(c), den));

    // ---- CmdExt builders
    let opts = EAppendOptions::new().event_id(u1).partition_key(u2).expected_version(ExpectedVersion::Exact(7)).timestamp(ts).payload(&b"{\"a\":1}"[..]).metadata(&b"meta"[..]);
    push("eappend(all options)", &Cmd::eappend("my-stream", "UserCreated", opts),
         json!({"stream": "my-stream", "name": "UserCreated", "event_id": U1, "partition_key": U2, "expected": "7", "timestamp": "1700000000123", "payload": "{\"a\":1}", "metadata": "meta"}));
    push("eappend(expected empty)", &Cmd::eappend("s", "E", EAppendOptions::new().expected_version(ExpectedVersion::Empty)),
         json!({"stream": "s", "name": "E", "event_id": "-", "partition_key": "-", "expected": "empty", "timestamp": "-", "payload": "", "metadata": ""}));
    push("eappend(no options)", &Cmd::eappend("FROM", "WINDOW", EAppendOptions::new()),
         json!({"stream": "FROM", "name": "WINDOW", "event_id": "-", "partition_key": "-", "expected": "any", "timestamp": "-", "payload": "", "metadata": ""}));
    let evs = [
        EMAppendEvent::new("stream1", "EventA").expected_version(ExpectedVersion::Empty).payload(&b"p1"[..]),
        EMAppendEvent::new("stream2", "EventB").event_id(u1).expected_version(ExpectedVersion::Exact(0)).timestamp(ts).metadata(&b"m2"[..]),
    ];
    push("emappend(2 events)", &Cmd::emappend(u2, &evs),
         json!({"partition_key": U2, "events": [
            {"stream": "stream1", "name": "EventA", "event_id": "-", "expected": "empty", "timestamp": "-", "payload": "p1", "metadata": ""},
            {"stream": "stream2", "name": "EventB", "event_id": U1, "expected": "0", "timestamp": "1700000000123", "payload": "", "metadata": "m2"}]}));
    push("eget", &Cmd::eget(u1), json!({"event_id": U1}));
    push("epscan_by_key(end none)", &Cmd::epscan_by_key(u1, 5, None, None), json!({"partition": U1, "start": "5", "end": "+", "count": "100"}));
    push("epscan_by_id", &Cmd::epscan_by_id(42, 0, Some(200), Some(50)), json!({"partition": "42", "start": "0", "end": "200", "count": "50"}));
    push("escan", &Cmd::escan("my-stream", 0, Some(100), Some(50)), json!({"stream": "my-stream", "start": "0", "end": "100", "partition_key": "-", "count": "50"}));
    push("escan(end none)", &Cmd::escan("my-stream", 3, None, None), json!({"stream": "my-stream", "start": "3", "end": "+", "partition_key": "-", "count": "100"}));
    push("escan_with_partition_key", &Cmd::escan_with_partition_key("my-stream", u1, 0, None, Some(5)), json!({"stream": "my-stream", "start": "0", "end": "+", "partition_key": U1, "count": "5"}));
    push("epseq_by_key", &Cmd::epseq_by_key(u1), json!({"partition": U1}));
    push("epseq_by_id", &Cmd::epseq_by_id(65535), json!({"partition": "65535"}));
    push("esver", &Cmd::esver("my-stream"), json!({"stream": "my-stream", "partition_key": "-"}));
    push("esver_with_partition_key", &Cmd::esver_with_partition_key("my-stream", u1), json!({"stream": "my-stream", "partition_key": U1}));
    push("esub", &Cmd::esub("user-1"), stream_den("user-1", None, None, None));
    push("esub_with_partition_key", &Cmd::esub_with_partition_key("user-1", u1), stream_den("user-1", Some(U1), None, None));
    push("esub_from_version", &Cmd::esub_from_version("user-1", 50), stream_den("user-1", None, Some(50), None));
    push("esub_with_partition_and_version", &Cmd::esub_with_partition_and_version("user-1", u1, 0), stream_den("user-1", Some(U1), Some(0), None));
    push("epsub_by_id", &Cmd::epsub_by_id(5), part_den("5", json!({"k": "none"}), None));
    push("epsub_by_id_from_sequence", &Cmd::epsub_by_id_from_sequence(5, 100), part_den("5", all(100), None));
    push("epsub_by_key", &Cmd::epsub_by_key(u1), part_den(U1, json!({"k": "none"}), None));
    push("epsub_by_key_from_sequence", &Cmd::epsub_by_key_from_sequence(u1, 9), part_den(U1, all(9), None));
    push("eack", &Cmd::eack(u1, 1000), json!({"subscription_id": U1, "cursor": "1000"}));

    // ---- SubscriptionManager functions, captured on a loopback endpoint
    let captured = Arc::new(Mutex::new(vec![]));
    let port = capture_server(captured.clone()).await;
    let mut sub_calls: Vec<(String, Value)> = vec![];
    match redis::Client::open(format!("redis://127.0.0.1:{port}/?protocol=resp3")) {
        Ok(client) => match tokio::time::timeout(Duration::from_secs(10), SubscriptionManager::new(&client)).await {
            Ok(Ok(mut m)) => {
                macro_rules! call {
                    ($name:expr, $den:expr, $e:expr) => {{
                        let before = captured.lock().unwrap().len();
                        let _ = tokio::time::timeout(Duration::from_secs(5), $e).await;
                        tokio::time::sleep(Duration::from_millis(20)).await;
                        if captured.lock().unwrap().len() > before {
                            sub_calls.push(($name.to_string(), $den));
                        } else {
                            rep.add("client_calls_not_captured", 1);
                        }
                    }};
                }
                call!("subscribe_to_stream", stream_den("user-1", None, None, None), m.subscribe_to_stream("user-1"));
                call!("subscribe_to_stream_with_window", stream_den("user-1", None, None, Some(100)), m.subscribe_to_stream_with_window("user-1", 100));
                call!("subscribe_to_stream_from_version", stream_den("user-1", None, Some(50), None), m.subscribe_to_stream_from_version("user-1", 50));
                call!("subscribe_to_stream_from_version_with_window", stream_den("user-1", None, Some(50), Some(7)), m.subscribe_to_stream_from_version_with_window("user-1", 50, 7));
                call!("subscribe_to_stream_with_partition_key", stream_den("user-1", Some(U1), None, None), m.subscribe_to_stream_with_partition_key("user-1", u1));
                call!("subscribe_to_stream_with_partition_and_version_and_window", stream_den("user-1", Some(U1), Some(3), Some(9)), m.subscribe_to_stream_with_partition_and_version_and_window("user-1", u1, 3, 9));
                call!("subscribe_to_stream_from_latest", json!({"streams": [{"s": "user-1", "pk": "-"}], "from": {"k": "latest"}, "window": "-"}), m.subscribe_to_stream_from_latest("user-1"));
                call!("subscribe_to_partition", part_den("5", json!({"k": "none"}), None), m.subscribe_to_partition(5));
                call!("subscribe_to_partition_with_window", part_den("5", json!({"k": "none"}), Some(10)), m.subscribe_to_partition_with_window(5, 10));
                call!("subscribe_to_partition_from_sequence_with_window", part_den("5", all(100), Some(50)), m.subscribe_to_partition_from_sequence_with_window(5, 100, 50));
                call!("subscribe_to_partition_key", part_den(U1, json!({"k": "none"}), None), m.subscribe_to_partition_key(u1));
                call!("subscribe_to_partition_key_from_sequence", part_den(U1, all(4), None), m.subscribe_to_partition_key_from_sequence(u1, 4));
                call!("subscribe_to_partitions(list)", part_den("1,2,3", all(1000), Some(500)), m.subscribe_to_partitions("1,2,3", 1000, Some(500)));
                call!("subscribe_to_partitions(range)", part_den("0-127", all(0), None), m.subscribe_to_partitions("0-127", 0, None));
                call!("subscribe_to_partition_range", part_den("2-4", all(7), None), m.subscribe_to_partition_range(2, 4, 7, None));
                call!("subscribe_to_partitions_with_sequences", part_den("1", json!({"k": "map", "m": [{"p": "1", "v": "100"}], "d": "-"}), Some(5)), m.subscribe_to_partitions_with_sequences(HashMap::from([(1u16, 100u64)]), Some(5)));
                call!("subscribe_to_all_partitions", part_den("*", all(1000), Some(100)), m.subscribe_to_all_partitions(1000, Some(100)));
                call!("subscribe_to_all_partitions_from_latest", part_den("*", json!({"k": "latest"}), None), m.subscribe_to_all_partitions_from_latest());
                call!("subscribe_to_all_partitions_with_fallback", part_den("*", json!({"k": "map", "m": [{"p": "1", "v": "100"}], "d": "0"}), None), m.subscribe_to_all_partitions_with_fallback(HashMap::from([(1u16, 100u64)]), 0, None));
            }
            other => {
                rep.set("subscription_manager", json!(format!("could not connect to the capture endpoint: {:?}", other.map(|r| r.map(|_| ()).map_err(|e| e.to_string())))));
            }
        },
        Err(e) => rep.set("subscription_manager", json!(format!("client open failed: {e}"))),
    }
    let frames = captured.lock().unwrap().clone();
    for (i, (name, den)) in sub_calls.iter().enumerate() {
        if let Some(f) = frames.get(i) {
            cases.push((format!("SubscriptionManager::{name}"), f.clone(), den.clone()));
        }
    }

    let mut reported = std::collections::BTreeSet::new();
    for (f, toks, den) in &cases {
        rep.eval(1);
        let cmd = toks[0].to_uppercase();
        rep.class(format!("{cmd}:{}", f.split('(').next().unwrap()));
        let args = toks[1..].to_vec();
        let res = match hcommon::catch(std::panic::AssertUnwindSafe(|| check_row(&cmd, &args, den))) {
            Ok(r) => r,
            Err(p) => Err(format!("panic: {p}")),
        };
        if let Err(e) = res {
            let sel = den.get("sel").and_then(|s| s.as_str()).unwrap_or("");
            let form = if uuid::Uuid::parse_str(sel).is_ok() { "partition-key-selector" } else if sel.contains('-') { "partition-range-selector" } else { "other" };
            let what = if e.starts_with("rejected") { "client-form-rejected" } else { "client-form-misparsed" };
            let key = format!("c21:{what}:{cmd}:{form}");
            if reported.insert(key.clone()) {
                rep.violation(&key, json!({"client_function": f, "emits": toks.join(" "), "problem": e}), json!({"function": f, "tokens": toks, "denotes": den}));
            } else {
                rep.violations += 1;
            }
        }
        if rep.samples.len() < 3 {
            rep.sample(json!({"client_function": f, "emits": toks.join(" ")}));
        }
    }
    rep.set("client_forms", json!(cases.len()));
    rep.set("captured_subscription_commands", json!(frames.len()));
    let _ = SystemTime::now();
}
