//! C09: real subscriptions on the real ClusterActor, recorded as traces for TraceSub.tla.
//! Events are put on disk unconfirmed (count 0, replication factor 3) and confirmed later
//! through the real ConfirmTransaction handler; the subscriber's receive / acknowledge loop is
//! the harness; a hook point between history batches lets a scenario advance the watermark in
//! the middle of a history read.
use std::collections::{HashMap, HashSet};
use std::io::Write;
use std::sync::{Arc, Condvar, Mutex};
use std::time::Duration;

use hcommon::Report;
use rand::{RngExt, SeedableRng};
use serde_json::{Value, json};
use sierradb::StreamId;
use sierradb::database::Database;
use sierradb_cluster::subscription::{FromSequences, FromVersions, Subscribe, SubscriptionEvent, SubscriptionMatcher};
use sierradb_cluster::write::confirm::ConfirmTransaction;
use tokio::sync::{mpsc, watch};
use uuid::Uuid;

use crate::node::*;
use crate::watermark::open_db;

#[derive(Clone)]
struct Tx {
    evs: Vec<Ev>,
}

/// `shape`: list of (stream, number of events); the first `confirmed` transactions get count 2
async fn build(db: &Database, key: Uuid, shape: &[(&str, usize)], confirmed: usize) -> Result<Vec<Tx>, String> {
    let mut vers = HashMap::new();
    let mut out = vec![];
    for (i, (s, n)) in shape.iter().enumerate() {
        let evs = append(db, 0, key, &vec![*s; *n], if i < confirmed { 2 } else { 0 }, &mut vers).await?;
        out.push(Tx { evs });
    }
    Ok(out)
}

#[derive(Clone, Copy, PartialEq, Debug)]
enum Kind {
    Partition,
    Partitions,
    Stream,
    Streams,
}

struct Gate {
    st: Mutex<(bool, bool, u64)>, // (armed, parked, skip)
    cv: Condvar,
}

struct Scenario {
    name: String,
    kind: Kind,
    shape: Vec<(&'static str, usize)>,
    confirmed: usize,
    from: u64,       // start position (sequence for partition kinds, version for stream kinds)
    window: u64,
    /// park the subscription task at its n-th history batch (1-based) and confirm everything meanwhile
    park_at_batch: Option<u64>,
    /// confirm every transaction at once while the consumer is stalled: with more than 1000 events (the capacity of
    /// the broadcast ring) the subscription falls behind (Lagged) and has to re-read history
    burst: bool,
    seed: u64,
}

async fn run(sc: &Scenario, cluster: &kameo::actor::ActorRef<sierradb_cluster::ClusterActor>, root: &std::path::Path, gate: &Arc<Gate>, out: &mut Vec<Value>) -> Result<(), String> {
    let mut rng = rand::rngs::StdRng::seed_from_u64(sc.seed);
    let db = open_db(&fresh_dir(root, "sub"), 1);
    let key = key_for_partition(0, 555);
    let txs = build(&db, key, &sc.shape, sc.confirmed).await?;
    reset(cluster, db.clone()).await?;
    let all: Vec<&Ev> = txs.iter().flat_map(|t| t.evs.iter()).collect();
    let w0: u64 = txs[..sc.confirmed].iter().map(|t| t.evs.len() as u64).sum();
    // lanes
    let lane_names: Vec<String> = match sc.kind {
        Kind::Partition | Kind::Partitions => vec!["p0".into()],
        Kind::Stream => vec!["a".into()],
        Kind::Streams => vec!["a".into(), "b".into()],
    };
    let lanes: Vec<Value> = lane_names
        .iter()
        .map(|ln| {
            let seqs: Vec<u64> = all.iter().filter(|e| if ln == "p0" { e.seq >= sc.from } else { e.stream == *ln && e.ver >= sc.from }).map(|e| e.seq).collect();
            json!({"name": ln, "seqs": seqs})
        })
        .collect();
    out.push(json!({"e": "start", "scenario": sc.name, "lanes": lanes, "window": sc.window, "w0": w0}));
    let matcher = match sc.kind {
        Kind::Partition => SubscriptionMatcher::Partition { partition_id: 0, from_sequence: Some(sc.from) },
        Kind::Partitions => SubscriptionMatcher::Partitions { partition_ids: HashSet::from([0u16, 1u16]), from_sequences: FromSequences::AllPartitions(sc.from) },
        Kind::Stream => SubscriptionMatcher::Stream { partition_key: key, stream_id: StreamId::new("a".to_string()).unwrap(), from_version: Some(sc.from) },
        Kind::Streams => SubscriptionMatcher::Streams {
            stream_ids: HashSet::from([(key, StreamId::new("a".to_string()).unwrap()), (key, StreamId::new("b".to_string()).unwrap())]),
            from_versions: FromVersions::AllStreams(sc.from),
        },
    };
    let (ack_tx, ack_rx) = watch::channel(None);
    let (update_tx, mut update_rx) = mpsc::unbounded_channel();
    if let Some(n) = sc.park_at_batch {
        *gate.st.lock().unwrap() = (true, false, n - 1);
    }
    cluster
        .ask(Subscribe { subscription_id: Uuid::new_v4(), matcher, last_ack_rx: ack_rx, update_tx, window_size: sc.window })
        .await
        .map_err(|e| format!("subscribe failed: {e}"))?;
    let mut next_confirm = sc.confirmed;
    let mut w = w0;
    let mut received = 0u64;
    let mut acked = 0u64;
    let mut idle_rounds = 0;
    let confirm_one = |t: &Tx| ConfirmTransaction {
        partition_id: 0,
        transaction_id: t.evs[0].tx,
        event_ids: t.evs.iter().map(|e| e.id).collect(),
        confirmation_versions: t.evs.iter().map(|e| e.seq + 1).collect(),
        confirmation_count: 2,
    };
    if sc.burst {
        // let the subscription deliver up to its window, then stall the consumer and confirm everything
        tokio::time::sleep(Duration::from_millis(50)).await;
        while next_confirm < txs.len() {
            w += txs[next_confirm].evs.len() as u64;
            out.push(json!({"e": "confirm", "w": w}));
            cluster.ask(confirm_one(&txs[next_confirm])).await.map_err(|e| format!("ConfirmTransaction failed: {e}"))?;
            next_confirm += 1;
        }
    }
    loop {
        // the scenario that parks the history read: once parked, confirm everything, then let it go
        if sc.park_at_batch.is_some() && gate.st.lock().unwrap().1 {
            while next_confirm < txs.len() {
                w += txs[next_confirm].evs.len() as u64;
                out.push(json!({"e": "confirm", "w": w}));
                cluster.ask(confirm_one(&txs[next_confirm])).await.map_err(|e| format!("ConfirmTransaction failed: {e}"))?;
                next_confirm += 1;
            }
            tokio::time::sleep(Duration::from_millis(30)).await;
            let mut g = gate.st.lock().unwrap();
            *g = (false, false, 0);
            gate.cv.notify_all();
        }
        match tokio::time::timeout(Duration::from_millis(120), update_rx.recv()).await {
            Ok(Some(SubscriptionEvent::Record { cursor, record, .. })) => {
                idle_rounds = 0;
                let lane = match sc.kind {
                    Kind::Partition | Kind::Partitions => 1,
                    _ => 1 + lane_names.iter().position(|n| *n == record.stream_id.as_ref()).unwrap_or(9),
                };
                out.push(json!({"e": "record", "seq": record.partition_sequence, "cursor": cursor, "lane": lane, "ver": record.stream_version}));
                received += 1;
                // acknowledge now and then (always when the window is exhausted)
                if received - acked >= sc.window || rng.random_range(0..3) == 0 {
                    acked = received;
                    out.push(json!({"e": "ack", "a": acked}));
                    let _ = ack_tx.send(Some(acked - 1));
                }
            }
            Ok(Some(SubscriptionEvent::Error { error, .. })) => return Err(format!("subscription error: {error}")),
            Ok(Some(SubscriptionEvent::Closed { .. })) | Ok(None) => return Err("subscription closed".into()),
            Err(_) => {
                // nothing arrived: acknowledge what is outstanding, confirm the next transaction, or rest
                if acked < received {
                    acked = received;
                    out.push(json!({"e": "ack", "a": acked}));
                    let _ = ack_tx.send(Some(acked - 1));
                    continue;
                }
                if sc.park_at_batch.is_none() && next_confirm < txs.len() {
                    let k = 1 + rng.random_range(0..3usize).min(txs.len() - next_confirm - 1);
                    for _ in 0..k {
                        w += txs[next_confirm].evs.len() as u64;
                        out.push(json!({"e": "confirm", "w": w}));
                        cluster.ask(confirm_one(&txs[next_confirm])).await.map_err(|e| format!("ConfirmTransaction failed: {e}"))?;
                        next_confirm += 1;
                    }
                    idle_rounds = 0;
                    continue;
                }
                idle_rounds += 1;
                if idle_rounds >= 6 {
                    out.push(json!({"e": "rest"}));
                    break;
                }
            }
        }
    }
    drop(update_rx);
    db.shutdown().await;
    Ok(())
}

pub async fn subs_cmd(rep: &mut Report, out_path: &str) {
    let quick = hcommon::tier_quick();
    let root = std::env::current_dir().unwrap().join(format!("subs-{}", std::process::id()));
    let _ = std::fs::remove_dir_all(&root);
    std::fs::create_dir_all(&root).unwrap();
    let boot = open_db(&fresh_dir(&root, "boot"), 1);
    let cluster = start_cluster(boot, 3).await;
    // hook: park the subscription task at a chosen history batch
    let gate = Arc::new(Gate { st: Mutex::new((false, false, 0)), cv: Condvar::new() });
    {
        let gate = gate.clone();
        sierradb::verif::install(Arc::new(move |name, _| {
            if name == "sub.hist.stream_batch" || name == "sub.hist.partition_batch" {
                let mut g = gate.st.lock().unwrap();
                if g.0 {
                    if g.2 > 0 {
                        g.2 -= 1;
                        return;
                    }
                    g.1 = true;
                    while g.0 {
                        g = gate.cv.wait(g).unwrap();
                    }
                }
            }
        }));
    }
    let long_a: Vec<(&'static str, usize)> = (0..70).map(|i| if i % 7 == 3 { ("b", 1) } else if i % 11 == 5 { ("a", 2) } else { ("a", 1) }).collect();
    let mixed: Vec<(&'static str, usize)> = vec![("a", 1), ("b", 2), ("a", 2), ("b", 1), ("a", 1), ("a", 1), ("b", 1), ("a", 2)];
    let mut scenarios = vec![];
    let mut seed = hcommon::seed() * 1000;
    for kind in [Kind::Partition, Kind::Stream, Kind::Streams, Kind::Partitions] {
        for (confirmed, from, window) in [(0usize, 0u64, 2u64), (3, 0, 1), (3, 2, 50), (8, 1, 3)] {
            seed += 1;
            scenarios.push(Scenario { name: format!("{kind:?} mixed confirmed={confirmed} from={from} window={window}"), kind, shape: mixed.clone(), confirmed, from, window, park_at_batch: None, burst: false, seed });
        }
        // history longer than one batch (50 commits), watermark advanced while it is being read
        for park in [1u64, 2] {
            seed += 1;
            scenarios.push(Scenario { name: format!("{kind:?} long park@{park}"), kind, shape: long_a.clone(), confirmed: 30, from: 0, window: 1000, park_at_batch: Some(park), burst: false, seed });
        }
        // more events than the broadcast ring holds, confirmed in one burst while the consumer is stalled
        if kind == Kind::Partition || (!quick && kind == Kind::Stream) {
            seed += 1;
            let shape: Vec<(&'static str, usize)> = (0..1150).map(|i| if i % 13 == 6 { ("b", 1) } else { ("a", 1) }).collect();
            scenarios.push(Scenario { name: format!("{kind:?} burst of 1150 over the ring"), kind, shape, confirmed: 3, from: 0, window: 4, park_at_batch: None, burst: true, seed });
        }
        if !quick {
            for (confirmed, window) in [(10usize, 5u64), (55, 7), (70, 3)] {
                seed += 1;
                scenarios.push(Scenario { name: format!("{kind:?} long confirmed={confirmed} window={window}"), kind, shape: long_a.clone(), confirmed, from: 0, window, park_at_batch: None, burst: false, seed });
            }
        }
    }
    let mut f = std::io::BufWriter::new(std::fs::File::create(out_path).unwrap());
    let mut lines = 0u64;
    let mut records = 0u64;
    for sc in &scenarios {
        rep.eval(1);
        rep.class(format!("{:?} park={:?} long={} burst={}", sc.kind, sc.park_at_batch, sc.shape.len() > 20, sc.burst));
        let mut out = vec![];
        let res = run(sc, &cluster, &root, &gate, &mut out).await;
        {
            let mut g = gate.st.lock().unwrap();
            *g = (false, false, 0);
            gate.cv.notify_all();
        }
        if let Err(e) = res {
            rep.violation("c09:subscription-failed", json!({"scenario": sc.name, "problem": e}), json!({"scenario": sc.name}));
        }
        records += out.iter().filter(|l| l["e"] == "record").count() as u64;
        for l in &out {
            writeln!(f, "{l}").unwrap();
        }
        lines += out.len() as u64;
        if rep.samples.len() < 2 {
            rep.sample(json!({"scenario": sc.name, "trace_head": out.iter().take(12).collect::<Vec<_>>()}));
        }
    }
    f.flush().unwrap();
    sierradb::verif::clear();
    let _ = std::fs::remove_dir_all(&root);
    rep.set("scenarios", json!(scenarios.len()));
    rep.set("trace_lines", json!(lines));
    rep.set("records", json!(records));
}
