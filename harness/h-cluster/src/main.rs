//! Harness for the cluster layer (crates/sierradb-cluster): circuit breaker schedules,
//! confirmation watermarks, replicator, reads, subscriptions, virtual cluster.
use hcommon::Report;

mod breaker;
mod node;
mod reads;
mod replicator;
mod subs;
mod vcluster;
mod watermark;

fn main() {
    if std::env::var("VERIF_LOUD").is_err() {
        hcommon::quiet_panics();
    }
    let args: Vec<String> = std::env::args().collect();
    let mut rep = Report::new();
    let rt = tokio::runtime::Builder::new_multi_thread().worker_threads(8).enable_all().build().unwrap();
    match args[1].as_str() {
        "reads" => rt.block_on(reads::reads_cmd(&mut rep, &args[2], args[3].parse().unwrap())),
        "replicator" => rt.block_on(replicator::replicator_cmd(&mut rep, &args[2])),
        "vcluster" => rt.block_on(vcluster::vcluster_cmd(&mut rep, &args[2])),
        "subs" => rt.block_on(subs::subs_cmd(&mut rep, &args[2])),
        "watermark" => rt.block_on(watermark::watermark_cmd(&mut rep, &args[2])),
        "breaker" => breaker::breaker_cmd(&mut rep, &args[2], &args[3], args.get(4).map(|s| s.as_str()).unwrap_or("conform")),
        other => panic!("unknown subcommand {other}"),
    }
    rep.finish();
    std::process::exit(0);
}
