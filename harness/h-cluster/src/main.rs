fn main() {}
