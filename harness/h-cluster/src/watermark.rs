//! C08: replay of Watermark.tla behaviours on the real BucketConfirmationManager.
//! report(v, c)  -> the on-disk count of the event is raised (Database::set_confirmations,
//!                  as the write path does before reporting) and update_confirmation(v, c)
//!                  is called; the watermark must be the specification's after every step
//! persist       -> the real persist_bucket_state runs once; hook points between its steps
//!                  snapshot the confirmation directory (crash images)
//! crash(k)      -> the manager is dropped; the confirmation files are those of snapshot k
//! restart       -> a fresh manager is initialised on those files and the database
use std::collections::HashSet;
use std::path::{Path, PathBuf};
use std::sync::{Arc, Mutex};

use hcommon::{Report, read_ndjson};
use serde_json::{Value, json};
use sierradb::StreamId;
use sierradb::database::{Database, DatabaseBuilder, ExpectedVersion, NewEvent, Transaction};
use sierradb::id::{uuid_to_partition_hash, uuid_v7_with_partition_hash};
use sierradb_cluster::confirmation::BucketConfirmationManager;
use smallvec::{SmallVec, smallvec};
use uuid::Uuid;

fn copy_dir(src: &Path, dst: &Path) {
    let _ = std::fs::remove_dir_all(dst);
    std::fs::create_dir_all(dst).unwrap();
    if let Ok(rd) = std::fs::read_dir(src) {
        for e in rd.flatten() {
            if e.file_type().unwrap().is_file() {
                std::fs::copy(e.path(), dst.join(e.file_name())).unwrap();
            }
        }
    }
}

pub fn open_db(dir: &Path, nb: u16) -> Database {
    let mut b = DatabaseBuilder::new();
    b.segment_size_bytes(256 * 1024)
        .total_buckets(nb)
        .bucket_ids(Arc::from((0..nb).collect::<Vec<_>>()))
        .writer_threads(1)
        .reader_threads(2)
        .sync_interval(std::time::Duration::from_millis(1))
        .min_sync_bytes(1)
        .max_batch_size(1);
    b.open(dir).expect("open database")
}

struct EvRef {
    offset: u64,
    tx: Uuid,
}

/// appends n events as transactions of 1 or 2 events; returns per version its offset and transaction id
async fn build_events(db: &Database, n: usize) -> Vec<EvRef> {
    let key = Uuid::from_u128(0x77);
    let hash = uuid_to_partition_hash(key);
    let mut out = vec![];
    let mut v = 0;
    let mut k = 0;
    while v < n {
        let m = if k % 2 == 1 && v + 2 <= n { 2 } else { 1 };
        let evs: SmallVec<[NewEvent; 4]> = (0..m)
            .map(|_| NewEvent {
                event_id: uuid_v7_with_partition_hash(hash),
                stream_id: StreamId::new("w".to_string()).unwrap(),
                stream_version: ExpectedVersion::Any,
                event_name: "E".into(),
                timestamp: 1_700_000_000_000_000_000,
                metadata: vec![],
                payload: vec![k as u8; 16],
            })
            .collect();
        let tx = Transaction::new(key, 0, evs).unwrap();
        let txid = tx.transaction_id();
        let r = db.append_events(tx).await.expect("setup append");
        for o in r.offsets.iter() {
            out.push(EvRef { offset: *o, tx: txid });
        }
        v += m;
        k += 1;
    }
    out
}

async fn run_one(beh: &Value, root: &Path, snaps: &Arc<Mutex<Vec<(String, PathBuf)>>>, conf_dir_cell: &Arc<Mutex<Option<PathBuf>>>) -> Result<u64, String> {
    let n = beh["n"].as_u64().unwrap() as usize;
    let rf = beh["rf"].as_u64().unwrap() as u8;
    let dir = root.join("db");
    let _ = std::fs::remove_dir_all(&dir);
    let db = open_db(&dir, 1);
    let conf_dir = dir.join("buckets").join("00000").join("confirmation");
    *conf_dir_cell.lock().unwrap() = Some(conf_dir.clone());
    let mut disk = vec![0u8; n + 1];
    let parts: HashSet<u16> = [0u16].into();
    // the manager starts on an empty database and the events are appended afterwards, as in a running node: an event
    // nobody has reported yet has no entry in the manager (after a restart every event on disk has one)
    let mut mgr = Some(BucketConfirmationManager::new(dir.clone(), 1, rf, parts.clone()));
    mgr.as_mut().unwrap().initialize(&db).await.map_err(|e| format!("initialize failed: {e}"))?;
    let evs = build_events(&db, n).await;
    let wm = |m: &BucketConfirmationManager| m.get_watermark(0).map(|w| w.get()).unwrap_or(0);
    let mut done = 0u64;
    let mut persisted_this_round = false;
    let mut admin_round = false;
    let mut last_w = 0u64;
    for (i, st) in beh["steps"].as_array().unwrap().iter().enumerate() {
        match st["op"].as_str().unwrap() {
            "report" => {
                let v = st["v"].as_u64().unwrap() as usize;
                let c = st["c"].as_u64().unwrap() as u8;
                if c > disk[v] {
                    db.set_confirmations(0, smallvec![evs[v - 1].offset], evs[v - 1].tx, c).await.map_err(|e| format!("step {i}: set_confirmations failed: {e}"))?;
                    disk[v] = c;
                }
                let m = mgr.as_mut().ok_or("report while down")?;
                m.update_confirmation(0, v as u64, c).await.map_err(|e| format!("step {i}: update_confirmation failed: {e}"))?;
                let w = wm(m);
                if w != st["w"].as_u64().unwrap() {
                    return Err(format!("step {i}: after report(version {v}, count {c}) the watermark is {w}, specification {}", st["w"]));
                }
                if w < last_w {
                    return Err(format!("step {i}: watermark went back from {last_w} to {w}"));
                }
                last_w = w;
                persisted_this_round = false;
            }
            "force" | "skip" => {
                // administrative operations: advance in memory and, when they advanced, persist at once (hook snapshots as for
                // a persistence round; the model's following persist steps are marked `admin` and are not run again)
                snaps.lock().unwrap().clear();
                copy_dir(&conf_dir, &root.join("snap-0"));
                let m = mgr.as_mut().ok_or("admin operation while down")?;
                let before = wm(m);
                if st["op"] == "force" {
                    let to = st["to"].as_u64().unwrap();
                    m.admin_force_watermark(0, to).await.map_err(|e| format!("step {i}: admin_force_watermark failed: {e}"))?;
                } else {
                    let v = st["v"].as_u64().unwrap();
                    let adv = m.admin_skip_event(0, v).await.map_err(|e| format!("step {i}: admin_skip_event failed: {e}"))?;
                    if adv != (st["w"].as_u64().unwrap() > before) {
                        return Err(format!("step {i}: admin_skip_event({v}) reported advanced={adv}, specification watermark {} -> {}", before, st["w"]));
                    }
                }
                let w = wm(m);
                if w != st["w"].as_u64().unwrap() {
                    return Err(format!("step {i}: after {} the watermark is {w}, specification {}", st, st["w"]));
                }
                if w < last_w {
                    return Err(format!("step {i}: watermark went back from {last_w} to {w}"));
                }
                persisted_this_round = w > before;
                admin_round = w > before;
                last_w = w;
            }
            "persist" => {
                if st["admin"].as_bool().unwrap_or(false) {
                    // the real call already ran the whole round; the model walks through its steps
                    if st["step"].as_u64().unwrap() == 4 {
                        admin_round = false;
                    }
                } else if st["step"].as_u64().unwrap() == 1 {
                    snaps.lock().unwrap().clear();
                    // snapshot 0 = files before this persistence round
                    let s0 = root.join("snap-0");
                    copy_dir(&conf_dir, &s0);
                    let m = mgr.as_mut().ok_or("persist while down")?;
                    m.persist_bucket_state(0).await.map_err(|e| format!("step {i}: persist failed: {e}"))?;
                    persisted_this_round = true;
                }
            }
            "crash" => {
                let k = st["after_step"].as_u64().unwrap();
                mgr = None;
                last_w = 0;
                // inside an administrative round the real call has already persisted everything: also a crash before its
                // first step (k = 0) goes back to the files as they were before the call
                if k > 0 || admin_round {
                    if !persisted_this_round {
                        return Err(format!("step {i}: harness bookkeeping: crash inside a persistence round that did not start"));
                    }
                    // files as they were after step k of the round: the latest hook snapshot at or before k
                    let order = ["cf.persist.temp_written", "cf.persist.prev_removed", "cf.persist.cur_renamed", "cf.persist.done"];
                    let g = snaps.lock().unwrap();
                    let mut src = root.join("snap-0");
                    for (name, p) in g.iter() {
                        let idx = order.iter().position(|o| o == name).unwrap() as u64 + 1;
                        if idx <= k {
                            src = p.clone();
                        }
                    }
                    copy_dir(&src, &conf_dir);
                }
                persisted_this_round = false;
                admin_round = false;
            }
            "restart" => {
                let mut m = BucketConfirmationManager::new(dir.clone(), 1, rf, parts.clone());
                m.initialize(&db).await.map_err(|e| format!("step {i}: initialize after restart failed: {e}"))?;
                let w = wm(&m);
                if w != st["w"].as_u64().unwrap() {
                    return Err(format!("step {i}: after restart the watermark is {w}, specification {}", st["w"]));
                }
                // the state files alone: a manager initialised on the same files over a database
                // that holds no events gives back exactly what was loaded
                {
                    let edir = root.join("files-only");
                    let _ = std::fs::remove_dir_all(&edir);
                    let edb = open_db(&edir, 1);
                    let econf = edir.join("buckets").join("00000").join("confirmation");
                    copy_dir(&conf_dir, &econf);
                    let mut m2 = BucketConfirmationManager::new(edir.clone(), 1, rf, parts.clone());
                    m2.initialize(&edb).await.map_err(|e| format!("step {i}: initialize on the state files alone failed: {e}"))?;
                    let lw = wm(&m2);
                    drop(m2);
                    edb.shutdown().await;
                    // (update_confirmation also persists on its own - on the first update and then every
                    // 100 changes or 5 s -, so the files may be newer than the model's, never older)
                    if lw < st["lw"].as_u64().unwrap() {
                        return Err(format!("step {i}: restart from the state files alone gives watermark {lw}, the specification's files give at least {} (files: {:?})", st["lw"],
                            std::fs::read_dir(&conf_dir).map(|d| d.flatten().map(|e| e.file_name().to_string_lossy().to_string()).collect::<Vec<_>>()).unwrap_or_default()));
                    }
                }
                last_w = w;
                mgr = Some(m);
            }
            other => panic!("unknown op {other}"),
        }
        done += 1;
    }
    drop(mgr);
    db.shutdown().await;
    Ok(done)
}

pub async fn watermark_cmd(rep: &mut Report, plans: &str) {
    let behs = read_ndjson(plans);
    let root = std::env::current_dir().unwrap().join(format!("wm-{}", std::process::id()));
    let _ = std::fs::remove_dir_all(&root);
    std::fs::create_dir_all(&root).unwrap();
    let snaps: Arc<Mutex<Vec<(String, PathBuf)>>> = Arc::new(Mutex::new(vec![]));
    let conf_dir: Arc<Mutex<Option<PathBuf>>> = Arc::new(Mutex::new(None));
    {
        let snaps = snaps.clone();
        let conf_dir = conf_dir.clone();
        let root = root.clone();
        sierradb::verif::install(Arc::new(move |name, _| {
            if name.starts_with("cf.persist.") {
                if let Some(c) = conf_dir.lock().unwrap().clone() {
                    let dst = root.join(format!("snap-{name}"));
                    copy_dir(&c, &dst);
                    snaps.lock().unwrap().push((name.to_string(), dst));
                }
            }
        }));
    }
    let mut reported = std::collections::BTreeSet::new();
    let mut steps = 0;
    for beh in &behs {
        rep.eval(1);
        let ops: Vec<&str> = beh["steps"].as_array().unwrap().iter().map(|s| s["op"].as_str().unwrap()).collect();
        let crash_at: Vec<u64> = beh["steps"].as_array().unwrap().iter().filter(|s| s["op"] == "crash").map(|s| s["after_step"].as_u64().unwrap()).collect();
        rep.class(format!("rf={} crashes={:?} persists={} admin={}", beh["rf"], crash_at, ops.iter().filter(|o| **o == "persist").count().min(1), ops.iter().filter(|o| **o == "force" || **o == "skip").count().min(2)));
        let r = tokio::spawn({
            let beh = beh.clone();
            let root = root.clone();
            let snaps = snaps.clone();
            let conf_dir = conf_dir.clone();
            async move { run_one(&beh, &root, &snaps, &conf_dir).await }
        })
        .await;
        match r {
            Ok(Ok(n)) => steps += n,
            Ok(Err(e)) => {
                let key = if e.contains("restart") { "c08:restart-watermark" } else if e.contains("went back") { "c08:watermark-regressed" } else { "c08:watermark-differs" };
                if reported.insert(key) {
                    rep.violation(key, json!({"problem": e, "rf": beh["rf"], "target": beh["target"]}), json!({"behaviour": beh}));
                } else {
                    rep.violations += 1;
                }
            }
            Err(_) => {
                if reported.insert("c08:panic") {
                    rep.violation("c08:panic", json!({"problem": hcommon::last_panic()}), json!({"behaviour": beh}));
                }
            }
        }
        if rep.samples.len() < 2 {
            rep.sample(json!({"rf": beh["rf"], "target": beh["target"], "steps": beh["steps"]}));
        }
    }
    sierradb::verif::clear();
    let _ = std::fs::remove_dir_all(&root);
    rep.set("behaviours", json!(behs.len()));
    rep.set("steps_replayed", json!(steps));
}
