//! The one real ClusterActor of this process (kameo's global registry allows only one) and
//! helpers to put a database under it (`ResetCluster`, the repository's own test message).
use std::collections::HashSet;
use std::path::Path;
use std::time::Duration;

use kameo::actor::{ActorRef, Spawn};
use libp2p::identity::Keypair;
use sierradb::StreamId;
use sierradb::database::{Database, ExpectedVersion, NewEvent, Transaction};
use sierradb::id::{uuid_to_partition_hash, uuid_v7_with_partition_hash};
use sierradb_cluster::{ClusterActor, ClusterArgs, ResetCluster};
use smallvec::SmallVec;
use uuid::Uuid;

pub const PARTITIONS: u16 = 2;

pub async fn start_cluster(db: Database, rf: u8) -> ActorRef<ClusterActor> {
    let cluster_ref = ClusterActor::spawn(ClusterArgs {
        keypair: Keypair::generate_ed25519(),
        database: db,
        listen_addrs: vec![],
        node_count: 1,
        node_index: 0,
        bucket_count: 1,
        partition_count: PARTITIONS,
        replication_factor: rf,
        assigned_partitions: HashSet::from_iter(0..PARTITIONS),
        heartbeat_timeout: Duration::from_millis(1_000),
        heartbeat_interval: Duration::from_millis(6_000),
        replication_buffer_size: 3,
        replication_buffer_timeout: Duration::from_millis(400),
        replication_catchup_timeout: Duration::from_millis(300),
        mdns: false,
    });
    cluster_ref.wait_for_startup().await;
    cluster_ref
}

pub async fn reset(cluster: &ActorRef<ClusterActor>, db: Database) -> Result<(), String> {
    cluster.ask(ResetCluster { database: db }).await.map_err(|e| format!("ResetCluster failed: {e}"))
}

/// a partition key whose hash routes to partition `p`
pub fn key_for_partition(p: u16, salt: u128) -> Uuid {
    let mut x = salt.wrapping_mul(0x9E37_79B9_7F4A_7C15_1234_5678_9ABC_DEF1) | 1;
    loop {
        let k = Uuid::from_u128(x);
        if uuid_to_partition_hash(k) % PARTITIONS == p {
            return k;
        }
        x = x.wrapping_mul(6364136223846793005).wrapping_add(1442695040888963407);
    }
}

#[derive(Clone, Debug)]
pub struct Ev {
    pub id: Uuid,
    pub tx: Uuid,
    pub seq: u64,
    pub stream: String,
    pub ver: u64,
    pub count: u8,
    pub offset: u64,
}

/// appends one transaction of `streams.len()` events to partition `p` with the given on-disk
/// confirmation count; returns its events (sequence, version filled from the result)
pub async fn append(db: &Database, p: u16, key: Uuid, streams: &[&str], count: u8, vers: &mut std::collections::HashMap<String, u64>) -> Result<Vec<Ev>, String> {
    let hash = uuid_to_partition_hash(key);
    let mut evs: SmallVec<[NewEvent; 4]> = SmallVec::new();
    for s in streams {
        evs.push(NewEvent {
            event_id: uuid_v7_with_partition_hash(hash),
            stream_id: StreamId::new(s.to_string()).unwrap(),
            stream_version: ExpectedVersion::Any,
            event_name: "G".into(),
            timestamp: 1_700_000_000_000_000_000,
            metadata: vec![],
            payload: vec![count; 8],
        });
    }
    let ids: Vec<Uuid> = evs.iter().map(|e| e.event_id).collect();
    let tx = Transaction::new(key, p, evs).map_err(|e| format!("transaction: {e}"))?.with_confirmation_count(count);
    let txid = tx.transaction_id();
    let r = db.append_events(tx).await.map_err(|e| format!("append failed: {e}"))?;
    let mut out = vec![];
    for (i, s) in streams.iter().enumerate() {
        let v = vers.entry(s.to_string()).or_insert(0);
        out.push(Ev { id: ids[i], tx: txid, seq: r.first_partition_sequence + i as u64, stream: s.to_string(), ver: *v, count, offset: r.offsets[i] });
        *v += 1;
    }
    Ok(out)
}

pub fn fresh_dir(root: &Path, name: &str) -> std::path::PathBuf {
    let d = root.join(name);
    let _ = std::fs::remove_dir_all(&d);
    std::fs::create_dir_all(&d).unwrap();
    d
}
