//! C12: replay of Replicator.tla behaviours on a real PartitionReplicatorActor (real Database,
//! real ConfirmationActor; catch-up requests are served by the process's real ClusterActor
//! from a coordinator database).  Every delivery is a real `ReplicateWrite` ask; the replies
//! (Ok / StaleWrite / SequenceConflict / BufferFull / BufferEvicted / dropped) and the
//! replica's partition log must be the specification's.
use std::collections::{BTreeMap, HashMap, HashSet};
use std::time::Duration;

use hcommon::{Report, read_ndjson};
use kameo::actor::{ActorRef, Spawn};
use kameo::mailbox;
use serde_json::{Value, json};
use sierradb::database::{Database, ExpectedVersion, NewEvent, Transaction};
use sierradb::id::{set_uuid_flag, uuid_to_partition_hash, uuid_v7_with_partition_hash};
use sierradb::{IterDirection, StreamId};
use sierradb_cluster::ClusterActor;
use sierradb_cluster::confirmation::actor::ConfirmationActor;
use sierradb_cluster::write::error::WriteError;
use sierradb_cluster::write::replicate::{PartitionReplicatorActor, PartitionReplicatorActorArgs, ReplicateWrite};
use smallvec::SmallVec;
use uuid::Uuid;

use crate::node::*;
use crate::watermark::open_db;

pub fn tx_uuid(id: u64, n: usize) -> Uuid {
    set_uuid_flag(Uuid::from_u128(0x7b00_0000_0000_0000_0000_0000_0000_0000u128 | id as u128), n == 1)
}

pub fn make_tx(key: Uuid, p: u16, id: u64, first_seq: u64, n: usize, count: u8, ids: &mut HashMap<u64, Vec<Uuid>>) -> Transaction {
    make_tx_in(key, p, id, first_seq, n, count, ids, &format!("r{id}"))
}

/// the same, with the stream the transaction's events belong to given by the caller
#[allow(clippy::too_many_arguments)]
pub fn make_tx_in(key: Uuid, p: u16, id: u64, first_seq: u64, n: usize, count: u8, ids: &mut HashMap<u64, Vec<Uuid>>, stream: &str) -> Transaction {
    let hash = uuid_to_partition_hash(key);
    let eids = ids.entry(id).or_insert_with(|| (0..n).map(|_| uuid_v7_with_partition_hash(hash)).collect()).clone();
    let evs: SmallVec<[NewEvent; 4]> = (0..n)
        .map(|i| NewEvent {
            event_id: eids[i],
            stream_id: StreamId::new(stream.to_string()).unwrap(),
            stream_version: ExpectedVersion::Any,
            event_name: "R".into(),
            timestamp: 1_700_000_000_000_000_000,
            metadata: vec![],
            payload: vec![id as u8; 8],
        })
        .collect();
    Transaction::new(key, p, evs)
        .unwrap()
        .expected_partition_sequence(ExpectedVersion::from_next_version(first_seq))
        .with_transaction_id(tx_uuid(id, n))
        .with_confirmation_count(count)
}

pub async fn partition_log(db: &Database, p: u16) -> Result<Vec<(Uuid, u8)>, String> {
    let mut it = db.read_partition(p, 0, IterDirection::Forward).await.map_err(|e| format!("read_partition failed: {e}"))?;
    let mut out = vec![];
    while let Some(b) = it.next_batch(50).await.map_err(|e| format!("partition scan failed: {e}"))? {
        for c in b {
            for e in c {
                if e.partition_sequence != out.len() as u64 {
                    return Err(format!("partition log has sequence {} at position {}", e.partition_sequence, out.len()));
                }
                out.push((e.transaction_id, e.confirmation_count));
            }
        }
    }
    Ok(out)
}

fn class_of(r: &Result<sierradb::writer_thread_pool::AppendResult, kameo::error::SendError<ReplicateWrite, WriteError>>) -> String {
    match r {
        Ok(_) => "ok".into(),
        Err(kameo::error::SendError::HandlerError(e)) => match e {
            WriteError::StaleWrite => "stale".into(),
            WriteError::SequenceConflict => "conflict".into(),
            WriteError::BufferFull => "full".into(),
            WriteError::BufferEvicted => "evicted".into(),
            WriteError::WrongExpectedSequence { .. } => "wrongseq".into(),
            other => format!("error:{other}"),
        },
        Err(_) => "dropped".into(),
    }
}

async fn run_one(beh: &Value, root: &std::path::Path, coord: &kameo::actor::RemoteActorRef<ClusterActor>, key: Uuid) -> Result<u64, String> {
    let steps = beh["steps"].as_array().unwrap();
    let has_expire = steps.iter().any(|s| s["op"] == "expire");
    let has_catchup = steps.iter().any(|s| s["op"] == "catchup");
    // which of the two timers fires first is a configuration choice of the replica
    // (generous margins: a loaded machine must not turn a buffered write into an expired one)
    let (buffer_timeout, catchup_timeout) = if has_catchup {
        (Duration::from_millis(20_000), Duration::from_millis(900))
    } else if has_expire {
        (Duration::from_millis(1_500), Duration::from_millis(2_000))
    } else {
        (Duration::from_millis(20_000), Duration::from_millis(20_000))
    };
    debug_assert!(!(has_expire && has_catchup));
    let dir = fresh_dir(root, "replica");
    let db = open_db(&dir, 1);
    let conf = ConfirmationActor::new(db.clone(), 1, HashSet::from_iter(0..PARTITIONS)).await.map_err(|e| format!("confirmation actor: {e}"))?;
    let conf_ref: ActorRef<ConfirmationActor> = Spawn::spawn(conf);
    let replicator = PartitionReplicatorActor::spawn_with_mailbox(
        PartitionReplicatorActorArgs {
            partition_id: 0,
            database: db.clone(),
            confirmation_ref: conf_ref.clone(),
            buffer_size: beh["limit"].as_u64().unwrap() as usize,
            buffer_timeout,
            catchup_timeout,
        },
        mailbox::bounded(100),
    );
    replicator.wait_for_startup().await;
    let mut ids: HashMap<u64, Vec<Uuid>> = HashMap::new();
    let mut pending: BTreeMap<u64, tokio::task::JoinHandle<String>> = BTreeMap::new();
    let mut got: BTreeMap<u64, String> = BTreeMap::new();
    let mut done = 0u64;
    for st in steps {
        match st["op"].as_str().unwrap() {
            "deliver" => {
                let d = st["d"].as_u64().unwrap();
                let tx = make_tx(key, 0, st["id"].as_u64().unwrap(), st["key"].as_u64().unwrap(), st["n"].as_u64().unwrap() as usize, 0, &mut ids);
                let r = replicator.clone();
                let c = coord.clone();
                let mut h = tokio::spawn(async move {
                    let res = r.ask(ReplicateWrite { coordinator_ref: c, coordinator_alive_since: u64::MAX, transaction: tx }).await;
                    class_of(&res)
                });
                // an immediate answer, or the delivery stays buffered
                match tokio::time::timeout(Duration::from_millis(25), &mut h).await {
                    Ok(Ok(c)) => {
                        got.insert(d, c);
                    }
                    Ok(Err(_)) => return Err(format!("delivery {d}: ask task failed: {}", hcommon::last_panic())),
                    Err(_) => {
                        pending.insert(d, h);
                    }
                }
            }
            "expire" => tokio::time::sleep(buffer_timeout + catchup_timeout + Duration::from_millis(250)).await,
            "catchup" => tokio::time::sleep(catchup_timeout + Duration::from_millis(600)).await,
            other => panic!("unknown op {other}"),
        }
        // collect what has been answered meanwhile
        let ready: Vec<u64> = pending.iter().filter(|(_, h)| h.is_finished()).map(|(d, _)| *d).collect();
        for d in ready {
            let h = pending.remove(&d).unwrap();
            got.insert(d, h.await.map_err(|_| "ask task panicked".to_string())?);
        }
        done += 1;
    }
    // at rest every delivery has been answered (the model's final buffer is empty)
    for (d, h) in pending {
        match tokio::time::timeout(Duration::from_millis(1_500), h).await {
            Ok(Ok(c)) => {
                got.insert(d, c);
            }
            _ => {
                got.insert(d, "unanswered".into());
            }
        }
    }
    let want: BTreeMap<u64, String> = beh["replies"].as_array().unwrap().iter().enumerate().map(|(i, r)| (i as u64 + 1, r.as_str().unwrap().to_string())).collect();
    let log = partition_log(&db, 0).await?;
    let want_log: Vec<Uuid> = beh["log"].as_array().unwrap().iter().map(|v| v.as_u64().unwrap()).collect::<Vec<_>>().iter().map(|id| {
        let n = beh["log"].as_array().unwrap().iter().filter(|x| x.as_u64() == Some(*id)).count();
        tx_uuid(*id, n)
    }).collect();
    let _ = replicator.stop_gracefully().await;
    let _ = conf_ref.stop_gracefully().await;
    db.shutdown().await;
    if got != want {
        let diff: Vec<String> = want.iter().filter(|(d, w)| got.get(d) != Some(w)).map(|(d, w)| format!("delivery {d}: specification {w}, real {}", got.get(d).cloned().unwrap_or_default())).collect();
        return Err(format!("replies differ: {}; last panic: {}", diff.join("; "), hcommon::last_panic()));
    }
    let got_log: Vec<Uuid> = log.iter().map(|(t, _)| *t).collect();
    if got_log != want_log {
        return Err(format!("replica log holds {} events {:?}, specification {:?}", got_log.len(), got_log.iter().map(|u| u.as_u128() & 0xff).collect::<Vec<_>>(), beh["log"]));
    }
    Ok(done)
}

pub async fn replicator_cmd(rep: &mut Report, plans: &str) {
    let quick = hcommon::tier_quick();
    let behs = read_ndjson(plans);
    let root = std::env::current_dir().unwrap().join(format!("repl-{}", std::process::id()));
    let _ = std::fs::remove_dir_all(&root);
    std::fs::create_dir_all(&root).unwrap();
    // the coordinator: the process's real ClusterActor over a database holding Replicator!CoordLog,
    // confirmed up to CoordW
    let key = key_for_partition(0, 4242);
    let cdb = open_db(&fresh_dir(&root, "coord"), 1);
    let mut ids = HashMap::new();
    for (id, first, n, c) in [(1u64, 0u64, 1usize, 1u8), (2, 1, 2, 1), (3, 3, 1, 1), (4, 4, 1, 0)] {
        cdb.append_events(make_tx(key, 0, id, first, n, c, &mut ids)).await.expect("coordinator log");
    }
    let cluster = start_cluster(cdb.clone(), 1).await;
    let coord = cluster.clone().into_remote_ref().await;
    let mut reported = std::collections::BTreeSet::new();
    let mut n_exp = 0;
    let mut n_cat = 0;
    let mut steps = 0;
    for beh in &behs {
        let ops: Vec<&str> = beh["steps"].as_array().unwrap().iter().map(|s| s["op"].as_str().unwrap()).collect();
        let e = ops.contains(&"expire");
        let c = ops.contains(&"catchup");
        if e && c {
            continue; // the two timers are alternatives of one configuration (see run_one)
        }
        // slow behaviours (they wait for real timers) are sampled in the quick tier
        if quick && e && n_exp >= 10 || quick && c && n_cat >= 10 {
            continue;
        }
        n_exp += e as u64;
        n_cat += c as u64;
        rep.eval(1);
        let replies: std::collections::BTreeSet<&str> = beh["replies"].as_array().unwrap().iter().map(|r| r.as_str().unwrap()).collect();
        rep.class(format!("{:?}{}{}", replies, if e { " expire" } else { "" }, if c { " catchup" } else { "" }));
        let mut r = tokio::spawn({
            let beh = beh.clone();
            let root = root.clone();
            let coord = coord.clone();
            async move { run_one(&beh, &root, &coord, key).await }
        })
        .await;
        // an ask that was dropped where the specification has an answer can be the buffer's wall-clock expiry on an
        // overloaded machine: the behaviour is run again, and reported only if it deviates every time
        let mut attempts = 1;
        while attempts < 3 && !e && matches!(&r, Ok(Err(msg)) if msg.contains("real dropped")) {
            attempts += 1;
            rep.add("timing_reruns", 1);
            tokio::time::sleep(std::time::Duration::from_millis(500)).await;
            r = tokio::spawn({
                let beh = beh.clone();
                let root = root.clone();
                let coord = coord.clone();
                async move { run_one(&beh, &root, &coord, key).await }
            })
            .await;
        }
        match r {
            Ok(Ok(n)) => steps += n,
            Ok(Err(e)) => {
                let key = if e.contains("replies differ") { "c12:replies-differ" } else if e.contains("replica log") { "c12:log-differs" } else { "c12:replay" };
                if reported.insert(key) {
                    rep.violation(key, json!({"problem": e, "steps": beh["steps"]}), json!({"behaviour": beh}));
                } else {
                    rep.violations += 1;
                }
            }
            Err(_) => {
                if reported.insert("c12:panic") {
                    rep.violation("c12:panic", json!({"problem": hcommon::last_panic()}), json!({"behaviour": beh}));
                }
            }
        }
        if rep.samples.len() < 2 && (e || c) {
            rep.sample(json!({"steps": beh["steps"], "replies": beh["replies"], "log": beh["log"]}));
        }
    }
    let _ = std::fs::remove_dir_all(&root);
    rep.set("behaviours", json!(behs.len()));
    rep.set("with_expiry", json!(n_exp));
    rep.set("with_catchup", json!(n_cat));
    rep.set("steps_replayed", json!(steps));
}
