//! C26: replay of Breaker.tla schedules on the real WriteCircuitBreaker.  Every thread of the
//! model is a real OS thread; the hook points in front of the breaker's atomic operations
//! park the calling thread, and the harness releases exactly the thread the schedule names,
//! for exactly one step.  The clock the breaker reads is the model's clock.  After every
//! step the label the thread stands at next and (when the operation completes) its return
//! value are compared with the specification; a panic of the code under test is data.
use std::collections::HashMap;
use std::sync::atomic::{AtomicU64, Ordering};
use std::sync::mpsc::{Receiver, Sender, channel};
use std::sync::{Arc, Condvar, Mutex};
use std::time::Duration;

use hcommon::{Report, read_ndjson};
use serde_json::{Value, json};
use sierradb_cluster::circuit_breaker::{CircuitState, WriteCircuitBreaker};

thread_local! {
    static ME: std::cell::RefCell<Option<String>> = const { std::cell::RefCell::new(None) };
}

#[derive(Default)]
struct St {
    parked: HashMap<String, String>, // thread -> label it is parked at
    go: HashMap<String, u64>,        // thread -> number of steps granted
    taken: HashMap<String, u64>,
}

struct Ctl {
    st: Mutex<St>,
    cv: Condvar,
    clock: AtomicU64,
}

fn install(ctl: Arc<Ctl>) {
    let c1 = ctl.clone();
    sierradb::verif::install(Arc::new(move |name, _| {
        if !name.starts_with("cb.") {
            return;
        }
        let Some(me) = ME.with(|m| m.borrow().clone()) else { return };
        let mut g = c1.st.lock().unwrap();
        g.parked.insert(me.clone(), name.to_string());
        c1.cv.notify_all();
        loop {
            let granted = *g.go.get(&me).unwrap_or(&0);
            let taken = *g.taken.get(&me).unwrap_or(&0);
            if granted > taken {
                g.taken.insert(me.clone(), taken + 1);
                break;
            }
            g = c1.cv.wait(g).unwrap();
        }
        g.parked.remove(&me);
    }));
    let c2 = ctl.clone();
    sierradb::verif::install_query(Arc::new(move |name, default| if name == "cb.clock" { c2.clock.load(Ordering::SeqCst) } else { default }));
}

enum Cmd {
    Op(String),
    Quit,
}

fn ret_of(kind: &str, cb: &WriteCircuitBreaker) -> String {
    match kind {
        "allow" => cb.should_allow_request().to_string(),
        "succ" => {
            cb.record_success();
            "unit".into()
        }
        "fail" => {
            cb.record_failure();
            "unit".into()
        }
        _ => match cb.estimated_recovery_time() {
            None => "none".into(),
            Some(d) if d == Duration::ZERO => "zero".into(),
            Some(_) => "wait".into(),
        },
    }
}

struct Worker {
    tx: Sender<Cmd>,
    rx: Receiver<String>,
    handle: std::thread::JoinHandle<()>,
}

/// Replays one behaviour; Err(problem) on the first divergence from the specification.
fn replay_one(ctl: &Arc<Ctl>, beh: &Value, consts: &Value) -> Result<u64, String> {
    let cb = Arc::new(WriteCircuitBreaker::new(
        consts["Threshold"].as_u64().unwrap() as u32,
        Duration::from_millis(consts["Timeout"].as_u64().unwrap()),
        consts["MaxCalls"].as_u64().unwrap() as u32,
        consts["SuccThreshold"].as_u64().unwrap() as u32,
    ));
    ctl.clock.store(1, Ordering::SeqCst);
    {
        let mut g = ctl.st.lock().unwrap();
        *g = St::default();
    }
    let mut workers: HashMap<String, Worker> = HashMap::new();
    let steps = beh["steps"].as_array().unwrap();
    let names: std::collections::BTreeSet<String> = steps.iter().filter_map(|s| s["t"].as_str().map(|x| x.to_string())).collect();
    for n in &names {
        let (tx, crx) = channel::<Cmd>();
        let (rtx, rx) = channel::<String>();
        let cb = cb.clone();
        let name = n.clone();
        let handle = std::thread::Builder::new()
            .name(format!("cb-{n}"))
            .spawn(move || {
                ME.with(|m| *m.borrow_mut() = Some(name));
                while let Ok(Cmd::Op(k)) = crx.recv() {
                    let r = std::panic::catch_unwind(std::panic::AssertUnwindSafe(|| ret_of(&k, &cb)));
                    let _ = rtx.send(r.unwrap_or_else(|_| "panic".into()));
                }
            })
            .unwrap();
        workers.insert(n.clone(), Worker { tx, rx, handle });
    }
    let wait_settled = |t: &str, w: &Worker| -> Result<(Option<String>, Option<String>), String> {
        // the thread either parks at its next hook or finishes the operation
        let t0 = std::time::Instant::now();
        loop {
            if let Ok(r) = w.rx.try_recv() {
                return Ok((None, Some(r)));
            }
            if let Some(l) = ctl.st.lock().unwrap().parked.get(t).cloned() {
                return Ok((Some(l), None));
            }
            if t0.elapsed() > Duration::from_secs(5) {
                return Err(format!("thread {t} neither reached a hook point nor finished"));
            }
            std::thread::sleep(Duration::from_micros(50));
        }
    };
    let mut result = Ok(0u64);
    let mut done_steps = 0u64;
    for (i, s) in steps.iter().enumerate() {
        if let Some(d) = s["tick"].as_u64() {
            ctl.clock.fetch_add(d, Ordering::SeqCst);
            continue;
        }
        let t = s["t"].as_str().unwrap();
        let at = s["at"].as_str().unwrap();
        let nxt = s["nxt"].as_str().unwrap();
        let want_r = s["r"].as_str().unwrap();
        let w = &workers[t];
        if at == "idle" {
            w.tx.send(Cmd::Op(s["k"].as_str().unwrap().to_string())).unwrap();
        } else {
            // the thread must be parked exactly where the specification says
            let here = ctl.st.lock().unwrap().parked.get(t).cloned();
            if here.as_deref() != Some(at) {
                result = Err(format!("step {i}: specification has {t} at {at}, the real thread stands at {here:?}"));
                break;
            }
            let mut g = ctl.st.lock().unwrap();
            *g.go.entry(t.to_string()).or_default() += 1;
            ctl.cv.notify_all();
            drop(g);
            // wait until it has left the hook
            let t0 = std::time::Instant::now();
            loop {
                {
                    let g = ctl.st.lock().unwrap();
                    if g.taken.get(t).copied().unwrap_or(0) >= g.go.get(t).copied().unwrap_or(0) {
                        break;
                    }
                }
                if t0.elapsed() > Duration::from_secs(5) {
                    break;
                }
                std::thread::sleep(Duration::from_micros(20));
            }
            // ... and is no longer recorded as parked there (it may park again at once)
            std::thread::sleep(Duration::from_micros(30));
        }
        match wait_settled(t, w) {
            Err(e) => {
                result = Err(format!("step {i}: {e}"));
                break;
            }
            Ok((Some(l), None)) => {
                if nxt == "idle" {
                    result = Err(format!("step {i} ({t} at {at}): specification completes the operation with {want_r}, the real thread went on to {l}"));
                    break;
                }
                if l != nxt {
                    result = Err(format!("step {i} ({t} at {at}): specification goes to {nxt}, the real thread stands at {l}"));
                    break;
                }
            }
            Ok((None, Some(r))) => {
                if r == "panic" {
                    result = Err(format!("step {i} ({t} at {at}): panic: {}", hcommon::last_panic()));
                    break;
                }
                if nxt != "idle" {
                    result = Err(format!("step {i} ({t} at {at}): specification goes to {nxt}, the real operation returned {r}"));
                    break;
                }
                if r != want_r {
                    result = Err(format!("step {i} ({t} at {at}, {}): specification returns {want_r}, the real operation returned {r}", s["k"]));
                    break;
                }
            }
            _ => unreachable!(),
        }
        done_steps += 1;
    }
    if result.is_ok() {
        let want = beh["final"]["state"].as_str().unwrap();
        let got = match cb.current_state() {
            CircuitState::Closed => "closed",
            CircuitState::Open => "open",
            CircuitState::HalfOpen => "half",
        };
        if want != got {
            result = Err(format!("final state {got}, specification {want}"));
        } else if cb.failure_count() as u64 != beh["final"]["fc"].as_u64().unwrap() {
            result = Err(format!("final failure count {}, specification {}", cb.failure_count(), beh["final"]["fc"]));
        } else {
            result = Ok(done_steps);
        }
    }
    // let every thread run free and stop
    {
        let mut g = ctl.st.lock().unwrap();
        for n in &names {
            *g.go.entry(n.clone()).or_default() += 1_000_000;
        }
        ctl.cv.notify_all();
    }
    for (_, w) in workers {
        let _ = w.tx.send(Cmd::Quit);
        let _ = w.handle.join();
    }
    result
}

/// probes admitted per half-open episode, recomputed from the schedule and the REAL return values
pub fn breaker_cmd(rep: &mut Report, plans: &str, consts_json: &str, mode: &str) {
    let behs = read_ndjson(plans);
    let consts: Value = serde_json::from_str(consts_json).unwrap();
    let ctl = Arc::new(Ctl { st: Mutex::new(St::default()), cv: Condvar::new(), clock: AtomicU64::new(1) });
    install(ctl.clone());
    let mut reported = std::collections::BTreeSet::new();
    let mut steps = 0u64;
    for beh in &behs {
        rep.eval(1);
        let shape: Vec<String> = {
            let mut m: std::collections::BTreeMap<String, Vec<String>> = Default::default();
            for s in beh["steps"].as_array().unwrap() {
                if s["at"] == "idle" {
                    m.entry(s["t"].as_str().unwrap().to_string()).or_default().push(s["k"].as_str().unwrap().to_string());
                }
            }
            m.into_iter().map(|(_, v)| v.join("+")).collect()
        };
        rep.class(shape.join("|"));
        match replay_one(&ctl, beh, &consts) {
            Ok(n) => {
                steps += n;
                if mode == "known" {
                    // the schedule of the recorded finding ran exactly as the specification says:
                    // the real breaker admitted more probes than half_open_max_calls
                    let key = "c26:probes:late-reset";
                    if reported.insert(key.to_string()) {
                        rep.violation(key, json!({"problem": format!("{} probe requests admitted in one half-open episode (limit {}): the thread that opened the circuit reset the half-open call counter after the next half-open episode had begun", beh["probes"], consts["MaxCalls"]),
                                                   "schedule_steps": beh["steps"].as_array().unwrap().len()}), json!({"behaviour": beh, "consts": consts}));
                    }
                }
            }
            Err(e) => {
                let key = if e.contains("panic") { "c26:panic" } else { "c26:conformance" };
                if reported.insert(key.to_string()) {
                    rep.violation(key, json!({"problem": e}), json!({"behaviour": beh, "consts": consts}));
                } else {
                    rep.violations += 1;
                }
            }
        }
        if rep.samples.len() < 2 {
            rep.sample(json!(beh["steps"].as_array().unwrap().iter().take(14).collect::<Vec<_>>()));
        }
    }
    sierradb::verif::clear();
    rep.set("behaviours", json!(behs.len()));
    rep.set("steps_replayed", json!(steps));
}
