//! C10 / C11: replay of Replication.tla behaviours on a virtual cluster.  Every model node is
//! a real Database directory with a real PartitionReplicatorActor; the coordinator's local
//! append and its set_confirmations_with_retry are the real calls of write/transaction.rs;
//! a ReplicateWrite delivery is a real ask to the replica's replicator; a ConfirmTransaction
//! delivery is handled by the process's real ClusterActor switched to the replica's database
//! (ResetCluster); crash / restart close and reopen the directory.  Message order, loss,
//! duplication, views and the coordinator's reply counting come from the behaviour (the
//! coordinator's fan-out logic is mirrored, not observed - one ClusterActor per process).
use std::collections::{BTreeMap, HashMap, HashSet};
use std::sync::Arc;
use std::sync::atomic::{AtomicU64, Ordering};
use std::time::Duration;

use hcommon::{Report, read_ndjson};
use kameo::actor::{ActorRef, RemoteActorRef, Spawn};
use kameo::mailbox;
use serde_json::{Value, json};
use sierradb::database::{Database, ExpectedVersion};
use sierradb_cluster::ClusterActor;
use sierradb_cluster::confirmation::actor::ConfirmationActor;
use sierradb_cluster::write::confirm::ConfirmTransaction;
use sierradb_cluster::write::replicate::{PartitionReplicatorActor, PartitionReplicatorActorArgs, ReplicateWrite};
use sierradb_cluster::write::transaction::{self, WriteConfig, set_confirmations_with_retry};
use sierradb_cluster::write::error::WriteError;
use sierradb_cluster::circuit_breaker::WriteCircuitBreaker;
use sierradb_cluster::ReplicaRefs;
use sierradb::writer_thread_pool::AppendResult;
use kameo::prelude::{Actor, Context, DelegatedReply, Message};
use smallvec::SmallVec;
use uuid::Uuid;

use crate::node::*;
use crate::replicator::{make_tx_in, partition_log, tx_uuid};
use crate::watermark::open_db;

/// the replicator (actor sequence id + 1) whose catch-up may run now; 0 = none
static CATCHUP_ALLOWED: AtomicU64 = AtomicU64::new(0);
/// catch-up attempts completed (hook point rep.catchup.done)
static CATCHUP_DONE: AtomicU64 = AtomicU64::new(0);

fn install_hooks() {
    sierradb::verif::install_query(Arc::new(|name, default| {
        if name == "rep.catchup.allow" {
            if CATCHUP_ALLOWED.load(Ordering::SeqCst) == default {
                1
            } else {
                // the replicator's timer fires again at once: do not let it spin hot
                std::thread::sleep(Duration::from_millis(4));
                0
            }
        } else {
            default
        }
    }));
    sierradb::verif::install(Arc::new(|name, _fields| match name {
        // one attempt per "catchup" step of the behaviour
        "rep.catchup.start" => CATCHUP_ALLOWED.store(0, Ordering::SeqCst),
        "rep.catchup.done" => {
            CATCHUP_DONE.fetch_add(1, Ordering::SeqCst);
        }
        _ => {}
    }));
}

/// The coordinator of a write, for the behaviours whose last write runs the REAL coordinator code
/// (write/transaction.rs) over the coordinating node's database, with the process's ClusterActor -
/// given the replica's database - as the one reachable replica.
#[derive(Actor)]
struct Coordinator {
    database: Database,
    confirmation_ref: ActorRef<ConfirmationActor>,
    identity: ActorRef<ClusterActor>,
    remote_identity: RemoteActorRef<ClusterActor>,
    alive_since: u64,
    replicas: ReplicaRefs,
}
struct Execute(sierradb::database::Transaction);
impl Message<Execute> for Coordinator {
    type Reply = DelegatedReply<Result<AppendResult, WriteError>>;
    async fn handle(&mut self, Execute(tx): Execute, ctx: &mut Context<Self, Self::Reply>) -> Self::Reply {
        let (delegated_reply, reply_sender) = ctx.reply_sender();
        transaction::spawn(
            WriteConfig {
                database: self.database.clone(),
                local_cluster_ref: self.identity.clone(),
                local_remote_cluster_ref: self.remote_identity.clone(),
                local_alive_since: self.alive_since,
                confirmation_ref: self.confirmation_ref.clone(),
                replicas: self.replicas.clone(),
                replication_factor: 3,
                circuit_breaker: Arc::new(WriteCircuitBreaker::with_defaults()),
            },
            tx,
            reply_sender,
        );
        delegated_reply
    }
}

struct VNode {
    dir: std::path::PathBuf,
    db: Option<Database>,
    replicator: Option<ActorRef<PartitionReplicatorActor>>,
    sink: Option<ActorRef<ConfirmationActor>>,
}

async fn start_node(v: &mut VNode, sink_db: &Database) -> Result<(), String> {
    let db = open_db(&v.dir, 1);
    // the replicator reports to a confirmation actor of its own (over a scratch database): the
    // node's on-disk counts, which is what the specification talks about, are not touched by it
    let conf = ConfirmationActor::new(sink_db.clone(), 3, HashSet::from_iter(0..PARTITIONS)).await.map_err(|e| format!("confirmation actor: {e}"))?;
    let sink: ActorRef<ConfirmationActor> = Spawn::spawn(conf);
    let replicator = PartitionReplicatorActor::spawn_with_mailbox(
        PartitionReplicatorActorArgs {
            partition_id: 0,
            database: db.clone(),
            confirmation_ref: sink.clone(),
            buffer_size: 1_000,
            buffer_timeout: Duration::from_secs(60),
            // fires soon after a write is buffered behind a gap; the hook holds it back until the behaviour's catch-up step
            catchup_timeout: Duration::from_millis(60),
        },
        mailbox::bounded(100),
    );
    replicator.wait_for_startup().await;
    v.db = Some(db);
    v.replicator = Some(replicator);
    v.sink = Some(sink);
    Ok(())
}

async fn stop_node(v: &mut VNode) {
    if let Some(r) = v.replicator.take() {
        let _ = r.stop_gracefully().await;
        r.wait_for_shutdown().await;
    }
    if let Some(s) = v.sink.take() {
        let _ = s.stop_gracefully().await;
    }
    if let Some(db) = v.db.take() {
        db.shutdown().await;
    }
}

async fn run_one(beh: &Value, root: &std::path::Path, cluster: &ActorRef<ClusterActor>, coord_ref: &RemoteActorRef<ClusterActor>, key: Uuid) -> Result<u64, String> {
    let rf = beh["rf"].as_u64().unwrap() as u8;
    assert_eq!(rf, 3, "the process's ClusterActor was started with replication factor 3");
    let sink_db = open_db(&fresh_dir(root, "sink"), 1);
    let mut nodes: BTreeMap<u64, VNode> = BTreeMap::new();
    for n in 1..=3u64 {
        let mut v = VNode { dir: fresh_dir(root, &format!("n{n}")), db: None, replicator: None, sink: None };
        start_node(&mut v, &sink_db).await?;
        nodes.insert(n, v);
    }
    let mut ids: HashMap<u64, Vec<Uuid>> = HashMap::new();
    let mut sizes: HashMap<u64, usize> = HashMap::new();
    let mut offsets: HashMap<(u64, u64), SmallVec<[u64; 4]>> = HashMap::new(); // (coordinator, tx) -> offsets of its local append
    let mut pending: Vec<(u64, u64, tokio::task::JoinHandle<String>)> = vec![]; // (to, tx, ask)
    let mut done = 0u64;
    let mut current_reset: Option<u64> = None;
    let stream_of = |t: u64| -> String { format!("s{}", beh["streams"][t.to_string()].as_str().unwrap_or("x")) };
    let real_tx = beh.get("real_coordinator").and_then(|t| t.as_u64());
    let mut real_done = false;
    for (i, st) in beh["steps"].as_array().unwrap().iter().enumerate() {
        if real_done && st.get("tx").and_then(|t| t.as_u64()) == real_tx {
            continue; // message steps of the write the real coordinator has already carried out
        }
        match st["op"].as_str().unwrap() {
            "write" => {
                let (t, c, k, n) = (st["tx"].as_u64().unwrap(), st["c"].as_u64().unwrap(), st["k"].as_u64().unwrap(), st["n"].as_u64().unwrap() as usize);
                sizes.insert(t, n);
                let tx = make_tx_in(key, 0, t, k, n, 0, &mut ids, &stream_of(t)).expected_partition_sequence(ExpectedVersion::Any);
                if real_tx == Some(t) {
                    // the real coordinator: local append, ReplicateWrite to the one reachable replica (the process's
                    // ClusterActor over that node's database; its replicators start from the database, as after a restart),
                    // reply counting, set_confirmations, ConfirmTransaction, client reply
                    let r = beh["steps"].as_array().unwrap().iter().find(|s| s["op"] == "rep" && s["tx"].as_u64() == Some(t)).and_then(|s| s["to"].as_u64())
                        .ok_or("no replica for the real coordinator's write")?;
                    let rdb = nodes[&r].db.clone().ok_or("replica is down")?;
                    reset(cluster, rdb.clone()).await?;
                    current_reset = Some(r);
                    let cdb = nodes[&c].db.clone().ok_or("coordinator is down")?;
                    let conf = ConfirmationActor::new(cdb.clone(), 3, HashSet::from_iter(0..PARTITIONS)).await.map_err(|e| format!("confirmation actor: {e}"))?;
                    let alive = std::time::SystemTime::now().duration_since(std::time::UNIX_EPOCH).unwrap().as_secs() + 60;
                    let co = Coordinator::spawn(Coordinator {
                        database: cdb.clone(),
                        confirmation_ref: Spawn::spawn(conf),
                        identity: cluster.clone(),
                        remote_identity: coord_ref.clone(),
                        alive_since: alive,
                        replicas: ReplicaRefs::from_iter([(coord_ref.clone(), alive)]),
                    });
                    let want_ack = beh["acked"].as_array().unwrap().iter().any(|x| x.as_u64() == Some(t));
                    let reply = tokio::time::timeout(Duration::from_secs(40), co.ask(Execute(tx))).await;
                    let _ = co.stop_gracefully().await;
                    match reply {
                        Err(_) => return Err(format!("step {i}: the real coordinator did not answer the client within 40 s (transaction {t}, specification acknowledged = {want_ack})")),
                        Ok(res) => {
                            let got = res.as_ref().map(|a| a.first_partition_sequence).map_err(|e| e.to_string());
                            if res.is_ok() != want_ack {
                                return Err(format!("step {i}: real coordinator (node {c}, replica node {r}): client reply {got:?}, specification acknowledged = {want_ack}"));
                            }
                            if let Ok(seq) = got {
                                if seq != k {
                                    return Err(format!("step {i}: real coordinator appended transaction {t} at sequence {seq}, specification {k}"));
                                }
                            }
                        }
                    }
                    // the ConfirmTransaction to the replica is sent without waiting: let it land
                    if want_ack {
                        let want_cnt: Vec<u64> = beh["cnts"][(r - 1) as usize].as_array().unwrap().iter().map(|x| x.as_u64().unwrap()).collect();
                        let t0 = std::time::Instant::now();
                        loop {
                            let got: Vec<u64> = partition_log(&rdb, 0).await?.iter().map(|(_, c)| *c as u64).collect();
                            if got == want_cnt || t0.elapsed() > Duration::from_secs(5) {
                                break;
                            }
                            tokio::time::sleep(Duration::from_millis(10)).await;
                        }
                    }
                    real_done = true;
                    done += 1;
                    continue;
                }
                let db = nodes[&c].db.clone().ok_or("coordinator is down")?;
                let r = db.append_events(tx).await.map_err(|e| format!("step {i}: coordinator's local append failed: {e}"))?;
                if r.first_partition_sequence != k {
                    return Err(format!("step {i}: coordinator {c} appended transaction {t} at sequence {}, specification {k}", r.first_partition_sequence));
                }
                offsets.insert((c, t), r.offsets.clone());
            }
            "rep" => {
                let (t, from, to, k) = (st["tx"].as_u64().unwrap(), st["from"].as_u64().unwrap(), st["to"].as_u64().unwrap(), st["k"].as_u64().unwrap());
                let res = st["res"].as_str().unwrap();
                let _ = from;
                if res == "invalid_sender" {
                    // the membership check of the ClusterActor's ReplicateWrite handler (mirrored from the view)
                } else {
                    let tx = make_tx_in(key, 0, t, k, sizes[&t], 0, &mut ids, &stream_of(t));
                    let r = nodes[&to].replicator.clone().ok_or("replica is down")?;
                    let c = coord_ref.clone();
                    let mut hnd = tokio::spawn(async move {
                        let res = r.ask(ReplicateWrite { coordinator_ref: c, coordinator_alive_since: u64::MAX, transaction: tx }).await;
                        match &res {
                            Ok(_) => "ok".to_string(),
                            Err(kameo::error::SendError::HandlerError(e)) => {
                                use sierradb_cluster::write::error::WriteError as W;
                                match e {
                                    W::StaleWrite => "stale".into(),
                                    W::SequenceConflict => "conflict".into(),
                                    W::WrongExpectedSequence { .. } => "wrong_sequence".into(),
                                    other => format!("error:{other}"),
                                }
                            }
                            Err(_) => "dropped".into(),
                        }
                    });
                    match tokio::time::timeout(Duration::from_millis(if res == "buffered" { 30 } else { 3_000 }), &mut hnd).await {
                        Ok(Ok(got)) => {
                            if got != res {
                                return Err(format!("step {i}: ReplicateWrite(tx {t}, sequence {k}) to node {to}: reply {got}, specification {res}"));
                            }
                            // the replicator answers and then goes on draining its buffer: wait for the
                            // buffered deliveries the specification drains in this step
                            let drained = st["drained"].as_u64().unwrap_or(0);
                            if drained > 0 {
                                let t0 = std::time::Instant::now();
                                loop {
                                    let open = pending.iter().filter(|(n, _, h)| *n == to && !h.is_finished()).count();
                                    let total = pending.iter().filter(|(n, _, _)| *n == to).count();
                                    // duplicates of one buffered transaction are merged: all of them resolve together
                                    if total - open >= drained as usize && open == 0 || t0.elapsed() > Duration::from_secs(3) {
                                        break;
                                    }
                                    tokio::time::sleep(Duration::from_millis(2)).await;
                                }
                            }
                        }
                        Ok(Err(_)) => return Err(format!("step {i}: ask task failed: {}", hcommon::last_panic())),
                        Err(_) => {
                            if res != "buffered" {
                                return Err(format!("step {i}: ReplicateWrite(tx {t}, sequence {k}) to node {to} was not answered, specification {res}"));
                            }
                            pending.push((to, t, hnd));
                        }
                    }
                }
            }
            "reply" => {
                if st["acked"] == true {
                    let (t, c, count) = (st["tx"].as_u64().unwrap(), st["to"].as_u64().unwrap(), st["count"].as_u64().unwrap() as u8);
                    let db = nodes[&c].db.clone().ok_or("coordinator is down")?;
                    set_confirmations_with_retry(&db, 0, offsets[&(c, t)].clone(), tx_uuid(t, sizes[&t]), count)
                        .await
                        .map_err(|e| format!("step {i}: coordinator's set_confirmations failed: {e}"))?;
                }
            }
            "confirm" => {
                let (t, to, k, count) = (st["tx"].as_u64().unwrap(), st["to"].as_u64().unwrap(), st["k"].as_u64().unwrap(), st["count"].as_u64().unwrap() as u8);
                let db = nodes[&to].db.clone().ok_or("replica is down")?;
                if current_reset != Some(to) {
                    reset(cluster, db.clone()).await?;
                    current_reset = Some(to);
                }
                let n = sizes[&t];
                let msg = ConfirmTransaction {
                    partition_id: 0,
                    transaction_id: tx_uuid(t, n),
                    event_ids: ids[&t].iter().copied().collect(),
                    confirmation_versions: (0..n as u64).map(|j| k + j + 1).collect(),
                    confirmation_count: count,
                };
                let r = cluster.ask(msg).await;
                let applied = r.is_ok();
                if applied != st["applied"].as_bool().unwrap() {
                    return Err(format!("step {i}: ConfirmTransaction(tx {t}, sequence {k}, count {count}) on node {to}: {} ({:?}), specification applied = {}", if applied { "applied" } else { "refused" }, r.err().map(|e| e.to_string()), st["applied"]));
                }
            }
            "crash" => {
                let n = st["n"].as_u64().unwrap();
                if current_reset == Some(n) {
                    // the ClusterActor must not keep the crashed node's database open
                    reset(cluster, sink_db.clone()).await?;
                    current_reset = None;
                }
                // asks buffered at this node die with it
                let mut keep = vec![];
                for (to, t, h) in pending.drain(..) {
                    if to == n {
                        h.abort();
                    } else {
                        keep.push((to, t, h));
                    }
                }
                pending = keep;
                stop_node(nodes.get_mut(&n).unwrap()).await;
            }
            "restart" => {
                let n = st["n"].as_u64().unwrap();
                start_node(nodes.get_mut(&n).unwrap(), &sink_db).await?;
            }
            "catchup" => {
                let (r, c, want_len) = (st["r"].as_u64().unwrap(), st["from"].as_u64().unwrap(), st["len"].as_u64().unwrap() as usize);
                // the coordinator's side: the process's ClusterActor over the coordinator's database (its watermark is
                // derived from the on-disk counts by the real ConfirmationActor)
                let cdb = nodes[&c].db.clone().ok_or("catch-up source is down")?;
                // always anew: the actor's watermark is derived from the on-disk counts when it is given the database
                reset(cluster, cdb).await?;
                current_reset = Some(c);
                let rep_ref = nodes[&r].replicator.clone().ok_or("catching-up replica is down")?;
                let before = CATCHUP_DONE.load(Ordering::SeqCst);
                CATCHUP_ALLOWED.store(rep_ref.id().sequence_id() + 1, Ordering::SeqCst);
                let t0 = std::time::Instant::now();
                while CATCHUP_DONE.load(Ordering::SeqCst) == before {
                    if t0.elapsed() > Duration::from_secs(20) {
                        CATCHUP_ALLOWED.store(0, Ordering::SeqCst);
                        return Err(format!("step {i}: the catch-up of node {r} (from node {c}) did not run within 20 s"));
                    }
                    tokio::time::sleep(Duration::from_millis(3)).await;
                }
                CATCHUP_ALLOWED.store(0, Ordering::SeqCst);
                let log = partition_log(nodes[&r].db.as_ref().unwrap(), 0).await?;
                if log.len() != want_len {
                    let got: Vec<u64> = log.iter().map(|(t, _)| (t.as_u128() & 0xffff) as u64).collect();
                    return Err(format!("step {i}: after the catch-up of node {r} from node {c} its log is {got:?} ({} events), specification {want_len} events", log.len()));
                }
            }
            "giveup" | "lose" | "view" => {}
            other => return Err(format!("unexpected step {other}")),
        }
        done += 1;
    }
    // buffered deliveries that the specification drained must have been answered Ok by now
    for (to, t, h) in pending {
        if h.is_finished() {
            let r = h.await.unwrap_or_default();
            // drained (ok) or overtaken by a multi-event transaction (stale); the logs compared
            // below say which it had to be
            if r != "ok" && r != "stale" {
                return Err(format!("buffered ReplicateWrite(tx {t}) at node {to} was finally answered {r}"));
            }
        } else {
            h.abort();
        }
    }
    // final state: logs and on-disk counts of every node
    if current_reset.is_some() {
        reset(cluster, sink_db.clone()).await?;
    }
    let mut problem = None;
    for n in 1..=3u64 {
        let v = nodes.get_mut(&n).unwrap();
        if v.db.is_none() {
            start_node(v, &sink_db).await?; // a node that was down at the end: look at its disk
        }
        let log = partition_log(v.db.as_ref().unwrap(), 0).await?;
        let want_log: Vec<u64> = beh["logs"][(n - 1) as usize].as_array().unwrap().iter().map(|x| x.as_u64().unwrap()).collect();
        let want_cnt: Vec<u64> = beh["cnts"][(n - 1) as usize].as_array().unwrap().iter().map(|x| x.as_u64().unwrap()).collect();
        let got_log: Vec<u64> = log.iter().map(|(t, _)| (t.as_u128() & 0xffff) as u64).collect();
        let got_cnt: Vec<u64> = log.iter().map(|(_, c)| *c as u64).collect();
        if got_log != want_log {
            problem = Some(format!("node {n}: log {got_log:?}, specification {want_log:?}"));
        } else if got_cnt != want_cnt {
            problem = Some(format!("node {n}: on-disk confirmation counts {got_cnt:?}, specification {want_cnt:?} (log {got_log:?})"));
        }
    }
    // C10 / C11 directly on the real state
    let quorum = (rf / 2 + 1) as u64;
    let mut real: Vec<Vec<(u64, u64)>> = vec![];
    for n in 1..=3u64 {
        let log = partition_log(nodes[&n].db.as_ref().unwrap(), 0).await?;
        real.push(log.iter().map(|(t, c)| ((t.as_u128() & 0xffff) as u64, *c as u64)).collect());
    }
    for a in 0..3 {
        for b in 0..3 {
            for s in 0..real[a].len().min(real[b].len()) {
                if real[a][s].1 >= quorum && real[b][s].1 >= quorum && real[a][s].0 != real[b][s].0 {
                    problem = Some(format!("sequence {s} holds transaction {} on node {} and {} on node {}, both with a quorum count", real[a][s].0, a + 1, real[b][s].0, b + 1));
                }
            }
        }
    }
    for t in beh["acked"].as_array().unwrap() {
        let t = t.as_u64().unwrap();
        let holders = real.iter().filter(|l| l.iter().any(|(x, _)| *x == t)).count() as u64;
        if holders < quorum {
            problem = Some(format!("acknowledged transaction {t} is stored on {holders} node(s), quorum {quorum}"));
        }
    }
    for (_, v) in nodes.iter_mut() {
        stop_node(v).await;
    }
    sink_db.shutdown().await;
    match problem {
        Some(p) => Err(p),
        None => Ok(done),
    }
}

pub async fn vcluster_cmd(rep: &mut Report, plans: &str) {
    let behs = read_ndjson(plans);
    install_hooks();
    let root = std::env::current_dir().unwrap().join(format!("vc-{}", std::process::id()));
    let _ = std::fs::remove_dir_all(&root);
    std::fs::create_dir_all(&root).unwrap();
    let boot = open_db(&fresh_dir(&root, "boot"), 1);
    let cluster = start_cluster(boot, 3).await;
    let coord_ref = cluster.clone().into_remote_ref().await;
    let key = key_for_partition(0, 991);
    let mut reported = std::collections::BTreeSet::new();
    let mut steps = 0;
    let mut skipped = 0;
    for beh in &behs {
        let ops: Vec<&str> = beh["steps"].as_array().unwrap().iter().map(|s| s["op"].as_str().unwrap()).collect();
        let _ = &mut skipped;
        rep.eval(1);
        let kinds: std::collections::BTreeSet<&str> = beh["steps"].as_array().unwrap().iter().filter(|s| s["op"] == "rep").map(|s| s["res"].as_str().unwrap()).collect();
        let ahead = beh["steps"].as_array().unwrap().iter().any(|s| s["op"] == "catchup" && s["ahead"] == true);
        rep.class(format!("{kinds:?} crash={} view={} acked={} catchup={}", ops.contains(&"crash"), ops.contains(&"view"), beh["acked"].as_array().unwrap().len(), if ahead { "ahead" } else if ops.contains(&"catchup") { "yes" } else { "no" }));
        if ops.contains(&"catchup") {
            rep.add("with_catchup", 1);
        }
        if beh.get("real_coordinator").is_some() {
            rep.add("with_real_coordinator", 1);
        }
        let r = tokio::spawn({
            let beh = beh.clone();
            let root = root.clone();
            let cluster = cluster.clone();
            let coord_ref = coord_ref.clone();
            async move { run_one(&beh, &root, &cluster, &coord_ref, key).await }
        })
        .await;
        match r {
            Ok(Ok(n)) => steps += n,
            Ok(Err(e)) => {
                let key = if e.contains("both with a quorum count") {
                    "c10:two-confirmed-at-one-sequence"
                } else if e.contains("acknowledged transaction") {
                    "c11:acked-not-on-quorum"
                } else {
                    "c10:conformance"
                };
                if reported.insert(key) {
                    rep.violation(key, json!({"problem": e, "steps": beh["steps"]}), json!({"behaviour": beh}));
                } else {
                    rep.violations += 1;
                }
            }
            Err(_) => {
                if reported.insert("c10:panic") {
                    rep.violation("c10:panic", json!({"problem": hcommon::last_panic()}), json!({"behaviour": beh}));
                }
            }
        }
        if rep.samples.len() < 2 && ops.contains(&"confirm") {
            rep.sample(json!({"steps": beh["steps"], "logs": beh["logs"], "cnts": beh["cnts"], "acked": beh["acked"]}));
        }
    }
    let _ = std::fs::remove_dir_all(&root);
    rep.set("behaviours", json!(behs.len()));
    rep.set("skipped_with_catchup", json!(skipped));
    rep.set("steps_replayed", json!(steps));
}
