//! C07: cluster reads only expose the quorum-confirmed prefix.  Every history of Gating.tla's
//! table (transactions of 1-2 events with on-disk confirmation counts below / at / above the
//! quorum) is built on a real Database, handed to the real ClusterActor (ResetCluster, so
//! that the ConfirmationActor derives the watermark from disk), and every read message is
//! sent with every argument tuple in range.  Nothing at or above the specification's
//! watermark may be revealed.
use hcommon::{Report, read_ndjson};
use serde_json::{Value, json};
use sierradb::StreamId;
use sierradb_cluster::read::{GetPartitionSequence, GetStreamVersion, ReadEvent, ReadPartition, ReadStream};

use crate::node::*;
use crate::watermark::open_db;

pub async fn reads_cmd(rep: &mut Report, table: &str, rf: u8) {
    let quick = hcommon::tier_quick();
    let rows: Vec<Value> = read_ndjson(table).into_iter().filter(|r| r["rf"].as_u64() == Some(rf as u64)).collect();
    let root = std::env::current_dir().unwrap().join(format!("reads-{}", std::process::id()));
    let boot = open_db(&fresh_dir(&root, "boot"), 1);
    let cluster = start_cluster(boot, rf).await;
    let quorum = rf / 2 + 1;
    let mut reported = std::collections::BTreeSet::new();
    let mut queries = 0u64;
    let mut exact = 0u64;
    let mut fewer = 0u64;
    for (ri, row) in rows.iter().enumerate() {
        if quick && ri % 3 != 0 {
            continue;
        }
      // phase 0: the watermark is derived from the on-disk counts when the actor is given the database;
      // phase 1: the actor is running before the events exist and learns about the quorum-confirmed transactions through
      // live ConfirmTransaction messages, last transaction first (an event nobody reported has no entry: a hole)
      for phase in 0..2u8 {
        // the live phase on a quarter of the histories in the thorough tier (the table is eight times larger there)
        if phase == 1 && !quick && ri % 4 != 0 {
            continue;
        }
        rep.eval(1);
        let dir = fresh_dir(&root, "h");
        let db = open_db(&dir, 1);
        if phase == 1 {
            if let Err(e) = reset(&cluster, db.clone()).await {
                rep.violation("c07:reset", json!({"problem": e}), json!({"row": row}));
                continue;
            }
        }
        let p = (ri % 2) as u16;
        let key = key_for_partition(p, 77 + ri as u128);
        let mut vers = Default::default();
        let mut evs: Vec<Ev> = vec![];
        for (t, tx) in row["hist"].as_array().unwrap().iter().enumerate() {
            let n = tx["n"].as_u64().unwrap() as usize;
            let c = tx["c"].as_u64().unwrap() as u8;
            let s = if t % 2 == 0 { "a" } else { "b" };
            match append(&db, p, key, &vec![s; n], c, &mut vers).await {
                Ok(e) => evs.extend(e),
                Err(e) => {
                    rep.violation("c07:harness-setup", json!({"problem": e}), json!({"row": row}));
                    continue;
                }
            }
        }
        // a sibling partition of the same bucket, fully confirmed and longer than the history: a stream read addressed to
        // it must not reveal what lies above the history partition's own watermark
        let other = 1 - p;
        let okey = key_for_partition(other, 9_000 + ri as u128);
        let mut filler: Vec<Ev> = vec![];
        let mut overs = Default::default();
        for _ in 0..(evs.len() + 2) {
            match append(&db, other, okey, &["z"], quorum, &mut overs).await {
                Ok(e) => filler.extend(e),
                Err(e) => rep.violation("c07:harness-setup", json!({"problem": e}), json!({"row": row})),
            }
        }
        // mirror of Gating!W, validated against the table
        let w = evs.iter().take_while(|e| e.count >= quorum).count() as u64;
        assert_eq!(w, row["w"].as_u64().unwrap(), "harness mirror of Gating!W disagrees with the table for {row}");
        let va = evs.iter().filter(|e| e.seq < w && e.stream == "a").count() as u64;
        assert_eq!(va, row["va"].as_u64().unwrap());
        if phase == 0 {
            if let Err(e) = reset(&cluster, db.clone()).await {
                rep.violation("c07:reset", json!({"problem": e}), json!({"row": row}));
                continue;
            }
        } else {
            // transactions = maximal runs of events with the same transaction id
            let mut txs: Vec<Vec<&Ev>> = vec![];
            for e in &evs {
                match txs.last_mut() {
                    Some(t) if t[0].tx == e.tx => t.push(e),
                    _ => txs.push(vec![e]),
                }
            }
            for t in txs.iter().rev().filter(|t| t[0].count >= quorum) {
                let msg = sierradb_cluster::write::confirm::ConfirmTransaction {
                    partition_id: p,
                    transaction_id: t[0].tx,
                    event_ids: t.iter().map(|e| e.id).collect(),
                    confirmation_versions: t.iter().map(|e| e.seq + 1).collect(),
                    confirmation_count: t[0].count,
                };
                if let Err(e) = cluster.ask(msg).await {
                    rep.violation("c07:harness-setup", json!({"problem": format!("ConfirmTransaction failed: {e}")}), json!({"row": row}));
                }
            }
            for f in &filler {
                let msg = sierradb_cluster::write::confirm::ConfirmTransaction {
                    partition_id: other,
                    transaction_id: f.tx,
                    event_ids: [f.id].into_iter().collect(),
                    confirmation_versions: [f.seq + 1].into_iter().collect(),
                    confirmation_count: quorum,
                };
                let _ = cluster.ask(msg).await;
            }
            // the watermark update is told, not asked: let it settle
            tokio::time::sleep(std::time::Duration::from_millis(15)).await;
        }
        let n = evs.len() as u64;
        let mut problems: Vec<(String, String)> = vec![];
        // event lookup
        for e in &evs {
            queries += 1;
            match cluster.ask(ReadEvent::new(e.id)).await {
                Ok(Some(r)) => {
                    if e.seq >= w {
                        problems.push(("read-event".into(), format!("ReadEvent returned sequence {} (count {}), watermark {w}", r.partition_sequence, e.count)));
                    } else {
                        exact += 1;
                    }
                }
                Ok(None) | Err(_) => {
                    if e.seq < w {
                        fewer += 1;
                    }
                }
            }
        }
        // partition scans: every (start, end, count)
        let ends: Vec<Option<u64>> = std::iter::once(None).chain((0..=n + 1).map(Some)).collect();
        for start in 0..=n + 1 {
            for end in &ends {
                for count in [1u64, 2, 100] {
                    queries += 1;
                    match cluster.ask(ReadPartition { partition_id: p, start_sequence: start, end_sequence: *end, count }).await {
                        Ok(r) => {
                            if let Some(bad) = r.events.iter().find(|x| x.partition_sequence >= w) {
                                problems.push(("read-partition".into(), format!("ReadPartition(start {start}, end {end:?}, count {count}) returned sequence {} with watermark {w}", bad.partition_sequence)));
                            }
                            let want: Vec<u64> = evs.iter().filter(|e| e.seq >= start && e.seq < w && end.map(|x| e.seq <= x).unwrap_or(true)).map(|e| e.seq).take(count as usize).collect();
                            let got: Vec<u64> = r.events.iter().map(|x| x.partition_sequence).collect();
                            if got == want {
                                exact += 1;
                            } else if got.len() < want.len() {
                                fewer += 1;
                            }
                        }
                        Err(e) => problems.push(("read-partition-error".into(), format!("ReadPartition(start {start}, end {end:?}, count {count}) failed: {e}"))),
                    }
                }
            }
        }
        // stream scans
        for s in ["a", "b"] {
            let sevs: Vec<&Ev> = evs.iter().filter(|e| e.stream == s).collect();
            let m = sevs.len() as u64;
            let vends: Vec<Option<u64>> = std::iter::once(None).chain((0..=m + 1).map(Some)).collect();
            for start in 0..=m + 1 {
                for end in &vends {
                    for count in [1u64, 100] {
                        queries += 1;
                        match cluster.ask(ReadStream { partition_id: p, stream_id: StreamId::new(s.to_string()).unwrap(), start_version: start, end_version: *end, count }).await {
                            Ok(r) => {
                                if let Some(bad) = r.events.iter().find(|x| x.partition_sequence >= w) {
                                    problems.push(("read-stream".into(), format!("ReadStream({s}, start {start}, end {end:?}, count {count}) returned version {} at sequence {} with watermark {w}", bad.stream_version, bad.partition_sequence)));
                                }
                            }
                            Err(e) => problems.push(("read-stream-error".into(), format!("ReadStream({s}, start {start}, end {end:?}) failed: {e}"))),
                        }
                    }
                }
            }
            // the same stream addressed through the sibling partition (same bucket, other watermark)
            for count in [1u64, 100] {
                queries += 1;
                if let Ok(r) = cluster.ask(ReadStream { partition_id: other, stream_id: StreamId::new(s.to_string()).unwrap(), start_version: 0, end_version: None, count }).await {
                    if let Some(bad) = r.events.iter().find(|x| x.partition_id == p && x.partition_sequence >= w) {
                        problems.push(("read-stream-sibling-partition".into(), format!("ReadStream({s}) addressed to partition {other} returned partition {p} sequence {} (version {}), above that partition's watermark {w}", bad.partition_sequence, bad.stream_version)));
                    }
                }
            }
            queries += 1;
            if let Ok(Some(v)) = cluster.ask(GetStreamVersion { partition_id: other, stream_id: StreamId::new(s.to_string()).unwrap() }).await {
                let visible_max = sevs.iter().filter(|e| e.seq < w).map(|e| e.ver as i64).max().unwrap_or(-1);
                if v as i64 > visible_max {
                    problems.push(("stream-version-sibling-partition".into(), format!("GetStreamVersion({s}) addressed to partition {other} = {v}, highest visible version {visible_max} (watermark {w} of partition {p})")));
                }
            }
            queries += 1;
            let visible_max = sevs.iter().filter(|e| e.seq < w).map(|e| e.ver as i64).max().unwrap_or(-1);
            match cluster.ask(GetStreamVersion { partition_id: p, stream_id: StreamId::new(s.to_string()).unwrap() }).await {
                Ok(v) => {
                    let got = v.map(|x| x as i64).unwrap_or(-1);
                    if got > visible_max {
                        problems.push(("stream-version".into(), format!("GetStreamVersion({s}) = {got}, highest visible version {visible_max} (watermark {w})")));
                    } else if got == visible_max {
                        exact += 1;
                    } else {
                        fewer += 1;
                    }
                }
                Err(e) => problems.push(("stream-version-error".into(), format!("GetStreamVersion({s}) failed: {e}"))),
            }
        }
        queries += 1;
        match cluster.ask(GetPartitionSequence { partition_id: p }).await {
            Ok(v) => {
                let got = v.map(|x| x as i64).unwrap_or(-1);
                if got > w as i64 - 1 {
                    problems.push(("partition-sequence".into(), format!("GetPartitionSequence = {got} with watermark {w}")));
                } else if got == w as i64 - 1 {
                    exact += 1;
                }
            }
            Err(e) => problems.push(("partition-sequence-error".into(), format!("GetPartitionSequence failed: {e}"))),
        }
        rep.class(format!("rf={rf} w={w} of {n} phase={phase}"));
        for (what, msg) in problems {
            let key = format!("c07:exposed:{what}");
            if reported.insert(key.clone()) {
                rep.violation(&key, json!({"problem": msg, "rf": rf, "history": row["hist"], "watermark": w, "phase": if phase == 0 { "watermark derived from disk" } else { "live confirmations, last first" }}), json!({"row": row, "rf": rf}));
            } else {
                rep.violations += 1;
            }
        }
        if rep.samples.len() < 3 && w > 0 && w < n {
            rep.sample(json!({"rf": rf, "history": row["hist"], "watermark": w, "events": n}));
        }
        db.shutdown().await;
      }
    }
    let _ = std::fs::remove_dir_all(&root);
    rep.set("queries", json!(queries));
    rep.set("answers_equal_to_visible_set", json!(exact));
    rep.set("answers_with_fewer_than_visible", json!(fewer));
    rep.set("rf", json!(rf));
}
