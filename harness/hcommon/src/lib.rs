pub fn placeholder() {}
