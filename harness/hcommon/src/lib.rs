//! Shared helpers for the verification harness binaries: NDJSON input, the
//! VIOLATION / STAT stdout protocol understood by /verif/vlib/core.py, seeds.
use serde_json::{Value, json};
use std::io::{BufRead, BufReader};

pub fn read_ndjson(path: &str) -> Vec<Value> {
    let f = std::fs::File::open(path).unwrap_or_else(|e| panic!("open {path}: {e}"));
    BufReader::new(f)
        .lines()
        .map(|l| l.unwrap())
        .filter(|l| !l.trim().is_empty())
        .map(|l| serde_json::from_str(&l).unwrap_or_else(|e| panic!("bad json line: {e}: {l}")))
        .collect()
}

pub fn seed() -> u64 {
    std::env::var("VERIF_SEED").ok().and_then(|s| s.parse().ok()).unwrap_or(1)
}

pub fn tier_quick() -> bool {
    std::env::var("VERIF_TIER").map(|t| t != "thorough").unwrap_or(true)
}

/// Collects violations and counters; prints them in the driver's protocol.
pub struct Report {
    pub violations: u64,
    pub max_print: u64,
    pub evaluations: u64,
    pub distinct: std::collections::BTreeSet<String>,
    pub samples: Vec<Value>,
    pub extra: serde_json::Map<String, Value>,
}

impl Default for Report {
    fn default() -> Self {
        Self::new()
    }
}

impl Report {
    pub fn new() -> Self {
        Report {
            violations: 0,
            max_print: 25,
            evaluations: 0,
            distinct: Default::default(),
            samples: vec![],
            extra: Default::default(),
        }
    }

    pub fn violation(&mut self, key: &str, detail: Value, replay: Value) {
        self.violations += 1;
        if self.violations <= self.max_print {
            println!("VIOLATION {}", json!({"key": key, "detail": detail, "replay": replay}));
        }
    }

    pub fn eval(&mut self, n: u64) {
        self.evaluations += n;
    }

    pub fn class(&mut self, c: impl Into<String>) {
        self.distinct.insert(c.into());
    }

    pub fn sample(&mut self, v: Value) {
        if self.samples.len() < 4 {
            self.samples.push(v);
        }
    }

    pub fn set(&mut self, k: &str, v: Value) {
        self.extra.insert(k.to_string(), v);
    }

    pub fn add(&mut self, k: &str, n: u64) {
        let cur = self.extra.get(k).and_then(|v| v.as_u64()).unwrap_or(0);
        self.extra.insert(k.to_string(), json!(cur + n));
    }

    pub fn finish(self) {
        let mut m = self.extra;
        m.insert("evaluations".into(), json!(self.evaluations));
        m.insert("distinct_classes".into(), json!(self.distinct.len()));
        m.insert("class_names".into(), json!(self.distinct.iter().collect::<Vec<_>>()));
        m.insert("violations".into(), json!(self.violations));
        m.insert("samples".into(), json!(self.samples));
        println!("STAT {}", Value::Object(m));
    }
}

/// Run `f`, converting a panic of the code under test into Err(message).
pub fn catch<T>(f: impl FnOnce() -> T + std::panic::UnwindSafe) -> Result<T, String> {
    std::panic::catch_unwind(f).map_err(|e| {
        if let Some(s) = e.downcast_ref::<&str>() {
            s.to_string()
        } else if let Some(s) = e.downcast_ref::<String>() {
            s.clone()
        } else {
            "panic".to_string()
        }
    })
}

pub static LAST_PANIC: std::sync::Mutex<String> = std::sync::Mutex::new(String::new());

/// Silences the default panic output; the message and location of the last panic are kept
/// in LAST_PANIC (panics of the code under test are data, reported as violations).
pub fn quiet_panics() {
    std::panic::set_hook(Box::new(|info| {
        let msg = if let Some(s) = info.payload().downcast_ref::<&str>() {
            s.to_string()
        } else if let Some(s) = info.payload().downcast_ref::<String>() {
            s.clone()
        } else {
            "non-string panic payload".to_string()
        };
        let loc = info.location().map(|l| format!("{}:{}", l.file(), l.line())).unwrap_or_default();
        let thread = std::thread::current().name().unwrap_or("?").to_string();
        if let Ok(mut g) = LAST_PANIC.lock() {
            *g = format!("{msg} at {loc} (thread {thread})");
        }
    }));
}

pub fn last_panic() -> String {
    LAST_PANIC.lock().map(|g| g.clone()).unwrap_or_default()
}
