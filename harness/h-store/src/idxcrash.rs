//! C06: crash between a rollover and the background flush of the sealed segment's index
//! files.  IndexCrash.tla's table lists, per file (event / partition / stream index), the
//! section the file is cut in (or empty / complete), with the required outcome: reopening
//! succeeds and every acknowledged event of the sealed segment is found by id, stream and
//! partition.  Each class is expanded to concrete byte lengths of the real files (section
//! boundaries +-1, strided interior), the truncated image is reopened with the real
//! DatabaseBuilder and every read API is compared with the reference log.
use std::collections::BTreeMap;
use std::path::{Path, PathBuf};

use hcommon::{Report, read_ndjson};
use serde_json::{Value, json};

use crate::verify::verify_reads;
use crate::world::*;
use crate::{close, scratch};

fn copy_dir(src: &Path, dst: &Path) {
    std::fs::create_dir_all(dst).unwrap();
    for e in std::fs::read_dir(src).unwrap().flatten() {
        let to = dst.join(e.file_name());
        if e.file_type().unwrap().is_dir() {
            copy_dir(&e.path(), &to);
        } else {
            std::fs::copy(e.path(), &to).unwrap();
        }
    }
}

fn seg_dir(dir: &Path, seg: u32) -> PathBuf {
    dir.join("buckets").join("00000").join("segments").join(format!("{seg:010}"))
}

const FILES: [(&str, &str); 3] = [("eidx", "index.eidx"), ("pidx", "partition.pidx"), ("sidx", "stream.sidx")];

/// section boundaries of an index file: name -> (start, end)
fn sections(kind: &str, bytes: &[u8]) -> BTreeMap<&'static str, (usize, usize)> {
    let mut m = BTreeMap::new();
    let mphf_len = u64::from_le_bytes(bytes[12..20].try_into().unwrap()) as usize;
    m.insert("magic", (0, 4));
    m.insert("counts", (4, 20));
    m.insert("mphf", (20, 20 + mphf_len));
    let mut at = 20 + mphf_len;
    if kind == "sidx" {
        let bl = u64::from_le_bytes(bytes[at..at + 8].try_into().unwrap()) as usize;
        m.insert("bloom", (at, at + 8 + bl));
        at += 8 + bl;
    }
    m.insert("records", (at, bytes.len()));
    m
}

/// lengths the file may be cut to for a class
fn cuts(class: &str, secs: &BTreeMap<&'static str, (usize, usize)>, len: usize, quick: bool, salt: usize) -> Vec<usize> {
    match class {
        "empty" => vec![0],
        "complete" => vec![len],
        s => {
            let (lo, hi) = secs[s];
            // cut inside the section: lo < cut < hi ... and a cut exactly at its start (the
            // previous section complete, nothing of this one) belongs to it as well
            let mut v: Vec<usize> = vec![lo.max(1), lo + 1, hi.saturating_sub(1)];
            let n = hi - lo;
            let k = if quick { 2 } else { 12 };
            for i in 1..=k {
                v.push(lo + (n * i) / (k + 1));
            }
            v.push(lo + (salt * 7919) % n.max(1));
            v.retain(|c| *c >= lo.max(1) && *c < hi && *c < len);
            v.sort();
            v.dedup();
            v
        }
    }
}

pub async fn idxcrash_cmd(rep: &mut Report, table: &str) {
    let quick = hcommon::tier_quick();
    let rows = read_ndjson(table);
    let root = scratch("idxcrash");
    rep.max_print = 100_000; // every distinct key is needed (known findings are matched per key)
    // a history with two sealed segments: several streams, two partitions, multi-event transactions
    // two buckets: bucket 0 rolls over twice, bucket 1 stays in its first segment (buckets at different segment ids)
    let cfg = DbCfg { ..DbCfg::small(2) };
    let base = root.join("base");
    let mut w = World::new(base.clone(), cfg.clone(), PayloadRule::Rollover, hcommon::seed()).unwrap();
    let mut id = 0u64;
    let mut vers: BTreeMap<String, u64> = BTreeMap::new();
    for k in 0..14u64 {
        id += 1;
        let n = 1 + (k % 3) as usize;
        let s = format!("s{}", k % 3);
        let p = (k % 2) as u16 * 2; // partitions 0 and 2 (one bucket)
        let txv = json!({"id": id, "key": format!("k{s}"), "p": if s == "s0" { 0 } else { p.min(0) + if s == "s1" { 2 } else { 0 } }, "xs": {"k": "any"}, "oversize": false,
                         "evs": (0..n).map(|_| json!({"s": s, "x": {"k": "any"}, "badts": false})).collect::<Vec<_>>()});
        let prep = w.prepare(&txv);
        let r = w.db().append_events(prep.tx.clone()).await.expect("setup append");
        let v0 = *vers.get(&s).unwrap_or(&0);
        let vs: Vec<u64> = (0..n as u64).map(|j| v0 + j).collect();
        vers.insert(s.clone(), v0 + n as u64);
        w.record(prep, &json!({"first": r.first_partition_sequence, "vers": vs}));
        // restarts while a segment is live: the segment is later sealed by a process that
        // hydrated its indexes from the data file
        if k == 1 || k == 8 {
            // (all index files are complete here: a failure to reopen is the property's, not the harness's)
            if let Err(e) = crate::reopen(&mut w).await {
                rep.violation("c06:reopen-blocked:complete-files", json!({"problem": format!("reopening a cleanly closed database with complete index files failed after transaction {id}: {e}"), "buckets": 2}), json!({"setup_step": k}));
                shutdown_all().await;
                let _ = std::fs::remove_dir_all(&root);
                return;
            }
        }
    }
    for k in 0..2u64 {
        id += 1;
        let txv = json!({"id": id, "key": "ks9", "p": 1, "xs": {"k": "any"}, "oversize": false,
                         "evs": [{"s": "s9", "x": {"k": "any"}, "badts": false}]});
        let prep = w.prepare(&txv);
        let r = w.db().append_events(prep.tx.clone()).await.expect("setup append (second bucket)");
        w.record(prep, &json!({"first": r.first_partition_sequence, "vers": [k]}));
    }
    // let the background flush of the sealed segments' indexes finish, then stop
    tokio::time::sleep(std::time::Duration::from_millis(400)).await;
    close(&mut w).await;
    shutdown_all().await;
    let sealed: Vec<u32> = {
        let mut v: Vec<u32> = std::fs::read_dir(base.join("buckets").join("00000").join("segments")).unwrap().flatten()
            .filter_map(|e| e.file_name().to_string_lossy().parse().ok()).collect();
        v.sort();
        v.pop();
        v
    };
    if sealed.is_empty() {
        rep.violation("c06:harness-setup", json!({"problem": "history produced no sealed segment"}), json!({}));
        return;
    }
    // the complete files of every sealed segment
    let mut orig: BTreeMap<(u32, &str), Vec<u8>> = BTreeMap::new();
    for &g in &sealed {
        for (kind, name) in FILES {
            orig.insert((g, kind), std::fs::read(seg_dir(&base, g).join(name)).unwrap());
        }
    }
    let mut reported = std::collections::BTreeSet::new();
    let mut images = 0u64;
    for (ri, row) in rows.iter().enumerate() {
        let classes: Vec<&str> = FILES.iter().map(|(k, _)| row[k].as_str().unwrap()).collect();
        // quick: single-file classes and a sample of the joint ones
        let incomplete = classes.iter().filter(|c| **c != "complete").count();
        if quick && incomplete > 1 && ri % 9 != 0 {
            continue;
        }
        let g = sealed[ri % sealed.len()];
        let secs: Vec<_> = FILES.iter().map(|(k, _)| sections(k, &orig[&(g, *k)])).collect();
        let lens: Vec<usize> = FILES.iter().map(|(k, _)| orig[&(g, *k)].len()).collect();
        let per: Vec<Vec<usize>> = (0..3).map(|i| cuts(classes[i], &secs[i], lens[i], quick || incomplete > 1, ri + i)).collect();
        let rounds = per.iter().map(|v| v.len()).max().unwrap_or(1);
        rep.class(format!("eidx={} pidx={} sidx={}", classes[0], classes[1], classes[2]));
        for r in 0..rounds {
            let lens_now: Vec<usize> = (0..3).map(|i| per[i][r % per[i].len()]).collect();
            images += 1;
            rep.eval(1);
            let img = root.join("img");
            let _ = std::fs::remove_dir_all(&img);
            copy_dir(&base, &img);
            for i in 0..3 {
                let f = std::fs::OpenOptions::new().write(true).open(seg_dir(&img, g).join(FILES[i].1)).unwrap();
                f.set_len(lens_now[i] as u64).unwrap();
            }
            let label = json!({"segment": g, "eidx": {"class": classes[0], "bytes": lens_now[0], "of": lens[0]},
                               "pidx": {"class": classes[1], "bytes": lens_now[1], "of": lens[1]},
                               "sidx": {"class": classes[2], "bytes": lens_now[2], "of": lens[2]}});
            let res = tokio::spawn({
                let cfg = cfg.clone();
                let img = img.clone();
                let log = w.log.clone();
                let keys = w.keys.clone();
                async move {
                    let db = cfg.open(&img).map_err(|e| format!("reopen: {e}"))?;
                    let w2 = World { cfg, dir: img, db: Some(db), log, keys, payload_rule: PayloadRule::Tiny, rng: rand::SeedableRng::seed_from_u64(1) };
                    let r = verify_reads(&w2, false, true).await.map(|_| ()).map_err(|e| format!("lookup: {e}"));
                    r
                }
            })
            .await;
            shutdown_all().await;
            let problem = match res {
                Ok(Ok(())) => None,
                Ok(Err(e)) => Some(e),
                Err(_) => Some(format!("panic: {}", hcommon::last_panic())),
            };
            if let Some(e) = problem {
                let what = if e.starts_with("reopen") { "reopen-blocked" } else if e.starts_with("panic") { "panic" } else { "lookup-fails" };
                // key: the failure kind and, per file, whether it was complete
                let shape: Vec<String> = (0..3).filter(|i| classes[*i] != "complete").map(|i| format!("{}={}", FILES[i].0, classes[i])).collect();
                let key = format!("c06:{what}:{}", if shape.is_empty() { "all-complete".to_string() } else { shape.join(",") });
                if reported.insert(key.clone()) {
                    rep.violation(&key, json!({"problem": e, "image": label}), label.clone());
                } else {
                    rep.violations += 1;
                }
            }
            if rep.samples.len() < 3 && incomplete == 1 {
                rep.sample(label);
            }
        }
    }
    let _ = std::fs::remove_dir_all(&root);
    rep.set("images", json!(images));
    rep.set("table_rows", json!(rows.len()));
    rep.set("sealed_segments", json!(sealed.len()));
    let _: Option<Value> = None;
}
