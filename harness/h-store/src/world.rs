//! A real sierradb `Database` driven by EventStore.tla steps, plus the reference log the
//! specification prescribes and the read oracle derived from it.
use std::collections::{BTreeMap, BTreeSet, HashMap};
use std::path::{Path, PathBuf};
use std::sync::Arc;
use std::time::Duration;

use serde_json::{Value, json};
use sierradb::bucket::segment::{CommittedEvents, EventRecord};
use sierradb::database::{Database, DatabaseBuilder, ExpectedVersion, NewEvent, Transaction};
use sierradb::error::{EventValidationError, WriteError};
use sierradb::id::{set_uuid_flag, uuid_to_partition_hash, uuid_v7_with_partition_hash};
use sierradb::writer_thread_pool::AppendResult;
use sierradb::{IterDirection, StreamId};
use smallvec::SmallVec;
use uuid::Uuid;

#[derive(Clone, Debug)]
pub struct DbCfg {
    pub segment_size: usize,
    pub compression: bool,
    pub nb: u16,
    pub writer_threads: u16,
    pub reader_threads: u16,
    pub sync_interval_ms: u64,
    pub min_sync_bytes: usize,
    pub max_batch: usize,
    pub cache_bytes: usize,
}

impl DbCfg {
    pub fn small(nb: u16) -> Self {
        DbCfg {
            segment_size: 128 * 1024,
            compression: false,
            nb,
            writer_threads: 1,
            reader_threads: 2,
            sync_interval_ms: 1,
            min_sync_bytes: 1,
            max_batch: 1,
            cache_bytes: 8 << 20,
        }
    }
    pub fn describe(&self) -> Value {
        json!({"segment_size": self.segment_size, "compression": self.compression, "buckets": self.nb,
               "writer_threads": self.writer_threads, "sync_interval_ms": self.sync_interval_ms,
               "min_sync_bytes": self.min_sync_bytes, "max_batch": self.max_batch})
    }
    pub fn open(&self, dir: &Path) -> Result<Database, String> {
        let mut b = DatabaseBuilder::new();
        b.segment_size_bytes(self.segment_size)
            .compression(self.compression)
            .total_buckets(self.nb)
            .bucket_ids(Arc::from((0..self.nb).collect::<Vec<_>>()))
            .writer_threads(self.writer_threads)
            .reader_threads(self.reader_threads)
            .sync_interval(Duration::from_millis(self.sync_interval_ms))
            .sync_idle_interval(Duration::from_millis(self.sync_interval_ms.max(1) * 4))
            .min_sync_bytes(self.min_sync_bytes)
            .max_batch_size(self.max_batch)
            .cache_capacity_bytes(self.cache_bytes);
        let db = b.open(dir).map_err(|e| format!("open failed: {e}"))?;
        OPEN_DBS.lock().unwrap().push(db.clone());
        Ok(db)
    }
}

/// One event as the reference model knows it, with the concrete bytes the harness chose.
#[derive(Clone, Debug, PartialEq)]
pub struct RefEvent {
    pub tx: u64,
    pub idx: usize,
    pub n: usize,
    pub stream: String,
    pub key: String,
    pub p: u16,
    pub seq: u64,
    pub ver: u64,
    pub event_id: Uuid,
    pub payload: Vec<u8>,
    pub metadata: Vec<u8>,
    pub name: String,
    pub ts: u64,
}

pub struct World {
    pub cfg: DbCfg,
    pub dir: PathBuf,
    pub db: Option<Database>,
    /// reference log per partition, as prescribed by the specification
    pub log: BTreeMap<u16, Vec<RefEvent>>,
    pub keys: HashMap<String, Uuid>,
    pub payload_rule: PayloadRule,
    pub rng: rand::rngs::StdRng,
}

#[derive(Clone, Copy, Debug)]
pub enum PayloadRule {
    Tiny,
    /// sizes chosen so that records straddle 64 KiB block and segment boundaries
    Straddle,
    /// ~30 KiB payloads: a rollover every few transactions at 128 KiB segments
    Rollover,
    Mixed,
}

pub fn tx_uuid(id: u64, single: bool) -> Uuid {
    set_uuid_flag(Uuid::from_u128(0x7a00_0000_0000_0000_0000_0000_0000_0000u128 | id as u128), single)
}

pub fn exp_of(v: &Value) -> ExpectedVersion {
    match v["k"].as_str().unwrap() {
        "any" => ExpectedVersion::Any,
        "exists" => ExpectedVersion::Exists,
        "empty" => ExpectedVersion::Empty,
        "exact" => ExpectedVersion::Exact(v["v"].as_u64().unwrap()),
        k => panic!("bad expectation {k}"),
    }
}

pub fn class_of(e: &WriteError) -> &'static str {
    match e {
        WriteError::WrongExpectedVersion { .. } => "wrong_version",
        WriteError::WrongExpectedSequence { .. } => "wrong_sequence",
        WriteError::Validation(EventValidationError::PartitionKeyMismatch { .. }) => "key_mismatch",
        WriteError::EventsExceedSegmentSize => "too_large",
        _ => "other",
    }
}

/// every database opened by this process, so that a failed run can still be shut down
pub static OPEN_DBS: std::sync::Mutex<Vec<Database>> = std::sync::Mutex::new(Vec::new());

pub async fn shutdown_all() {
    let dbs: Vec<Database> = std::mem::take(&mut *OPEN_DBS.lock().unwrap());
    for db in dbs {
        db.shutdown().await;
    }
}

pub struct Prepared {
    pub tx: Transaction,
    pub events: Vec<RefEvent>, // seq/ver filled in when accepted
}

impl World {
    pub fn new(dir: PathBuf, cfg: DbCfg, rule: PayloadRule, seed: u64) -> Result<Self, String> {
        use rand::SeedableRng;
        let _ = std::fs::remove_dir_all(&dir);
        std::fs::create_dir_all(&dir).unwrap();
        let db = cfg.open(&dir)?;
        Ok(World {
            cfg,
            dir,
            db: Some(db),
            log: BTreeMap::new(),
            keys: HashMap::new(),
            payload_rule: rule,
            rng: rand::rngs::StdRng::seed_from_u64(seed),
        })
    }

    pub fn db(&self) -> &Database {
        self.db.as_ref().unwrap()
    }

    pub fn key_uuid(&mut self, k: &str) -> Uuid {
        use rand::RngExt;
        if let Some(u) = self.keys.get(k) {
            return *u;
        }
        let u = Uuid::from_u128(self.rng.random::<u128>());
        self.keys.insert(k.to_string(), u);
        u
    }

    fn payload(&mut self, tx: u64, idx: usize, n: usize) -> Vec<u8> {
        use rand::RngExt;
        // a multi-event transaction must still fit a segment: only its first event is large
        let rule = if idx > 0 && n > 1 && !matches!(self.payload_rule, PayloadRule::Tiny) { PayloadRule::Mixed } else { self.payload_rule };
        let len = match rule {
            PayloadRule::Tiny => 8 + (tx as usize * 7 + idx) % 40,
            PayloadRule::Rollover => 20_000 + self.rng.random_range(0..15_000),
            PayloadRule::Straddle => match self.rng.random_range(0..6) {
                0 => 65_536 - 200 + self.rng.random_range(0..400),
                1 => 30_000 + self.rng.random_range(0..5000),
                2 => 100,
                3 => 4096 + self.rng.random_range(0..64),
                4 => 2040 + self.rng.random_range(0..16),
                _ => self.rng.random_range(0..600),
            },
            PayloadRule::Mixed => match self.rng.random_range(0..10) {
                0 if idx == 0 => 40_000,
                1 => 9_000,
                _ => self.rng.random_range(0..300),
            },
        };
        let compressible = self.rng.random_bool(0.5);
        let mut v = Vec::with_capacity(len);
        let mut x = (tx << 8 | idx as u64).wrapping_mul(0x9E37_79B9_7F4A_7C15) | 1;
        for i in 0..len {
            if compressible {
                v.push(b'a' + ((tx as usize + i / 11) % 13) as u8);
            } else {
                x ^= x << 13;
                x ^= x >> 7;
                x ^= x << 17;
                v.push((x >> 29) as u8);
            }
        }
        v
    }

    /// Builds the concrete transaction for a model transaction
    /// `[id, key, p, xs, evs : [s, x, badts], oversize]`.
    pub fn prepare(&mut self, tx: &Value) -> Prepared {
        let id = tx["id"].as_u64().unwrap();
        let key = tx["key"].as_str().unwrap().to_string();
        let p = tx["p"].as_u64().unwrap() as u16;
        let ku = self.key_uuid(&key);
        let hash = uuid_to_partition_hash(ku);
        let evs = tx["evs"].as_array().unwrap();
        let n = evs.len();
        let oversize = tx["oversize"].as_bool().unwrap_or(false);
        let mut new_events: SmallVec<[NewEvent; 4]> = SmallVec::new();
        let mut refs = vec![];
        for (i, e) in evs.iter().enumerate() {
            let stream = e["s"].as_str().unwrap().to_string();
            let event_id = uuid_v7_with_partition_hash(hash);
            let mut payload = self.payload(id, i, n);
            if oversize && i == 0 {
                payload = vec![0x55; self.cfg.segment_size];
            }
            let ts = if e["badts"].as_bool().unwrap_or(false) { 1u64 << 63 } else { 1_700_000_000_000_000_000 + id * 1000 + i as u64 };
            let metadata = format!("m{id}.{i}").into_bytes();
            let name = format!("Ev{}", id % 5);
            new_events.push(NewEvent {
                event_id,
                stream_id: StreamId::new(stream.clone()).unwrap(),
                stream_version: exp_of(&e["x"]),
                event_name: name.clone(),
                timestamp: ts,
                metadata: metadata.clone(),
                payload: payload.clone(),
            });
            refs.push(RefEvent { tx: id, idx: i, n, stream, key: key.clone(), p, seq: 0, ver: 0, event_id, payload, metadata, name, ts });
        }
        let t = Transaction::new(ku, p, new_events)
            .expect("transaction construction")
            .expected_partition_sequence(exp_of(&tx["xs"]))
            .with_transaction_id(tx_uuid(id, n == 1));
        Prepared { tx: t, events: refs }
    }

    /// Records an accepted transaction in the reference log with the positions the
    /// specification assigned (`res.first`, `res.vers`).
    pub fn record(&mut self, prep: Prepared, res: &Value) {
        let first = res["first"].as_u64().unwrap();
        let vers = res["vers"].as_array().unwrap();
        for (i, mut e) in prep.events.into_iter().enumerate() {
            e.seq = first + i as u64;
            e.ver = vers[i].as_u64().unwrap();
            self.log.entry(e.p).or_default().push(e);
        }
    }

    /// Compares a real append outcome with the one the specification prescribes.
    pub fn compare_append(&self, prep: &Prepared, res: &Value, got: &Result<AppendResult, WriteError>) -> Result<(), String> {
        let want_ok = res["ok"].as_bool().unwrap();
        match (want_ok, got) {
            (true, Ok(r)) => {
                let first = res["first"].as_u64().unwrap();
                let n = prep.events.len() as u64;
                if r.first_partition_sequence != first || r.last_partition_sequence != first + n - 1 {
                    return Err(format!("accepted with sequences {}..{}, model assigns {}..{}", r.first_partition_sequence, r.last_partition_sequence, first, first + n - 1));
                }
                let mut want: HashMap<String, u64> = HashMap::new();
                for (i, e) in prep.events.iter().enumerate() {
                    want.insert(e.stream.clone(), res["vers"][i].as_u64().unwrap());
                }
                let gotv: HashMap<String, u64> = r.stream_versions.iter().map(|(s, v)| (s.to_string(), *v)).collect();
                if gotv != want {
                    return Err(format!("accepted with stream versions {gotv:?}, model assigns {want:?}"));
                }
                if r.offsets.len() != prep.events.len() {
                    return Err(format!("{} offsets for {} events", r.offsets.len(), prep.events.len()));
                }
                Ok(())
            }
            (false, Err(_)) => Ok(()),
            (true, Err(e)) => Err(format!("model accepts, store rejected: {e}")),
            (false, Ok(r)) => Err(format!("model rejects ({}), store accepted at {}..{}", res["class"], r.first_partition_sequence, r.last_partition_sequence)),
        }
    }

    // -----------------------------------------------------------------------
    // oracle

    pub fn bucket_of(&self, p: u16) -> u16 {
        p % self.cfg.nb
    }

    pub fn stream_events(&self, b: u16, s: &str) -> Vec<&RefEvent> {
        let mut v: Vec<&RefEvent> = self.log.iter().filter(|(p, _)| *p % self.cfg.nb == b).flat_map(|(_, l)| l.iter()).filter(|e| e.stream == s).collect();
        v.sort_by_key(|e| e.ver);
        v
    }

    pub fn streams(&self) -> BTreeSet<(u16, String)> {
        self.log.iter().flat_map(|(p, l)| l.iter().map(move |e| (*p % self.cfg.nb, e.stream.clone()))).collect()
    }

    pub fn same(real: &EventRecord, want: &RefEvent, ku: Uuid) -> Result<(), String> {
        let single = want.n == 1;
        if real.event_id != want.event_id
            || real.partition_id != want.p
            || real.partition_sequence != want.seq
            || real.stream_version != want.ver
            || real.stream_id.as_ref() != want.stream
            || real.partition_key != ku
            || real.transaction_id != tx_uuid(want.tx, single)
            || real.payload != want.payload
            || real.metadata != want.metadata
            || real.event_name != want.name
            || real.timestamp != want.ts
        {
            return Err(format!(
                "event differs: real (id {}, p {}, seq {}, ver {}, stream {}, tx {}, payload {}B) vs model (id {}, p {}, seq {}, ver {}, stream {}, tx {}, payload {}B)",
                real.event_id, real.partition_id, real.partition_sequence, real.stream_version, real.stream_id, real.transaction_id, real.payload.len(),
                want.event_id, want.p, want.seq, want.ver, want.stream, tx_uuid(want.tx, single), want.payload.len()
            ));
        }
        Ok(())
    }

    pub fn key_of(&self, e: &RefEvent) -> Uuid {
        self.keys[&e.key]
    }
}

pub fn flatten(groups: &[CommittedEvents]) -> Vec<EventRecord> {
    groups.iter().flat_map(|g| g.clone().into_iter()).collect()
}

/// latest stream version / partition sequence as the real database reports them (-1 = none)
pub async fn latest(db: &Database, w: &World, b: u16, s: &str) -> Result<i64, String> {
    db.get_stream_version(b, &StreamId::new(s.to_string()).unwrap())
        .await
        .map(|o| o.map(|v| v.version as i64).unwrap_or(-1))
        .map_err(|e| format!("get_stream_version({b},{s}) failed: {e}"))
        .map(|v| {
            let _ = w;
            v
        })
}

pub async fn latest_seq(db: &Database, p: u16) -> Result<i64, String> {
    db.get_partition_sequence(p)
        .await
        .map(|o| o.map(|v| v.sequence as i64).unwrap_or(-1))
        .map_err(|e| format!("get_partition_sequence({p}) failed: {e}"))
}

pub async fn scan_partition(db: &Database, p: u16, from: u64, dir: IterDirection, batch: usize) -> Result<Vec<Vec<CommittedEvents>>, String> {
    let mut it = db.read_partition(p, from, dir).await.map_err(|e| format!("read_partition({p},{from}) failed: {e}"))?;
    let mut out = vec![];
    let mut guard = 0;
    loop {
        match it.next_batch(batch).await {
            Ok(Some(b)) => out.push(b),
            Ok(None) => break,
            Err(e) => return Err(format!("partition {p} scan from {from} failed after {} batches: {e}", out.len())),
        }
        guard += 1;
        if guard > 100_000 {
            return Err(format!("partition {p} scan from {from} does not terminate"));
        }
    }
    Ok(out)
}

pub async fn scan_stream(db: &Database, b: u16, s: &str, from: u64, dir: IterDirection, batch: usize) -> Result<Vec<Vec<CommittedEvents>>, String> {
    let mut it = db
        .read_stream(b, StreamId::new(s.to_string()).unwrap(), from, dir)
        .await
        .map_err(|e| format!("read_stream({s},{from}) failed: {e}"))?;
    let mut out = vec![];
    let mut guard = 0;
    loop {
        match it.next_batch(batch).await {
            Ok(Some(b)) => out.push(b),
            Ok(None) => break,
            Err(e) => return Err(format!("stream {s} scan from {from} failed after {} batches: {e}", out.len())),
        }
        guard += 1;
        if guard > 100_000 {
            return Err(format!("stream {s} scan from {from} does not terminate"));
        }
    }
    Ok(out)
}
