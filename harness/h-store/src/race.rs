//! C16: concurrent conflicting appends are serialised.  Clients race optimistic appends
//! (exact / empty expectations read a moment earlier, some deliberately stale) on shared
//! streams and partitions of a real Database; every call and its result is recorded, plus the
//! final latest versions and sequences.  TraceSerial.tla then searches for a serial order of
//! the reference model that explains each run.
use std::io::Write;
use std::sync::Arc;

use hcommon::Report;
use rand::{RngExt, SeedableRng};
use serde_json::{Value, json};

use crate::world::*;
use crate::{close, scratch};

const NPART: u16 = 4;
const STREAMS: [&str; 3] = ["s1", "s2", "s3"];

pub async fn race_cmd(rep: &mut Report, out_prefix: &str) {
    let quick = hcommon::tier_quick();
    let root = scratch("race");
    let configs: &[(u16, u16)] = if quick { &[(1, 1), (2, 2)] } else { &[(1, 1), (2, 1), (2, 2), (4, 2)] };
    let runs_per = if quick { 4 } else { 40 };
    let clients = 8usize;
    let per_client = if quick { 10 } else { 12 };
    let mut files = vec![];
    let mut total_calls = 0u64;
    let mut total_ok = 0u64;
    let mut reject_classes: std::collections::BTreeMap<String, u64> = Default::default();
    for &(nb, wt) in configs {
        let path = format!("{out_prefix}-nb{nb}-wt{wt}.ndjson");
        let mut f = std::io::BufWriter::new(std::fs::File::create(&path).unwrap());
        for run in 1..=runs_per as u64 {
            rep.eval(1);
            let seed = hcommon::seed().wrapping_mul(0x5851_f42d) ^ (nb as u64) << 32 ^ (wt as u64) << 24 ^ run;
            // one run in four syncs on every append; the others leave appends unsynced until the
            // syncer's timer fires (5 / 20 / 50 ms), so that later appends meet pending state
            let timer = run % 4 != 0;
            let cfg = DbCfg { writer_threads: wt, sync_interval_ms: if !timer { 1 } else { [5, 20, 50][(run % 3) as usize] }, min_sync_bytes: if !timer { 1 } else { 1 << 30 },
                              max_batch: if !timer { 1 } else { 1000 }, ..DbCfg::small(nb) };
            let dir = root.join(format!("nb{nb}wt{wt}r{run}"));
            let w = match World::new(dir.clone(), cfg, PayloadRule::Tiny, seed) {
                Ok(w) => Arc::new(tokio::sync::Mutex::new(w)),
                Err(e) => {
                    rep.violation("c16:open", json!({"problem": e}), json!({"nb": nb, "wt": wt, "run": run}));
                    continue;
                }
            };
            let mut hs = vec![];
            for c in 0..clients {
                let w = w.clone();
                let jitter_ms = w.lock().await.cfg.sync_interval_ms;
                hs.push(tokio::spawn(async move {
                    let mut rng = rand::rngs::StdRng::seed_from_u64(seed ^ (c as u64 + 1) * 7919);
                    let mut calls: Vec<Value> = vec![];
                    let db = w.lock().await.db().clone();
                    for i in 0..per_client {
                        // half of the appends go to the client's own stream (its expectations are then
                        // right, so appends of different clients to one partition are accepted while
                        // earlier ones are still unsynced); the rest race on three shared streams.  A
                        // stream normally lives in one partition under one key; now and then a client
                        // uses another partition (same bucket or not) or another key
                        let own = rng.random_range(0..2) == 0;
                        let private = format!("c{c}");
                        let si = rng.random_range(0..STREAMS.len());
                        let s: &str = if own { &private } else { STREAMS[si] };
                        let home: u16 = if own { (c % 2) as u16 } else { si as u16 % NPART };
                        let p: u16 = if rng.random_range(0..8) == 0 { rng.random_range(0..NPART) } else { home };
                        let key = if rng.random_range(0..12) == 0 { "kx".to_string() } else { format!("k{s}") };
                        let b = p % nb;
                        let cur = latest(&db, &*w.lock().await, b, s).await.unwrap_or(-1);
                        let exp = |v: i64| if v < 0 { json!({"k": "empty"}) } else { json!({"k": "exact", "v": v}) };
                        let n = if rng.random_range(0..3) == 0 { 2 } else { 1 };
                        let mut evs = vec![];
                        for j in 0..n {
                            let x = match rng.random_range(0..10) {
                                0 => json!({"k": "any"}),
                                1 => exp(cur + 1 + j as i64), // optimistic guess one ahead (usually stale)
                                2 => json!({"k": "exists"}),
                                _ => exp(cur + j as i64),
                            };
                            evs.push(json!({"s": s, "x": x, "badts": false}));
                        }
                        let xs = if rng.random_range(0..4) == 0 {
                            let cs = latest_seq(&db, p).await.unwrap_or(-1);
                            exp(cs)
                        } else {
                            json!({"k": "any"})
                        };
                        let id = 1 + (c * 1000 + i) as u64;
                        let txv = json!({"id": id, "key": key, "p": p, "xs": xs, "evs": evs, "oversize": false});
                        let prep = w.lock().await.prepare(&txv);
                        // clients that all wait for the same sync would otherwise append in lock
                        // step right after it: spread them over the sync period
                        if rng.random_range(0..3) != 0 {
                            tokio::time::sleep(std::time::Duration::from_micros(rng.random_range(0..2_500 * jitter_ms))).await;
                        }
                        let r = db.append_events(prep.tx).await;
                        calls.push(match r {
                            Ok(a) => {
                                // per-event versions: the events of a stream end at its reported latest version
                                let mut vers = vec![0u64; n];
                                let latest_v = a.stream_versions.iter().find(|(k, _)| k.as_ref() == s).map(|(_, v)| *v).unwrap_or(0);
                                for j in 0..n {
                                    vers[j] = latest_v + 1 + j as u64 - n as u64;
                                }
                                let sane = a.last_partition_sequence + 1 - a.first_partition_sequence == n as u64;
                                json!({"e": "call", "tx": txv, "ok": 1, "first": a.first_partition_sequence, "vers": vers, "sane": sane})
                            }
                            Err(e) => json!({"e": "call", "tx": txv, "ok": 0, "class": class_of(&e), "first": 0, "vers": []}),
                        });
                    }
                    calls
                }));
            }
            let mut calls = vec![];
            let mut panicked = false;
            for h in hs {
                match h.await {
                    Ok(c) => calls.extend(c),
                    Err(_) => panicked = true,
                }
            }
            if panicked {
                rep.violation("c16:panic", json!({"problem": hcommon::last_panic()}), json!({"nb": nb, "wt": wt, "run": run, "seed": seed}));
            }
            let mut w = Arc::try_unwrap(w).ok().expect("clients done").into_inner();
            // final observations
            let mut lv = vec![];
            let all_streams: Vec<String> = STREAMS.iter().map(|s| s.to_string()).chain((0..clients).map(|c| format!("c{c}"))).collect();
            for b in 0..nb {
                for s in &all_streams {
                    let v = latest(w.db(), &w, b, s).await.unwrap_or(-99);
                    lv.push(json!({"b": b, "s": s, "v": v}));
                }
            }
            let mut ls = vec![];
            for p in 0..NPART {
                ls.push(json!({"p": p, "v": latest_seq(w.db(), p).await.unwrap_or(-99)}));
            }
            close(&mut w).await;
            shutdown_all().await;
            let _ = std::fs::remove_dir_all(&dir);
            for c in &calls {
                total_calls += 1;
                if c["ok"] == 1 {
                    total_ok += 1;
                    if c["sane"] == false {
                        rep.violation("c16:sequence-range", json!({"call": c}), json!({"nb": nb, "wt": wt, "run": run, "seed": seed}));
                    }
                } else {
                    *reject_classes.entry(c["class"].as_str().unwrap_or("?").to_string()).or_default() += 1;
                }
                let mut c = c.clone();
                c["run"] = json!(run);
                writeln!(f, "{c}").unwrap();
            }
            writeln!(f, "{}", json!({"e": "final", "run": run, "lv": lv, "ls": ls})).unwrap();
            if rep.samples.len() < 2 {
                rep.sample(json!({"buckets": nb, "writer_threads": wt, "calls": calls.iter().take(6).collect::<Vec<_>>(), "final": {"lv": lv, "ls": ls}}));
            }
        }
        f.flush().unwrap();
        files.push(json!({"path": path, "nb": nb, "wt": wt, "runs": runs_per}));
        rep.class(format!("buckets={nb},writer_threads={wt}"));
    }
    let _ = std::fs::remove_dir_all(&root);
    for k in reject_classes.keys() {
        rep.class(format!("reject:{k}"));
    }
    rep.set("files", json!(files));
    rep.set("calls", json!(total_calls));
    rep.set("accepted", json!(total_ok));
    rep.set("rejects", json!(reject_classes));
    rep.set("clients", json!(clients));
}
