//! C20, overload: many concurrent appenders fill the bounded request queue of one writer
//! thread (64 writer threads: 16 slots each); after the burst, when the store is quiet, a
//! few sequential appends must still complete within the deadline - the periodic flush
//! poll has to keep reaching a writer whose queue was full at some poll.
use std::sync::Arc;
use std::time::{Duration, Instant};

use hcommon::Report;
use serde_json::json;
use sierradb::StreamId;
use sierradb::database::{DatabaseBuilder, ExpectedVersion, NewEvent, Transaction};
use sierradb::id::{uuid_to_partition_hash, uuid_v7_with_partition_hash};
use smallvec::smallvec;
use uuid::Uuid;

const BUCKETS: u16 = 64;

fn tx(key: Uuid, stream: &str, tag: u64) -> Transaction {
    let hash = uuid_to_partition_hash(key);
    Transaction::new(
        key,
        // partition = bucket 0's first partition: every appender hits the same writer thread
        0,
        smallvec![NewEvent {
            event_id: uuid_v7_with_partition_hash(hash),
            stream_id: StreamId::new(stream.to_string()).unwrap(),
            stream_version: ExpectedVersion::Any,
            event_name: "O".into(),
            timestamp: 1_700_000_000_000_000_000 + tag,
            metadata: vec![],
            payload: vec![7u8; 24],
        }],
    )
    .unwrap()
}

pub async fn overload(rep: &mut Report, root: &std::path::Path, deadline_ms: u64) {
    let dir = root.join("overload");
    let _ = std::fs::remove_dir_all(&dir);
    std::fs::create_dir_all(&dir).unwrap();
    let mut b = DatabaseBuilder::new();
    b.segment_size_bytes(4 * 1024 * 1024)
        .total_buckets(BUCKETS)
        .bucket_ids(Arc::from((0..BUCKETS).collect::<Vec<_>>()))
        .writer_threads(BUCKETS)
        .reader_threads(2);
    let db = match b.open(&dir) {
        Ok(db) => db,
        Err(e) => {
            rep.violation("c20:open", json!({"config": "overload", "problem": e.to_string()}), json!({"config": "overload"}));
            return;
        }
    };
    rep.eval(1);
    rep.class("overload-burst");
    // a key whose hash makes `validate_event_id` happy for partition 0 is any key: the partition id is given explicitly
    let clients = 256usize;
    let until = Instant::now() + Duration::from_millis(1_200);
    let mut hs = vec![];
    for c in 0..clients {
        let db = db.clone();
        hs.push(tokio::spawn(async move {
            let key = Uuid::from_u128(0x5000 + c as u128);
            let stream = format!("o{c}");
            let mut n = 0u64;
            let mut hung = None;
            while Instant::now() < until {
                match tokio::time::timeout(Duration::from_millis(deadline_ms), db.append_events(tx(key, &stream, n))).await {
                    Err(_) => {
                        hung = Some(n);
                        break;
                    }
                    Ok(_) => n += 1,
                }
            }
            (n, hung)
        }));
    }
    let mut appended = 0u64;
    let mut hung_clients = 0u64;
    for h in hs {
        if let Ok((n, hung)) = h.await {
            appended += n;
            if hung.is_some() {
                hung_clients += 1;
            }
        }
    }
    if hung_clients > 0 {
        rep.violation(
            "c20:append-did-not-complete:overload",
            json!({"problem": format!("{hung_clients} of {clients} concurrent clients had an append that did not return within {deadline_ms} ms"), "appends_completed": appended}),
            json!({"scenario": "overload", "clients": clients}),
        );
    }
    // quiet, then sequential probes: each must be synced by the periodic poll
    tokio::time::sleep(Duration::from_millis(300)).await;
    let key = Uuid::from_u128(0x9999);
    let mut worst = 0u64;
    for i in 0..6u64 {
        let t0 = Instant::now();
        let r = tokio::time::timeout(Duration::from_millis(deadline_ms), db.append_events(tx(key, "probe", i))).await;
        worst = worst.max(t0.elapsed().as_millis() as u64);
        if r.is_err() {
            rep.violation(
                "c20:append-did-not-complete:after-overload",
                json!({"problem": format!("probe append {i} after an overload burst ({appended} appends by {clients} clients) did not return within {deadline_ms} ms")}),
                json!({"scenario": "overload", "probe": i}),
            );
            break;
        }
    }
    rep.set("overload_appends", json!(appended));
    rep.set("overload_probe_max_ms", json!(worst));
    let _ = tokio::time::timeout(Duration::from_secs(20), db.shutdown()).await;
    let _ = std::fs::remove_dir_all(&dir);
}
