//! Schedule control through the cfg-gated hook points (C15, C04).
//!
//! A `Ctl` installed as the process-wide hook handler can park the calling thread at a named
//! hook point until the harness releases it.  The writer thread is stepped from hook to hook
//! through a segment rollover while a reader is started at one writer position, parked
//! between its live-index lookup and its reader-pool lookup, and resumed at a later writer
//! position: exactly the (live_at, pool_at) combinations Durability.tla's state graph contains
//! (its EmitSched table).  For C04 the writer is parked after every event of a multi-event
//! transaction (and before its commit record) while every read API runs.
use std::collections::{BTreeMap, BTreeSet, HashMap, HashSet};
use std::sync::{Arc, Condvar, Mutex};
use std::time::Duration;

use hcommon::{Report, read_ndjson};
use serde_json::{Value, json};
use sierradb::bucket::segment::EventRecord;
use sierradb::database::{Database, ExpectedVersion, NewEvent, Transaction};
use sierradb::id::{uuid_to_partition_hash, uuid_v7_with_partition_hash};
use sierradb::{IterDirection, StreamId};
use smallvec::SmallVec;
use uuid::Uuid;

use crate::scratch;
use crate::world::*;

#[derive(Default)]
struct State {
    armed: HashSet<String>,
    parked: HashMap<String, HashMap<String, u64>>,
    released: HashSet<String>,
    seen: Vec<String>,
}

#[derive(Clone)]
pub struct Ctl {
    inner: Arc<(Mutex<State>, Condvar)>,
}

impl Ctl {
    pub fn install() -> Ctl {
        let ctl = Ctl { inner: Arc::new((Mutex::new(State::default()), Condvar::new())) };
        let c2 = ctl.clone();
        sierradb::verif::install(Arc::new(move |name, fields| {
            let (m, cv) = &*c2.inner;
            let mut g = m.lock().unwrap();
            g.seen.push(name.to_string());
            if g.armed.remove(name) {
                g.parked.insert(name.to_string(), fields.iter().map(|(k, v)| (k.to_string(), *v)).collect());
                cv.notify_all();
                while !g.released.contains(name) {
                    g = cv.wait(g).unwrap();
                }
                g.parked.remove(name);
                g.released.remove(name);
                cv.notify_all();
            }
        }));
        ctl
    }
    pub fn arm(&self, name: &str) {
        self.inner.0.lock().unwrap().armed.insert(name.to_string());
    }
    pub fn disarm(&self, name: &str) {
        self.inner.0.lock().unwrap().armed.remove(name);
    }
    pub fn is_parked(&self, name: &str) -> bool {
        self.inner.0.lock().unwrap().parked.contains_key(name)
    }
    pub async fn wait_parked(&self, name: &str, ms: u64) -> bool {
        let t0 = std::time::Instant::now();
        loop {
            if self.is_parked(name) {
                return true;
            }
            if t0.elapsed() > Duration::from_millis(ms) {
                return false;
            }
            tokio::time::sleep(Duration::from_micros(300)).await;
        }
    }
    /// lets the thread parked at `name` continue and waits until it has left the hook point
    pub fn release(&self, name: &str) {
        let (m, cv) = &*self.inner;
        let mut g = m.lock().unwrap();
        if g.parked.contains_key(name) {
            g.released.insert(name.to_string());
            cv.notify_all();
            let t0 = std::time::Instant::now();
            while g.released.contains(name) && t0.elapsed() < Duration::from_secs(5) {
                g = cv.wait_timeout(g, Duration::from_millis(50)).unwrap().0;
            }
        }
    }
    pub fn release_all(&self) {
        let (m, cv) = &*self.inner;
        let mut g = m.lock().unwrap();
        g.armed.clear();
        let names: Vec<String> = g.parked.keys().cloned().collect();
        for n in names {
            g.released.insert(n);
        }
        cv.notify_all();
    }
}

fn key() -> Uuid {
    Uuid::from_u128(0x0f0e_0d0c_0b0a_0908_0706_0504_0302_0100)
}

#[derive(Clone)]
struct Ev {
    id: Uuid,
    first: bool,
    stream: String,
    payload: Vec<u8>,
}

fn mk_tx(streams: &[&str], big: usize, salt: u64, bad_at: Option<usize>) -> (Transaction, Vec<Ev>) {
    let hash = uuid_to_partition_hash(key());
    let mut evs: SmallVec<[NewEvent; 4]> = SmallVec::new();
    let mut out = vec![];
    for (i, s) in streams.iter().enumerate() {
        let len = if i == 0 { big } else { 64 };
        let mut x = (salt * 31 + i as u64).wrapping_mul(0x9E37_79B9_7F4A_7C15) | 1;
        let payload: Vec<u8> = (0..len)
            .map(|_| {
                x ^= x << 13;
                x ^= x >> 7;
                x ^= x << 17;
                (x >> 29) as u8
            })
            .collect();
        let id = uuid_v7_with_partition_hash(hash);
        evs.push(NewEvent {
            event_id: id,
            stream_id: StreamId::new(s.to_string()).unwrap(),
            stream_version: ExpectedVersion::Any,
            event_name: "E".into(),
            timestamp: if bad_at == Some(i) { 1u64 << 63 } else { 1_700_000_000_000_000_000 + salt },
            metadata: vec![],
            payload: payload.clone(),
        });
        out.push(Ev { id, first: i == 0, stream: s.to_string(), payload });
    }
    (Transaction::new(key(), 0, evs).unwrap(), out)
}

/// what one complete read of every API sees: ids found by lookup, ids in the scans, versions
#[derive(Debug, Default, Clone)]
struct Seen {
    by_id: BTreeSet<Uuid>,
    tx_groups: BTreeMap<Uuid, usize>,
    in_partition: Vec<Uuid>,
    in_stream: BTreeMap<String, Vec<Uuid>>,
    sver: BTreeMap<String, i64>,
    pseq: i64,
    groups_ok: bool,
}

async fn scan_ids(db: &Database, kind: &str, stream: &str) -> Result<(Vec<EventRecord>, bool), String> {
    let batches = if kind == "partition" {
        scan_partition(db, 0, 0, IterDirection::Forward, 3).await?
    } else {
        scan_stream(db, 0, stream, 0, IterDirection::Forward, 3).await?
    };
    let mut groups_ok = true;
    let mut out = vec![];
    for b in batches {
        for g in b {
            let evs: Vec<EventRecord> = g.clone().into_iter().collect();
            // a group never mixes transactions
            if evs.iter().any(|e| e.transaction_id != evs[0].transaction_id) {
                groups_ok = false;
            }
            out.extend(evs);
        }
    }
    Ok((out, groups_ok))
}

async fn read_all(db: &Database, ids: &[Ev], streams: &[&str]) -> Result<Seen, String> {
    let mut s = Seen { groups_ok: true, ..Default::default() };
    for e in ids {
        if let Some(r) = db.read_event(0, e.id).await.map_err(|x| format!("read_event failed: {x}"))? {
            if r.payload != e.payload {
                return Err("read_event returned different payload".into());
            }
            s.by_id.insert(e.id);
        }
        if e.first {
            if let Some(g) = db.read_transaction(0, e.id).await.map_err(|x| format!("read_transaction failed: {x}"))? {
                s.tx_groups.insert(e.id, g.len());
            }
        }
    }
    let (p, ok) = scan_ids(db, "partition", "").await?;
    s.groups_ok &= ok;
    s.in_partition = p.iter().map(|e| e.event_id).collect();
    for st in streams {
        let (v, ok) = scan_ids(db, "stream", st).await?;
        s.groups_ok &= ok;
        if v.iter().any(|e| e.stream_id.as_ref() != *st) {
            return Err(format!("stream scan of {st} returned a foreign event"));
        }
        s.in_stream.insert(st.to_string(), v.iter().map(|e| e.event_id).collect());
        let sv = db.get_stream_version(0, &StreamId::new(st.to_string()).unwrap()).await.map_err(|x| format!("get_stream_version failed: {x}"))?;
        s.sver.insert(st.to_string(), sv.map(|v| v.version as i64).unwrap_or(-1));
    }
    s.pseq = db.get_partition_sequence(0).await.map_err(|x| format!("get_partition_sequence failed: {x}"))?.map(|v| v.sequence as i64).unwrap_or(-1);
    Ok(s)
}

// ---------------------------------------------------------------------------
// C04: reads while a multi-event transaction is being written

struct MidCase {
    n: usize,
    bad_at: Option<usize>,
    rollover: bool,
}

async fn midtx_case(ctl: &Ctl, case: &MidCase, dir: std::path::PathBuf, rep: &mut Report) -> Result<u64, String> {
    let cfg = DbCfg { ..DbCfg::small(1) };
    let _ = std::fs::remove_dir_all(&dir);
    let db = cfg.open(&dir)?;
    let streams = ["A", "B"];
    // committed prefix: one single-event and one two-event transaction
    let (t1, e1) = mk_tx(&["A"], if case.rollover { 60_000 } else { 100 }, 1, None);
    db.append_events(t1).await.map_err(|e| format!("setup append failed: {e}"))?;
    let (t2, e2) = mk_tx(&["B", "A"], if case.rollover { 40_000 } else { 100 }, 2, None);
    db.append_events(t2).await.map_err(|e| format!("setup append failed: {e}"))?;
    let committed: Vec<Ev> = e1.iter().chain(e2.iter()).cloned().collect();
    let shape: Vec<&str> = (0..case.n).map(|i| if i % 2 == 0 { "A" } else { "B" }).collect();
    let (tx, evs) = mk_tx(&shape, if case.rollover { 50_000 } else { 200 }, 3, case.bad_at);
    let all: Vec<Ev> = committed.iter().chain(evs.iter()).cloned().collect();
    let mut reads = 0u64;

    let base = read_all(&db, &all, &streams).await?;
    let check_invisible = |s: &Seen, at: &str| -> Result<(), String> {
        for e in &evs {
            if s.by_id.contains(&e.id) || s.tx_groups.contains_key(&e.id) {
                return Err(format!("[{at}] event lookup returned an event of the transaction in flight"));
            }
            if s.in_partition.contains(&e.id) {
                return Err(format!("[{at}] partition scan returned an event of the transaction in flight"));
            }
            if s.in_stream.values().any(|v| v.contains(&e.id)) {
                return Err(format!("[{at}] stream scan returned an event of the transaction in flight"));
            }
        }
        if s.sver != base.sver || s.pseq != base.pseq {
            return Err(format!("[{at}] latest versions/sequence moved before the commit: {:?}/{} vs {:?}/{}", s.sver, s.pseq, base.sver, base.pseq));
        }
        for e in &committed {
            if !s.by_id.contains(&e.id) || !s.in_partition.contains(&e.id) {
                return Err(format!("[{at}] committed event missing"));
            }
        }
        if !s.groups_ok {
            return Err(format!("[{at}] a scan group mixes transactions"));
        }
        Ok(())
    };

    // step the writer: park after every event written and before the commit record
    let writes_before_failure = case.bad_at.unwrap_or(case.n);
    ctl.arm(if writes_before_failure > 0 { "wt.event" } else { "wt.reply" });
    let h = tokio::spawn({
        let db = db.clone();
        async move { db.append_events(tx).await }
    });
    for k in 1..=writes_before_failure {
        if !ctl.wait_parked("wt.event", 5000).await {
            ctl.release_all();
            return Err(format!("writer did not reach event {k} of the transaction"));
        }
        let s = read_all(&db, &all, &streams).await?;
        reads += 1;
        check_invisible(&s, &format!("after event {k} of {}", case.n))?;
        if k < writes_before_failure {
            ctl.arm("wt.event");
        } else if case.bad_at.is_none() && case.n > 1 {
            ctl.arm("wt.before_commit");
        } else {
            ctl.arm("wt.reply");
        }
        ctl.release("wt.event");
    }
    if case.bad_at.is_none() && case.n > 1 {
        if !ctl.wait_parked("wt.before_commit", 5000).await {
            ctl.release_all();
            return Err("writer did not reach the commit record".into());
        }
        let s = read_all(&db, &all, &streams).await?;
        reads += 1;
        check_invisible(&s, "before the commit record")?;
        ctl.arm("wt.reply");
        ctl.release("wt.before_commit");
    }
    if case.bad_at.is_some() || case.n > 1 || true {
        if ctl.wait_parked("wt.reply", 5000).await {
            // records (and commit) written, reply not sent: with sync-per-append the entries
            // may be published already; all-or-nothing is what must hold
            let s = read_all(&db, &all, &streams).await?;
            reads += 1;
            let vis: Vec<bool> = evs.iter().map(|e| s.by_id.contains(&e.id)).collect();
            if vis.iter().any(|v| *v) && !vis.iter().all(|v| *v) {
                ctl.release_all();
                return Err(format!("[before the reply] transaction partially visible: {vis:?}"));
            }
            if case.bad_at.is_some() && vis.iter().any(|v| *v) {
                ctl.release_all();
                return Err("[before the error reply] events of a failed transaction visible".into());
            }
            ctl.release("wt.reply");
        }
    }
    let res = tokio::time::timeout(Duration::from_secs(10), h).await.map_err(|_| "append did not return".to_string())?.map_err(|_| format!("append panicked: {}", hcommon::last_panic()))?;
    ctl.release_all();
    let after = read_all(&db, &all, &streams).await?;
    reads += 1;
    match (&res, case.bad_at) {
        (Ok(_), None) => {
            for e in &evs {
                if !after.by_id.contains(&e.id) || !after.in_partition.contains(&e.id) || !after.in_stream[&e.stream].contains(&e.id) {
                    return Err("[after the acknowledgement] event of the transaction missing".into());
                }
                if e.first && after.tx_groups.get(&e.id).copied().unwrap_or(0) != case.n {
                    return Err(format!("[after the acknowledgement] read_transaction returned {:?} of {} events", after.tx_groups.get(&e.id), case.n));
                }
            }
        }
        (Err(_), Some(_)) => {
            check_invisible(&after, "after the error reply")?;
            // and after the next, successful append and a reopen
            let (t4, e4) = mk_tx(&["A", "B"], 100, 4, None);
            db.append_events(t4).await.map_err(|e| format!("append after the failed one failed: {e}"))?;
            let all2: Vec<Ev> = all.iter().chain(e4.iter()).cloned().collect();
            let s = read_all(&db, &all2, &streams).await?;
            reads += 1;
            for e in &evs {
                if s.by_id.contains(&e.id) || s.in_partition.contains(&e.id) {
                    return Err("[after the next append] event of the failed transaction visible".into());
                }
            }
            if s.pseq != base.pseq + 2 {
                return Err(format!("[after the next append] partition sequence {} instead of {}", s.pseq, base.pseq + 2));
            }
            shutdown_all().await;
            let db2 = cfg.open(&dir)?;
            let s = read_all(&db2, &all2, &streams).await?;
            reads += 1;
            for e in &evs {
                if s.by_id.contains(&e.id) || s.in_partition.contains(&e.id) || s.in_stream.values().any(|v| v.contains(&e.id)) {
                    return Err("[after reopen] event of the failed transaction visible".into());
                }
            }
            if s.pseq != base.pseq + 2 {
                return Err(format!("[after reopen] partition sequence {} instead of {}", s.pseq, base.pseq + 2));
            }
        }
        (Ok(_), Some(j)) => return Err(format!("append with an unencodable timestamp at event {j} succeeded")),
        (Err(e), None) => return Err(format!("valid append failed: {e}")),
    }
    rep.class(format!("n={} fail_at={:?} rollover={}", case.n, case.bad_at, case.rollover));
    Ok(reads)
}

pub async fn midtx_cmd(rep: &mut Report, table: &str) {
    let rows = read_ndjson(table);
    let ctl = Ctl::install();
    let root = scratch("midtx");
    let mut reads = 0u64;
    let mut seen = BTreeSet::new();
    for r in &rows {
        let n = r["n"].as_u64().unwrap() as usize;
        let bad_at = r["fail_at"].as_u64().filter(|v| *v > 0).map(|v| v as usize - 1);
        for rollover in [false, true] {
            if !seen.insert((n, bad_at, rollover)) {
                continue;
            }
            rep.eval(1);
            let case = MidCase { n, bad_at, rollover };
            let dir = root.join(format!("n{n}f{}r{}", bad_at.map(|v| v as i64).unwrap_or(-1), rollover as u8));
            let res = midtx_case(&ctl, &case, dir.clone(), rep).await;
            ctl.release_all();
            shutdown_all().await;
            let _ = std::fs::remove_dir_all(&dir);
            match res {
                Ok(k) => reads += k,
                Err(e) => {
                    let key = if e.contains("in flight") || e.contains("partially") || e.contains("failed transaction visible") || e.contains("before the commit") {
                        "c04:partial-transaction-visible"
                    } else {
                        "c04:midtx-read"
                    };
                    rep.violation(key, json!({"problem": e, "events": n, "fails_at_event": bad_at.map(|v| v + 1), "rollover_first": rollover}),
                        json!({"n": n, "fail_at": bad_at.map(|v| v + 1), "rollover": rollover}));
                }
            }
        }
    }
    if let Some(r) = rows.first() {
        rep.sample(json!({"table_row": r, "meaning": "writer parked after each written event / before the commit record / before the reply; every read API issued at each stop"}));
    }
    sierradb::verif::clear();
    let _ = std::fs::remove_dir_all(&root);
    rep.set("read_rounds", json!(reads));
    rep.set("table_rows", json!(rows.len()));
}

// ---------------------------------------------------------------------------
// C15: a reader's two-step lookups against every writer position of a rollover

/// writer timeline of one run: (model wpc, hook the writer thread is parked at, live segment)
const TIMELINE: [(&str, &str, u64); 10] = [
    ("idle", "", 0),                         // 0: tx1 acknowledged, writer idle
    ("written", "wt.reply", 0),              // 1: tx2 written in segment 0, reply not yet sent
    ("idle", "", 0),                         // 2: tx2 acknowledged, writer idle
    ("synced", "wt.roll.synced", 0),         // 3: tx3 does not fit: rollover started, old segment synced
    ("created", "wt.roll.created", 1),       // 4: new segment file created
    ("locked", "wt.roll.swapped", 1),        // 5: (harness only) indexes swapped, index lock still held
    ("swapped", "wt.roll.old_installed", 1), // 6: sealed segment handed to the reader pool
    ("idle", "wt.roll.new_installed", 1),    // 7: rollover complete, tx3 not yet written
    ("written", "wt.reply", 1),              // 8: tx3 written, reply not yet sent
    ("idle", "", 1),                         // 9: tx3 acknowledged
];
const LOCKED: usize = 5;

fn positions_of(wpc: &str, seg: u64) -> Vec<usize> {
    (0..TIMELINE.len()).filter(|i| TIMELINE[*i].0 == wpc && TIMELINE[*i].2 == seg).collect()
}

struct Run {
    db: Database,
    ctl: Ctl,
    pos: usize,
    tx2: Option<tokio::task::JoinHandle<bool>>,
    tx3: Option<tokio::task::JoinHandle<bool>>,
    t2: Option<Transaction>,
    t3: Option<Transaction>,
}

impl Run {
    async fn join(h: Option<tokio::task::JoinHandle<bool>>, what: &str) -> Result<(), String> {
        if let Some(h) = h {
            let ok = tokio::time::timeout(Duration::from_secs(10), h).await.map_err(|_| format!("{what} did not complete"))?.unwrap_or(false);
            if !ok {
                return Err(format!("{what} failed"));
            }
        }
        Ok(())
    }
    /// move the writer forward to timeline position `to`
    async fn advance(&mut self, to: usize) -> Result<(), String> {
        while self.pos < to {
            let next = self.pos + 1;
            match next {
                1 | 3 => {
                    self.ctl.arm(TIMELINE[next].1);
                    let db = self.db.clone();
                    let t = if next == 1 { self.t2.take().unwrap() } else { self.t3.take().unwrap() };
                    let h = tokio::spawn(async move { db.append_events(t).await.is_ok() });
                    if next == 1 {
                        self.tx2 = Some(h);
                    } else {
                        self.tx3 = Some(h);
                    }
                    if !self.ctl.wait_parked(TIMELINE[next].1, 5000).await {
                        return Err(format!("writer did not reach {} (harness layout)", TIMELINE[next].1));
                    }
                }
                2 => {
                    self.ctl.release("wt.reply");
                    Self::join(self.tx2.take(), "tx2").await?;
                }
                9 => {
                    self.ctl.release("wt.reply");
                    Self::join(self.tx3.take(), "tx3").await?;
                }
                _ => {
                    let cur = TIMELINE[self.pos].1;
                    let nxt = TIMELINE[next].1;
                    self.ctl.arm(nxt);
                    self.ctl.release(cur);
                    if !self.ctl.wait_parked(nxt, 5000).await {
                        return Err(format!("writer did not reach {nxt}"));
                    }
                }
            }
            self.pos = next;
        }
        Ok(())
    }
    async fn finish(&mut self) -> Result<(), String> {
        self.ctl.release_all();
        Self::join(self.tx2.take(), "tx2").await?;
        Self::join(self.tx3.take(), "tx3").await?;
        if let Some(t) = self.t2.take() {
            self.db.append_events(t).await.map_err(|e| format!("tx2 failed: {e}"))?;
        }
        if let Some(t) = self.t3.take() {
            self.db.append_events(t).await.map_err(|e| format!("tx3 failed: {e}"))?;
        }
        Ok(())
    }
}

const KINDS: [(&str, &str); 6] = [
    ("read_event", "rd.tx.live_lookup"),
    ("read_transaction", "rd.tx.live_lookup"),
    ("read_stream", "rd.iter.live_miss"),
    ("read_partition", "rd.iter.live_miss"),
    ("get_stream_version", "rd.sver.live_miss"),
    ("get_partition_sequence", "rd.pseq.live_miss"),
];

/// one read of `kind`; returns the set of acknowledged-event indexes (0 = tx1, 1 = tx2, 2.. = tx3) it proves visible
async fn one_read(db: &Database, kind: &str, known: &[Ev]) -> Result<BTreeSet<usize>, String> {
    let mut out = BTreeSet::new();
    match kind {
        "read_event" | "read_transaction" => {
            for (i, e) in known.iter().enumerate() {
                let hit = if kind == "read_event" {
                    db.read_event(0, e.id).await.map_err(|x| format!("read_event failed: {x}"))?.is_some()
                } else {
                    db.read_transaction(0, e.id).await.map_err(|x| format!("read_transaction failed: {x}"))?.is_some()
                };
                if hit {
                    out.insert(i);
                }
            }
        }
        "read_stream" | "read_partition" => {
            let (evs, _) = scan_ids(db, if kind == "read_stream" { "stream" } else { "partition" }, "A").await?;
            for (i, e) in known.iter().enumerate() {
                if evs.iter().any(|r| r.event_id == e.id) {
                    out.insert(i);
                }
            }
        }
        "get_stream_version" => {
            let v = db.get_stream_version(0, &StreamId::new("A".to_string()).unwrap()).await.map_err(|x| format!("get_stream_version failed: {x}"))?.map(|v| v.version as i64).unwrap_or(-1);
            for i in 0..known.len() {
                if v >= i as i64 {
                    out.insert(i);
                }
            }
        }
        _ => {
            let v = db.get_partition_sequence(0).await.map_err(|x| format!("get_partition_sequence failed: {x}"))?.map(|v| v.sequence as i64).unwrap_or(-1);
            for i in 0..known.len() {
                if v >= i as i64 {
                    out.insert(i);
                }
            }
        }
    }
    Ok(out)
}

async fn sched_case(ctl: &Ctl, live: usize, pool: usize, kind: &str, hook: &str, dir: std::path::PathBuf) -> Result<Value, String> {
    let cfg = DbCfg { ..DbCfg::small(1) };
    let _ = std::fs::remove_dir_all(&dir);
    let db = cfg.open(&dir)?;
    // stream A, one event per transaction: event i has version i and sequence i
    let (t1, e1) = mk_tx(&["A"], 50_000, 1, None);
    let (t2, e2) = mk_tx(&["A"], 45_000, 2, None);
    let (t3, e3) = mk_tx(&["A"], 50_000, 3, None);
    let known: Vec<Ev> = vec![e1[0].clone(), e2[0].clone(), e3[0].clone()];
    db.append_events(t1).await.map_err(|e| format!("setup append failed: {e}"))?;
    let mut run = Run { db: db.clone(), ctl: ctl.clone(), pos: 0, tx2: None, tx3: None, t2: Some(t2), t3: Some(t3) };
    run.advance(live).await?;
    // what was acknowledged before the read starts
    let acked: BTreeSet<usize> = match live {
        0 | 1 => [0].into(),
        9 => [0, 1, 2].into(),
        _ => [0, 1].into(),
    };
    // start the read with its hook armed
    ctl.arm(hook);
    let rh = tokio::spawn({
        let db = db.clone();
        let kind = kind.to_string();
        let known = known.clone();
        async move { one_read(&db, &kind, &known).await }
    });
    // the reader parks (live lookup missed / event lookup), finishes (live hit), or blocks on
    // the index lock (writer at position 4)
    let mut parked = false;
    let t0 = std::time::Instant::now();
    while t0.elapsed() < Duration::from_millis(if live == LOCKED { 150 } else { 2000 }) {
        if ctl.is_parked(hook) {
            parked = true;
            break;
        }
        if rh.is_finished() {
            break;
        }
        tokio::time::sleep(Duration::from_micros(300)).await;
    }
    let blocked = !parked && !rh.is_finished();
    if blocked && live != LOCKED {
        run.finish().await.ok();
        return Err(format!("{kind} neither completed nor reached its second step while the writer stood at position {live}"));
    }
    run.advance(pool).await?;
    ctl.release(hook);
    if blocked {
        // it was waiting for the index lock: it may only now reach its hook
        let t0 = std::time::Instant::now();
        while t0.elapsed() < Duration::from_millis(2000) && !rh.is_finished() {
            if ctl.is_parked(hook) {
                ctl.release(hook);
            }
            tokio::time::sleep(Duration::from_micros(300)).await;
        }
    }
    ctl.disarm(hook);
    // a read made of several lookups may have to wait for the index lock while the writer is
    // parked holding it: let the writer go on in that case
    let mut rh = rh;
    let mut early = None;
    if pool == LOCKED {
        match tokio::time::timeout(Duration::from_millis(300), &mut rh).await {
            Ok(r) => early = Some(r),
            Err(_) => run.advance(LOCKED + 1).await?,
        }
    }
    let joined = match early {
        Some(r) => Ok(r),
        None => tokio::time::timeout(Duration::from_secs(10), rh).await,
    };
    let first = match joined {
        Ok(Ok(r)) => r?,
        Ok(Err(_)) => {
            run.finish().await.ok();
            return Err(format!("{kind} panicked: {}", hcommon::last_panic()));
        }
        Err(_) => {
            run.finish().await.ok();
            return Err(format!("{kind} did not complete"));
        }
    };
    let missing: Vec<usize> = acked.difference(&first).copied().collect();
    if !missing.is_empty() {
        run.finish().await.ok();
        return Err(format!("{kind} started with the writer at {:?} and finished with it at {:?} misses acknowledged event(s) {missing:?} (saw {first:?})", TIMELINE[live], TIMELINE[pool]));
    }
    run.finish().await?;
    // the same reader reads again: nothing it saw may be lost, and everything is acknowledged now
    let second = one_read(&db, kind, &known).await?;
    if !first.is_subset(&second) || second.len() != 3 {
        return Err(format!("{kind}: a later read by the same reader returned {second:?} after {first:?}"));
    }
    Ok(json!({"kind": kind, "live_at": TIMELINE[live].0, "pool_at": TIMELINE[pool].0, "reader_parked": parked, "blocked_on_lock": blocked, "saw": first}))
}

pub async fn sched_cmd(rep: &mut Report, table: &str) {
    let rows = read_ndjson(table);
    let ctl = Ctl::install();
    let root = scratch("sched");
    let mut pairs: BTreeSet<(usize, usize)> = BTreeSet::new();
    for r in &rows {
        let ls = positions_of(r["live_at"][0].as_str().unwrap(), r["live_at"][1].as_u64().unwrap());
        let ps = positions_of(r["pool_at"][0].as_str().unwrap(), r["pool_at"][1].as_u64().unwrap());
        assert!(!ls.is_empty() && !ps.is_empty(), "table row outside the harness timeline: {r}");
        assert!(r["found"].as_bool().unwrap(), "Durability.tla prescribes a miss for a published transaction: {r}");
        for &l in &ls {
            for &p in &ps {
                if l <= p {
                    pairs.insert((l, p));
                }
            }
        }
    }
    // harness-only position (index lock held): reads started there must block, not miss
    for p in LOCKED..TIMELINE.len() {
        pairs.insert((LOCKED, p));
    }
    for l in 0..LOCKED {
        pairs.insert((l, LOCKED));
    }
    let mut reported = BTreeSet::new();
    let mut parked = 0u64;
    let quick = hcommon::tier_quick();
    for (pi, &(l, p)) in pairs.iter().enumerate() {
        for (ki, (kind, hook)) in KINDS.into_iter().enumerate() {
            // quick: two of the six read APIs per schedule, rotating
            if quick && ki != pi % 6 && ki != (pi + 3) % 6 {
                continue;
            }
            rep.eval(1);
            let dir = root.join("run");
            let res = sched_case(&ctl, l, p, kind, hook, dir.clone()).await;
            ctl.release_all();
            shutdown_all().await;
            let _ = std::fs::remove_dir_all(&dir);
            match res {
                Ok(v) => {
                    if v["reader_parked"] == true {
                        parked += 1;
                    }
                    rep.class(format!("{}@{}->{}{}", kind, l, p, if v["reader_parked"] == true { " two-step" } else { "" }));
                    if l != p && v["reader_parked"] == true {
                        rep.sample(v);
                    }
                }
                Err(e) => {
                    let key = if e.contains("misses acknowledged") || e.contains("a later read") { format!("c15:read-misses-acknowledged:{kind}") } else { format!("c15:schedule:{kind}") };
                    if reported.insert(key.clone()) {
                        rep.violation(&key, json!({"problem": e, "live_at": TIMELINE[l], "pool_at": TIMELINE[p]}), json!({"live": l, "pool": p, "kind": kind}));
                    } else {
                        rep.violations += 1;
                    }
                }
            }
        }
    }
    sierradb::verif::clear();
    let _ = std::fs::remove_dir_all(&root);
    rep.set("schedules", json!(pairs.len()));
    rep.set("two_step_reads", json!(parked));
    rep.set("table_rows", json!(rows.len()));
}

// ---------------------------------------------------------------------------
// C15, free-running part: writers and readers race over small segments; every reader checks
// that what was acknowledged before a read started is in it and that nothing it saw is lost

pub async fn stress_cmd(rep: &mut Report) {
    let quick = hcommon::tier_quick();
    let root = scratch("stress");
    let rounds = if quick { 2 } else { 8 };
    for round in 0..rounds {
        rep.eval(1);
        let nb = if round % 2 == 0 { 1 } else { 2 };
        let cfg = DbCfg { writer_threads: nb, sync_interval_ms: if round % 3 == 0 { 1 } else { 10 }, min_sync_bytes: if round % 3 == 0 { 1 } else { 1 << 30 },
                          max_batch: if round % 3 == 0 { 1 } else { 1000 }, ..DbCfg::small(nb) };
        let dir = root.join(format!("r{round}"));
        let _ = std::fs::remove_dir_all(&dir);
        let db = match cfg.open(&dir) {
            Ok(d) => d,
            Err(e) => {
                rep.violation("c15:open", json!({"problem": e}), json!({"round": round}));
                continue;
            }
        };
        // acked[w] = number of events writer w has had acknowledged (its stream "w{w}", partition w)
        let acked: Arc<Vec<std::sync::atomic::AtomicU64>> = Arc::new((0..4).map(|_| std::sync::atomic::AtomicU64::new(0)).collect());
        let stop = Arc::new(std::sync::atomic::AtomicBool::new(false));
        let per_writer = if quick { 40 } else { 120 };
        let mut ws = vec![];
        for wi in 0..4u16 {
            let db = db.clone();
            let acked = acked.clone();
            ws.push(tokio::spawn(async move {
                let kuuid = Uuid::from_u128(0xabc0 + wi as u128);
                let hash = uuid_to_partition_hash(kuuid);
                for i in 0..per_writer as u64 {
                    let mut evs: SmallVec<[NewEvent; 4]> = SmallVec::new();
                    let n = 1 + (i % 2) as usize;
                    for j in 0..n {
                        evs.push(NewEvent {
                            event_id: uuid_v7_with_partition_hash(hash),
                            stream_id: StreamId::new(format!("w{wi}")).unwrap(),
                            stream_version: ExpectedVersion::Any,
                            event_name: "S".into(),
                            timestamp: 1_700_000_000_000_000_000,
                            metadata: vec![],
                            payload: vec![(i as u8) ^ (j as u8); 9_000 + (i as usize * 37) % 5_000],
                        });
                    }
                    let tx = Transaction::new(kuuid, wi, evs).unwrap();
                    match db.append_events(tx).await {
                        Ok(_) => {
                            acked[wi as usize].fetch_add(n as u64, std::sync::atomic::Ordering::SeqCst);
                        }
                        Err(e) => return Err(format!("append failed: {e}")),
                    }
                }
                Ok(())
            }));
        }
        let mut rs = vec![];
        for ri in 0..4u16 {
            let db = db.clone();
            let acked = acked.clone();
            let stop = stop.clone();
            rs.push(tokio::spawn(async move {
                let mut seen_ver = [-1i64; 4];
                let mut seen_len = [0usize; 4];
                let mut reads = 0u64;
                while !stop.load(std::sync::atomic::Ordering::SeqCst) {
                    let w = ((reads + ri as u64) % 4) as u16;
                    let before = acked[w as usize].load(std::sync::atomic::Ordering::SeqCst);
                    let b = w % db.total_buckets();
                    match reads % 3 {
                        0 => {
                            let v = db.get_stream_version(b, &StreamId::new(format!("w{w}")).unwrap()).await.map_err(|e| format!("get_stream_version failed: {e}"))?.map(|v| v.version as i64).unwrap_or(-1);
                            if v + 1 < before as i64 {
                                return Err(format!("get_stream_version(w{w}) = {v} although {before} events were acknowledged before the call"));
                            }
                            if v < seen_ver[w as usize] {
                                return Err(format!("get_stream_version(w{w}) went back from {} to {v}", seen_ver[w as usize]));
                            }
                            seen_ver[w as usize] = v;
                        }
                        1 => {
                            let got = flatten(&scan_stream(&db, b, &format!("w{w}"), 0, IterDirection::Forward, 7).await?.concat());
                            if (got.len() as u64) < before {
                                return Err(format!("stream scan of w{w} returned {} events although {before} were acknowledged before it started", got.len()));
                            }
                            if got.len() < seen_len[w as usize] {
                                return Err(format!("stream scan of w{w} shrank from {} to {} events", seen_len[w as usize], got.len()));
                            }
                            for (i, e) in got.iter().enumerate() {
                                if e.stream_version != i as u64 {
                                    return Err(format!("stream scan of w{w}: version {} at index {i}", e.stream_version));
                                }
                            }
                            seen_len[w as usize] = got.len();
                        }
                        _ => {
                            let got = flatten(&scan_partition(&db, w, 0, IterDirection::Forward, 5).await?.concat());
                            if (got.len() as u64) < before {
                                return Err(format!("partition scan of {w} returned {} events although {before} were acknowledged before it started", got.len()));
                            }
                            if let Some(last) = got.last() {
                                let r = db.read_event(w, last.event_id).await.map_err(|e| format!("read_event failed: {e}"))?;
                                if r.is_none() {
                                    return Err(format!("read_event of an event just returned by a partition scan (seq {}) returned None", last.partition_sequence));
                                }
                            }
                        }
                    }
                    reads += 1;
                }
                Ok::<u64, String>(reads)
            }));
        }
        let mut problem = None;
        for h in ws {
            match h.await {
                Ok(Ok(())) => {}
                Ok(Err(e)) => problem = Some(e),
                Err(_) => problem = Some(format!("writer panicked: {}", hcommon::last_panic())),
            }
        }
        stop.store(true, std::sync::atomic::Ordering::SeqCst);
        let mut total_reads = 0;
        for h in rs {
            match h.await {
                Ok(Ok(n)) => total_reads += n,
                Ok(Err(e)) => problem = Some(e),
                Err(_) => problem = Some(format!("reader panicked: {}", hcommon::last_panic())),
            }
        }
        shutdown_all().await;
        let _ = std::fs::remove_dir_all(&dir);
        rep.add("stress_reads", total_reads);
        rep.class(format!("stress buckets={nb} sync={}", if round % 3 == 0 { "each" } else { "timer" }));
        if let Some(e) = problem {
            rep.violation("c15:read-misses-acknowledged:stress", json!({"problem": e, "buckets": nb}), json!({"round": round, "buckets": nb}));
        }
    }
    let _ = std::fs::remove_dir_all(&root);
}

// ---------------------------------------------------------------------------
// C20: an acknowledgement that has become possible stays possible.  Append A is written and
// parked on its segment's sync watch (timer sync far away); its task is then kept from being
// polled while append B rolls the segment over (the rollover's sync covers A).  At each later
// writer position of Durability.tla's EmitLate table A's task is polled again and must
// complete at once.

const ROLL_HOOKS: [(&str, &str, u64); 6] = [
    ("synced", "wt.roll.synced", 0),
    ("created", "wt.roll.created", 1),
    ("locked", "wt.roll.swapped", 1),
    ("swapped", "wt.roll.old_installed", 1),
    ("idle", "wt.roll.new_installed", 1),
    ("written", "wt.reply", 1),
];

impl Ctl {
    pub fn seen_count(&self, name: &str) -> usize {
        self.inner.0.lock().unwrap().seen.iter().filter(|n| n.as_str() == name).count()
    }
}

async fn lateack_case(ctl: &Ctl, k: usize, dir: std::path::PathBuf) -> Result<Value, String> {
    use std::future::Future;
    use std::task::Poll;
    let cfg = DbCfg { sync_interval_ms: 2_000, min_sync_bytes: 1 << 30, max_batch: 100_000, ..DbCfg::small(1) };
    let _ = std::fs::remove_dir_all(&dir);
    let db = cfg.open(&dir)?;
    let (ta, _) = mk_tx(&["A"], 70_000, 1, None);
    let (tb, _) = mk_tx(&["B"], 70_000, 2, None);
    let replies0 = ctl.seen_count("wt.reply");
    let (to_a, a_rx) = std::sync::mpsc::channel::<()>();
    let (a_tx, from_a) = std::sync::mpsc::channel::<String>();
    let ctl_a = ctl.clone();
    let db_a = db.clone();
    let th = std::thread::spawn(move || {
        let rt = tokio::runtime::Builder::new_current_thread().enable_all().build().unwrap();
        rt.block_on(async move {
            let mut fut = Box::pin(db_a.append_events(ta));
            // poll until the writer thread has replied and the future waits on the sync watch
            let t0 = std::time::Instant::now();
            let mut after_reply = 0;
            loop {
                let p = std::future::poll_fn(|cx| Poll::Ready(fut.as_mut().poll(cx))).await;
                if let Poll::Ready(r) = p {
                    let _ = a_tx.send(format!("early:{}", r.is_ok()));
                    return;
                }
                if ctl_a.seen_count("wt.reply") > replies0 {
                    after_reply += 1;
                    if after_reply >= 3 {
                        break;
                    }
                }
                if t0.elapsed() > Duration::from_secs(5) {
                    let _ = a_tx.send("no-reply".into());
                    return;
                }
                std::thread::sleep(Duration::from_millis(1));
            }
            let _ = a_tx.send("parked".into());
            // this thread is the whole runtime: while it blocks here the task cannot be polled
            let _ = a_rx.recv();
            let t1 = std::time::Instant::now();
            let r = tokio::time::timeout(Duration::from_millis(1_000), fut).await;
            let _ = a_tx.send(match r {
                Ok(Ok(_)) => format!("completed:{}", t1.elapsed().as_millis()),
                Ok(Err(e)) => format!("failed:{e}"),
                Err(_) => "hung".into(),
            });
        });
    });
    let wait = |rx: &std::sync::mpsc::Receiver<String>, ms: u64| rx.recv_timeout(Duration::from_millis(ms)).unwrap_or_else(|_| "harness-timeout".into());
    let st = tokio::task::block_in_place(|| wait(&from_a, 8_000));
    if st != "parked" {
        let _ = to_a.send(());
        let _ = th.join();
        return Err(format!("append A did not park on its sync watch: {st}"));
    }
    // B rolls the segment over; step the writer to position k
    ctl.arm(ROLL_HOOKS[0].1);
    let hb = tokio::spawn({
        let db = db.clone();
        async move { db.append_events(tb).await.is_ok() }
    });
    let mut err = None;
    if !ctl.wait_parked(ROLL_HOOKS[0].1, 5000).await {
        err = Some("append B did not start a rollover (harness layout)".to_string());
    }
    let mut at = 0;
    while err.is_none() && at < k {
        ctl.arm(ROLL_HOOKS[at + 1].1);
        ctl.release(ROLL_HOOKS[at].1);
        if !ctl.wait_parked(ROLL_HOOKS[at + 1].1, 5000).await {
            err = Some(format!("writer did not reach {}", ROLL_HOOKS[at + 1].1));
        }
        at += 1;
    }
    // now let A's task be polled again
    let _ = to_a.send(());
    let verdict = tokio::task::block_in_place(|| wait(&from_a, 4_000));
    ctl.release_all();
    let _ = tokio::time::timeout(Duration::from_secs(10), hb).await;
    let _ = tokio::task::block_in_place(|| th.join());
    if let Some(e) = err {
        return Err(e);
    }
    if let Some(ms) = verdict.strip_prefix("completed:") {
        Ok(json!({"writer_at": ROLL_HOOKS[k].0, "hook": ROLL_HOOKS[k].1, "ack_ms_after_resume": ms.parse::<u64>().unwrap_or(0)}))
    } else {
        Err(format!("append A was covered by the rollover's sync but its acknowledgement, looked at again with the writer at {:?}, is {verdict}", ROLL_HOOKS[k]))
    }
}

pub async fn lateack_cmd(rep: &mut Report, table: &str) {
    let rows = read_ndjson(table);
    let ctl = Ctl::install();
    let root = scratch("lateack");
    let mut ks: BTreeSet<usize> = BTreeSet::new();
    for r in &rows {
        let k = ROLL_HOOKS.iter().position(|(w, _, s)| *w == r["wpc"].as_str().unwrap() && *s == r["seg"].as_u64().unwrap());
        ks.insert(k.unwrap_or_else(|| panic!("table row outside the rollover hook chain: {r}")));
    }
    ks.insert(2); // harness-only position: index lock held
    for k in ks {
        for rep_i in 0..2 {
            rep.eval(1);
            let dir = root.join(format!("k{k}"));
            let res = lateack_case(&ctl, k, dir.clone()).await;
            ctl.release_all();
            shutdown_all().await;
            let _ = std::fs::remove_dir_all(&dir);
            match res {
                Ok(v) => {
                    rep.class(format!("late-ack@{}", ROLL_HOOKS[k].0));
                    if rep_i == 0 {
                        rep.sample(v);
                    }
                }
                Err(e) => {
                    let key = if e.contains("covered by the rollover") { "c20:acknowledgement-missed" } else { "c20:lateack-schedule" };
                    rep.violation(key, json!({"problem": e, "writer_at": ROLL_HOOKS[k].0}), json!({"k": k}));
                    break;
                }
            }
        }
    }
    sierradb::verif::clear();
    let _ = std::fs::remove_dir_all(&root);
    rep.set("table_rows", json!(rows.len()));
}
