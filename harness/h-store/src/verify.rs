//! The read oracle: every read API of the real database compared with what the reference
//! log prescribes (EventStore.tla's read operators: SeqFrom, SeqUpto, VersFrom, VersUpto,
//! LatestVersion, LatestSequence), with exactly the latitude C03/C04 give.
use std::collections::{BTreeMap, BTreeSet};

use sierradb::IterDirection;
use sierradb::bucket::segment::{CommittedEvents, EventRecord};

use crate::world::*;

pub struct ReadStats {
    pub scans: u64,
    pub events_compared: u64,
    pub lookups: u64,
}

fn starts(n: u64, dense: bool, salt: u64) -> Vec<u64> {
    let mut v: BTreeSet<u64> = BTreeSet::new();
    if dense || n <= 24 {
        v.extend(0..n + 3);
    } else {
        v.extend([0, 1, 2, n / 2, n - 3, n - 2, n - 1, n, n + 1, n + 2]);
        let mut x = salt | 1;
        for _ in 0..6 {
            x = x.wrapping_mul(6364136223846793005).wrapping_add(1442695040888963407);
            v.insert((x >> 33) % n);
        }
    }
    v.insert(u64::MAX);
    v.into_iter().collect()
}

const BATCHES: [usize; 5] = [1, 2, 3, 7, 50];

/// group discipline shared by all scans: a group is one transaction's events (after the
/// filter), in order; multi-event transactions come as Transaction, single ones as Single
fn check_group(g: &CommittedEvents, model_tx_of: &dyn Fn(&EventRecord) -> Option<(u64, usize)>) -> Result<(), String> {
    match g {
        CommittedEvents::Single(e) => match model_tx_of(e) {
            Some((_, n)) if n == 1 => Ok(()),
            Some((tx, n)) => Err(format!("event of {n}-event transaction {tx} returned alone (seq {})", e.partition_sequence)),
            None => Err(format!("unknown event returned (seq {})", e.partition_sequence)),
        },
        CommittedEvents::Transaction { events, commit } => {
            if events.is_empty() {
                return Err("empty transaction group".into());
            }
            let mut txs = BTreeSet::new();
            for e in events.iter() {
                match model_tx_of(e) {
                    Some((tx, _)) => {
                        txs.insert(tx);
                    }
                    None => return Err(format!("unknown event returned (seq {})", e.partition_sequence)),
                }
                if e.transaction_id != commit.transaction_id {
                    return Err("group mixes transaction ids".into());
                }
            }
            if txs.len() != 1 {
                return Err(format!("one group holds events of transactions {txs:?}"));
            }
            Ok(())
        }
    }
}

pub async fn verify_reads(w: &World, dense: bool, lookups: bool) -> Result<ReadStats, String> {
    let db = w.db();
    let mut st = ReadStats { scans: 0, events_compared: 0, lookups: 0 };
    let nparts: Vec<u16> = w.log.keys().copied().collect();

    // index of the model by event id
    let by_id: BTreeMap<uuid::Uuid, &RefEvent> = w.log.values().flat_map(|l| l.iter()).map(|e| (e.event_id, e)).collect();
    let tx_of = |e: &EventRecord| -> Option<(u64, usize)> { by_id.get(&e.event_id).map(|m| (m.tx, m.n)) };

    for &p in &nparts {
        let l = &w.log[&p];
        let n = l.len() as u64;
        let got = latest_seq(db, p).await?;
        if got != n as i64 - 1 {
            return Err(format!("get_partition_sequence({p}) = {got}, model {}", n as i64 - 1));
        }
        for from in starts(n, dense, p as u64 + 17) {
            // ---- forward
            let batch = BATCHES[(from % 5) as usize];
            let batches = scan_partition(db, p, from, IterDirection::Forward, batch).await?;
            st.scans += 1;
            let mut flat = vec![];
            for b in &batches {
                if b.is_empty() {
                    return Err(format!("partition {p} forward from {from}: empty batch ({} groups, limit {batch})", b.len()));
                }
                for g in b {
                    check_group(g, &tx_of).map_err(|e| format!("partition {p} forward from {from}: {e}"))?;
                    flat.extend(g.clone().into_iter());
                }
            }
            let want: Vec<&RefEvent> = l.iter().filter(|e| e.seq >= from).collect();
            if flat.len() != want.len() {
                return Err(format!(
                    "partition {p} forward from {from} (batch {batch}): {} events with sequences {:?}, model has {} ({}..)",
                    flat.len(),
                    flat.iter().map(|e| e.partition_sequence).collect::<Vec<_>>(),
                    want.len(),
                    from
                ));
            }
            for (r, m) in flat.iter().zip(&want) {
                World::same(r, m, w.key_of(m)).map_err(|e| format!("partition {p} forward from {from}: {e}"))?;
            }
            st.events_compared += flat.len() as u64;

            // ---- reverse
            let batch = BATCHES[((from / 3 + 1) % 5) as usize];
            let batches = scan_partition(db, p, from, IterDirection::Reverse, batch).await?;
            st.scans += 1;
            let mut seen: BTreeSet<u64> = BTreeSet::new();
            let mut last_group_max = u64::MAX;
            for b in &batches {
                if b.is_empty() {
                    return Err(format!("partition {p} reverse from {from}: empty batch ({} groups, limit {batch})", b.len()));
                }
                for g in b {
                    check_group(g, &tx_of).map_err(|e| format!("partition {p} reverse from {from}: {e}"))?;
                    let evs: Vec<EventRecord> = g.clone().into_iter().collect();
                    let gmax = evs.iter().map(|e| e.partition_sequence).max().unwrap();
                    if gmax > last_group_max {
                        return Err(format!("partition {p} reverse from {from}: group reaching {gmax} after one reaching {last_group_max}"));
                    }
                    last_group_max = gmax;
                    for e in &evs {
                        let m = by_id[&e.event_id];
                        World::same(e, m, w.key_of(m)).map_err(|x| format!("partition {p} reverse from {from}: {x}"))?;
                        seen.insert(e.partition_sequence);
                    }
                }
            }
            let want: BTreeSet<u64> = l.iter().filter(|e| e.seq <= from).map(|e| e.seq).collect();
            let missing: Vec<u64> = want.difference(&seen).copied().collect();
            // events beyond the position are tolerated only as siblings of a transaction that
            // has an event at or before it (the group is returned whole)
            let extra: Vec<u64> = seen
                .difference(&want)
                .copied()
                .filter(|s| {
                    let tx = l[*s as usize].tx;
                    !l.iter().any(|e| e.tx == tx && e.seq <= from)
                })
                .collect();
            if !missing.is_empty() || !extra.is_empty() {
                return Err(format!("partition {p} reverse from {from} (batch {batch}): missing sequences {missing:?}, foreign {extra:?}"));
            }
            st.events_compared += seen.len() as u64;
        }
    }

    for (b, s) in w.streams() {
        let evs = w.stream_events(b, &s);
        let n = evs.len() as u64;
        let got = latest(db, w, b, &s).await?;
        if got != n as i64 - 1 {
            return Err(format!("get_stream_version(bucket {b}, {s}) = {got}, model {}", n as i64 - 1));
        }
        for from in starts(n, dense, b as u64 * 31 + s.len() as u64) {
            let batch = BATCHES[(from.wrapping_add(2) % 5) as usize];
            let batches = scan_stream(db, b, &s, from, IterDirection::Forward, batch).await?;
            st.scans += 1;
            let mut flat = vec![];
            for bt in &batches {
                if bt.is_empty() {
                    return Err(format!("stream {s} forward from {from}: empty batch ({} groups, limit {batch})", bt.len()));
                }
                for g in bt {
                    check_group(g, &tx_of).map_err(|e| format!("stream {s} forward from {from}: {e}"))?;
                    flat.extend(g.clone().into_iter());
                }
            }
            if let Some(f) = flat.iter().find(|e| e.stream_id.as_ref() != s) {
                return Err(format!("stream {s} forward from {from}: event of stream {} returned", f.stream_id));
            }
            let want: Vec<&&RefEvent> = evs.iter().filter(|e| e.ver >= from).collect();
            if flat.len() != want.len() {
                return Err(format!(
                    "stream {s} (bucket {b}) forward from {from} (batch {batch}): versions {:?}, model has {:?}",
                    flat.iter().map(|e| e.stream_version).collect::<Vec<_>>(),
                    want.iter().map(|e| e.ver).collect::<Vec<_>>()
                ));
            }
            for (r, m) in flat.iter().zip(&want) {
                World::same(r, m, w.key_of(m)).map_err(|e| format!("stream {s} forward from {from}: {e}"))?;
            }
            st.events_compared += flat.len() as u64;

            let batch = BATCHES[((from / 2 + 3) % 5) as usize];
            let batches = scan_stream(db, b, &s, from, IterDirection::Reverse, batch).await?;
            st.scans += 1;
            let mut seen: BTreeSet<u64> = BTreeSet::new();
            let mut last_group_max = u64::MAX;
            for bt in &batches {
                for g in bt {
                    check_group(g, &tx_of).map_err(|e| format!("stream {s} reverse from {from}: {e}"))?;
                    let ge: Vec<EventRecord> = g.clone().into_iter().collect();
                    if let Some(f) = ge.iter().find(|e| e.stream_id.as_ref() != s) {
                        return Err(format!("stream {s} reverse from {from}: event of stream {} returned", f.stream_id));
                    }
                    let gmax = ge.iter().map(|e| e.stream_version).max().unwrap();
                    if gmax > last_group_max {
                        return Err(format!("stream {s} reverse from {from}: group reaching {gmax} after one reaching {last_group_max}"));
                    }
                    last_group_max = gmax;
                    for e in &ge {
                        let m = by_id[&e.event_id];
                        World::same(e, m, w.key_of(m)).map_err(|x| format!("stream {s} reverse from {from}: {x}"))?;
                        seen.insert(e.stream_version);
                    }
                }
            }
            let want: BTreeSet<u64> = evs.iter().filter(|e| e.ver <= from).map(|e| e.ver).collect();
            let missing: Vec<u64> = want.difference(&seen).copied().collect();
            let extra: Vec<u64> = seen
                .difference(&want)
                .copied()
                .filter(|v| {
                    let tx = evs[*v as usize].tx;
                    !evs.iter().any(|e| e.tx == tx && e.ver <= from)
                })
                .collect();
            if !missing.is_empty() || !extra.is_empty() {
                return Err(format!("stream {s} (bucket {b}) reverse from {from} (batch {batch}): missing versions {missing:?}, foreign {extra:?}"));
            }
            st.events_compared += seen.len() as u64;
        }
    }

    if lookups {
        for (p, l) in &w.log {
            for e in l {
                st.lookups += 1;
                let got = db.read_event(*p, e.event_id).await.map_err(|x| format!("read_event({}) failed: {x}", e.event_id))?;
                match got {
                    Some(r) => World::same(&r, e, w.key_of(e)).map_err(|x| format!("read_event: {x}"))?,
                    None => return Err(format!("read_event(partition {p}, seq {}, tx {}) returned None", e.seq, e.tx)),
                }
                if e.idx == 0 {
                    let tx = db.read_transaction(*p, e.event_id).await.map_err(|x| format!("read_transaction failed: {x}"))?;
                    let Some(g) = tx else { return Err(format!("read_transaction(tx {}) returned None", e.tx)) };
                    let evs: Vec<EventRecord> = g.into_iter().collect();
                    let want: Vec<&RefEvent> = l.iter().filter(|m| m.tx == e.tx).collect();
                    if evs.len() != want.len() {
                        return Err(format!("read_transaction(tx {}) returned {} of {} events", e.tx, evs.len(), want.len()));
                    }
                    for (r, m) in evs.iter().zip(&want) {
                        World::same(r, m, w.key_of(m)).map_err(|x| format!("read_transaction: {x}"))?;
                    }
                }
            }
            let ghost = sierradb::id::uuid_v7_with_partition_hash(7);
            if let Ok(Some(r)) = db.read_event(*p, ghost).await {
                return Err(format!("read_event of a never written id returned seq {}", r.partition_sequence));
            }
        }
    }
    Ok(st)
}
