//! Recording of hook events into traces for TraceDurability.tla (C01, C20).
use std::collections::{BTreeMap, HashMap};
use std::os::unix::fs::MetadataExt;
use std::path::Path;
use std::sync::{Arc, Mutex};
use std::time::Instant;

use serde_json::{Value, json};

#[derive(Clone, Debug)]
pub struct Raw {
    pub name: String,
    pub f: HashMap<String, u64>,
    pub thread: String,
    pub at_us: u64,
}

#[derive(Clone)]
pub struct Recorder {
    pub events: Arc<Mutex<Vec<Raw>>>,
    pub t0: Instant,
}

impl Recorder {
    /// Installs the process-wide hook handler; events are appended under one mutex, which
    /// defines the global order of the trace.
    pub fn install() -> Recorder {
        let rec = Recorder { events: Arc::new(Mutex::new(Vec::new())), t0: Instant::now() };
        let r2 = rec.clone();
        sierradb::verif::install(Arc::new(move |name, fields| {
            r2.push(name, fields.iter().map(|(k, v)| (k.to_string(), *v)).collect());
        }));
        rec
    }
    pub fn push(&self, name: &str, f: HashMap<String, u64>) {
        let thread = std::thread::current().name().unwrap_or("?").to_string();
        let mut g = self.events.lock().unwrap();
        let at_us = self.t0.elapsed().as_micros() as u64;
        g.push(Raw { name: name.to_string(), f, thread, at_us });
    }
    pub fn mark(&self, name: &str, kv: &[(&str, u64)]) {
        self.push(name, kv.iter().map(|(k, v)| (k.to_string(), *v)).collect());
    }
    pub fn take(&self) -> Vec<Raw> {
        std::mem::take(&mut *self.events.lock().unwrap())
    }
}

fn ino_map(dir: &Path) -> HashMap<u64, u64> {
    let mut m = HashMap::new();
    let segs = dir.join("buckets").join("00000").join("segments");
    if let Ok(rd) = std::fs::read_dir(segs) {
        for e in rd.flatten() {
            if let Ok(seg) = e.file_name().to_string_lossy().parse::<u64>() {
                if let Ok(md) = std::fs::metadata(e.path().join("data.evts")) {
                    m.insert(md.ino(), seg);
                }
            }
        }
    }
    m
}

/// Converts the raw hook events of one single-bucket run into TraceDurability lines.
/// Byte offsets become units: the number of transactions of that segment that end at or
/// before the offset.
pub fn to_trace(raw: &[Raw], dir: &Path) -> Result<Vec<Value>, String> {
    let inos = ino_map(dir);
    // pass 1: transactions, their segment and end offset
    let mut next_tx = 1u64;
    let mut key2tx: HashMap<(u64, u64), u64> = HashMap::new();
    #[derive(Clone)]
    enum L {
        Write { tx: u64, seg: u64, ok: Option<bool> },
        Fsync { seg: u64, len: u64 },
        SetLen { seg: u64 },
        Published { seg: u64, off: u64 },
        Reply { tx: u64, ok: bool, seg: u64, off: u64 },
        Roll { what: &'static str, seg: u64 },
        Ack { tx: u64 },
        Read { tx: u64, found: u64 },
        Reopen,
    }
    let mut lines: Vec<L> = vec![];
    let mut open_write: Option<usize> = None; // index into lines of the Write of the tx in flight
    for r in raw {
        let g = |k: &str| r.f.get(k).copied().unwrap_or(0);
        match r.name.as_str() {
            "wt.event" => {
                if open_write.is_none() {
                    let tx = next_tx;
                    next_tx += 1;
                    key2tx.insert((g("partition"), g("seq")), tx);
                    open_write = Some(lines.len());
                    lines.push(L::Write { tx, seg: g("seg"), ok: None });
                }
            }
            "wt.before_commit" => {}
            "seglog.fsync" => {
                let seg = *inos.get(&g("ino")).ok_or_else(|| format!("fsync of unknown inode {} (known {:?}, thread {}, dir {})", g("ino"), inos, r.thread, dir.display()))?;
                lines.push(L::Fsync { seg, len: g("len") });
            }
            "seglog.set_len" => {
                let seg = *inos.get(&g("ino")).ok_or_else(|| format!("set_len of unknown inode {}", g("ino")))?;
                lines.push(L::SetLen { seg });
            }
            "wt.published" => lines.push(L::Published { seg: g("seg"), off: g("off") }),
            "wt.reply" => {
                let ok = g("ok") == 1;
                let tx = match open_write.take() {
                    Some(i) => {
                        if let L::Write { tx, ok: o, .. } = &mut lines[i] {
                            *o = Some(ok);
                            *tx
                        } else {
                            unreachable!()
                        }
                    }
                    None => {
                        // nothing was written for this request (rejected before the first record)
                        let tx = next_tx;
                        next_tx += 1;
                        tx
                    }
                };
                if ok {
                    key2tx.insert((g("partition"), g("first_seq")), tx);
                } else {
                    key2tx.retain(|_, v| *v != tx);
                }
                lines.push(L::Reply { tx, ok, seg: g("seg"), off: g("off") });
            }
            "wt.roll.synced" => lines.push(L::Roll { what: "roll_synced", seg: g("seg") }),
            "wt.roll.created" => lines.push(L::Roll { what: "roll_created", seg: g("seg") }),
            "wt.roll.swapped" => lines.push(L::Roll { what: "roll_swapped", seg: g("seg") }),
            "wt.roll.old_installed" => lines.push(L::Roll { what: "roll_old", seg: g("seg") }),
            "wt.roll.new_installed" => lines.push(L::Roll { what: "roll_new", seg: g("seg") }),
            "wt.ack" => {
                let tx = *key2tx.get(&(g("partition"), g("first_seq"))).ok_or_else(|| format!("ack for unknown transaction (partition {}, seq {})", g("partition"), g("first_seq")))?;
                lines.push(L::Ack { tx });
            }
            "h.read" => {
                let tx = *key2tx.get(&(g("partition"), g("first_seq"))).ok_or("read for unknown transaction")?;
                lines.push(L::Read { tx, found: g("found") });
            }
            "h.reopen" => lines.push(L::Reopen),
            n if n.starts_with("rd.") => {}
            other => return Err(format!("unexpected hook event {other}")),
        }
    }
    // pass 2: units as of each line -- transactions of the segment whose write line has been
    // passed (and that complete) and that end at or before the offset
    let mut end_of: HashMap<u64, (u64, u64)> = HashMap::new(); // tx -> (seg, end offset)
    for l in &lines {
        if let L::Reply { tx, ok: true, seg, off } = l {
            end_of.insert(*tx, (*seg, *off));
        }
    }
    let mut seen: BTreeMap<u64, Vec<u64>> = BTreeMap::new();
    let mut out = vec![];
    for l in lines {
        if let L::Write { tx, ok: Some(true), .. } = &l {
            if let Some((seg, end)) = end_of.get(tx) {
                seen.entry(*seg).or_default().push(*end);
            }
        }
        let units = |seg: u64, len: u64| -> u64 { seen.get(&seg).map(|v| v.iter().filter(|e| **e <= len).count() as u64).unwrap_or(0) };
        out.push(match l {
            L::Write { tx, seg, ok: Some(true) } => json!({"e": "write", "tx": tx, "seg": seg}),
            L::Write { seg, .. } => json!({"e": "partial", "seg": seg}),
            L::Fsync { seg, len } => json!({"e": "fsync", "seg": seg, "units": units(seg, len), "bytes": len}),
            L::SetLen { seg } => json!({"e": "set_len", "seg": seg}),
            L::Published { seg, off } => json!({"e": "published", "seg": seg, "units": units(seg, off), "bytes": off}),
            L::Reply { tx, ok, seg, off } => json!({"e": "reply", "ok": ok as u64, "tx": tx, "seg": seg, "units": units(seg, off), "bytes": off}),
            L::Roll { what, seg } => json!({"e": what, "seg": seg}),
            L::Ack { tx } => json!({"e": "ack", "tx": tx}),
            L::Read { tx, found } => json!({"e": "read", "tx": tx, "found": found}),
            L::Reopen => json!({"e": "reopen"}),
        });
    }
    Ok(out)
}
