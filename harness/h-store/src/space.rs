//! C19: appends that fit an empty segment never fail for lack of space.
//!
//! Space.tla's table lists the fill classes (free space of the live segment relative to the
//! transaction's *estimate* and *stored* size, whether compression shrinks or grows it) with
//! the outcome the design prescribes ("ok") and whether a rollover happens.  The harness
//! expands every class to concrete cases: for each segment size x compression x payload kind
//! x shape it measures the stored size of the transaction on a scratch database, fills a real
//! live segment so that the free space takes every value around the two sizes, appends the
//! transaction and compares outcome and rollover with the table.
use std::collections::BTreeMap;
use std::path::Path;
use std::sync::Arc;

use hcommon::{Report, read_ndjson};
use serde_json::{Value, json};
use sierradb::StreamId;
use sierradb::bucket::segment::{COMMIT_SIZE, EVENT_HEADER_SIZE, SEGMENT_HEADER_SIZE};
use sierradb::database::{Database, ExpectedVersion, NewEvent, Transaction};
use sierradb::id::{uuid_to_partition_hash, uuid_v7_with_partition_hash};
use smallvec::SmallVec;
use uuid::Uuid;

use crate::trace::Recorder;
use crate::world::*;
use crate::scratch;

#[derive(Clone, Copy, Debug, PartialEq)]
enum Kind {
    Zeros,
    Text,
    Random,
}

fn bytes(kind: Kind, len: usize, salt: u64) -> Vec<u8> {
    let mut x = salt.wrapping_mul(0x9E37_79B9_7F4A_7C15) | 1;
    (0..len)
        .map(|i| match kind {
            Kind::Zeros => 0u8,
            Kind::Text => b"the quick brown fox jumps over the lazy dog. "[(i + salt as usize) % 45],
            Kind::Random => {
                x ^= x << 13;
                x ^= x >> 7;
                x ^= x << 17;
                (x >> 29) as u8
            }
        })
        .collect()
}

fn key() -> Uuid {
    Uuid::from_u128(0x1234_5678_9abc_def0_1234_5678_9abc_def0)
}

fn tx_of(stream: &str, payloads: &[Vec<u8>]) -> (Transaction, usize) {
    let hash = uuid_to_partition_hash(key());
    let mut evs: SmallVec<[NewEvent; 4]> = SmallVec::new();
    let mut est = 0usize;
    for p in payloads {
        let name = "SpaceEvent".to_string();
        let metadata = b"md".to_vec();
        est += EVENT_HEADER_SIZE + stream.len() + name.len() + metadata.len() + p.len();
        evs.push(NewEvent {
            event_id: uuid_v7_with_partition_hash(hash),
            stream_id: StreamId::new(stream.to_string()).unwrap(),
            stream_version: ExpectedVersion::Any,
            event_name: name,
            timestamp: 1_700_000_000_000_000_000,
            metadata,
            payload: p.clone(),
        });
    }
    if payloads.len() > 1 {
        est += COMMIT_SIZE;
    }
    (Transaction::new(key(), 0, evs).expect("transaction"), est)
}

/// (segment id, write offset) after the latest reply of the writer thread
fn last_reply(rec: &Recorder) -> Option<(u64, u64, bool)> {
    let g = rec.events.lock().unwrap();
    g.iter().rev().find(|r| r.name == "wt.reply").map(|r| (r.f["seg"], r.f["off"], r.f["ok"] == 1))
}

async fn append(db: &Database, rec: &Recorder, tx: Transaction) -> (Result<(), String>, u64, u64) {
    let r = db.append_events(tx).await.map(|_| ()).map_err(|e| format!("{e}"));
    let (seg, off, _) = last_reply(rec).expect("reply hook event");
    (r, seg, off)
}

fn copy_dir(src: &Path, dst: &Path) {
    std::fs::create_dir_all(dst).unwrap();
    for e in std::fs::read_dir(src).unwrap().flatten() {
        let to = dst.join(e.file_name());
        if e.file_type().unwrap().is_dir() {
            copy_dir(&e.path(), &to);
        } else {
            std::fs::copy(e.path(), &to).unwrap();
        }
    }
}

struct Case {
    kind: Kind,
    n: usize,
    len: usize,
}

pub async fn space_cmd(rep: &mut Report, table: &str) {
    let quick = hcommon::tier_quick();
    // the specification's table: (est, sto, cmp) -> (res, rolled)
    let mut want: BTreeMap<(String, String, String), (String, u64)> = BTreeMap::new();
    for r in read_ndjson(table) {
        let k = (r["est"].as_str().unwrap().to_string(), r["sto"].as_str().unwrap().to_string(), r["cmp"].as_str().unwrap().to_string());
        let v = (r["res"].as_str().unwrap().to_string(), r["rolled"].as_u64().unwrap());
        if let Some(old) = want.insert(k.clone(), v.clone()) {
            assert_eq!(old, v, "Space.tla: outcome is not a function of the class {k:?}");
        }
    }
    let rec = Recorder::install();
    let root = scratch("space");
    let seg_sizes: &[usize] = if quick { &[128 * 1024] } else { &[128 * 1024, 192 * 1024, 1 << 20] };
    let lens: &[usize] = if quick { &[60, 200, 5_000] } else { &[0, 60, 127, 200, 5_000, 40_000, 100_000] };
    let mut covered: BTreeMap<(String, String, String), u64> = BTreeMap::new();
    let mut targets_total = 0u64;
    let mut reported = std::collections::BTreeSet::new();
    let mut ci = 0u64;
    for &segsz in seg_sizes {
        for compression in [false, true] {
            let cfg = DbCfg { segment_size: segsz, compression, ..DbCfg::small(1) };
            let cap = segsz - SEGMENT_HEADER_SIZE;
            let mut cases = vec![];
            for kind in [Kind::Zeros, Kind::Text, Kind::Random] {
                for n in [1usize, 2] {
                    for &len in lens {
                        cases.push(Case { kind, n, len });
                    }
                }
            }
            // base image: a live segment filled (incompressible filler) up to ~ cap/2, so that
            // every target needs only a few more fillers
            for case in cases {
                ci += 1;
                let payloads: Vec<Vec<u8>> = (0..case.n).map(|j| bytes(case.kind, case.len, ci * 10 + j as u64)).collect();
                let (probe_tx, est) = tx_of("target", &payloads);
                if est + SEGMENT_HEADER_SIZE > segsz {
                    continue; // turned away by the admission rule (uncompressed size): outside the domain
                }
                // stored size: measured on a scratch database
                let pdir = root.join("probe");
                let _ = std::fs::remove_dir_all(&pdir);
                let db = cfg.open(&pdir).unwrap();
                let (r, _, off) = append(&db, &rec, probe_tx).await;
                shutdown_all().await;
                if let Err(e) = r {
                    rep.violation("c19:probe-append-failed", json!({"problem": e, "est": est}), json!({"segment": segsz, "compression": compression, "len": case.len, "n": case.n}));
                    continue;
                }
                let stored = off as usize - SEGMENT_HEADER_SIZE;
                if stored > cap {
                    continue;
                }
                let cmp = if stored < est { "shrinks" } else if stored > est { "grows" } else { "same" };
                // free-space targets around both sizes
                let (lo, hi) = (est.min(stored), est.max(stored));
                let mut targets: Vec<usize> = vec![];
                if hi - lo <= 40 || !quick && hi - lo <= 400 {
                    targets.extend(lo.saturating_sub(2)..=hi + 2);
                } else {
                    targets.extend(lo.saturating_sub(2)..=lo + 2);
                    targets.extend(hi - 2..=hi + 2);
                    let stride = (hi - lo) / if quick { 3 } else { 12 };
                    targets.extend((lo + 3..hi - 2).step_by(stride.max(1)));
                }
                targets.retain(|t| *t + 400 < cap);
                targets.sort();
                targets.dedup();
                for free_target in targets {
                    targets_total += 1;
                    rep.eval(1);
                    let dir = root.join("t");
                    let _ = std::fs::remove_dir_all(&dir);
                    rec.take();
                    let db = cfg.open(&dir).unwrap();
                    // fill with incompressible single-event transactions until free == free_target
                    let mut off = SEGMENT_HEADER_SIZE;
                    let mut c_over: Option<isize> = None; // stored - payload length of a filler
                    let mut ok = true;
                    let mut k = 0u64;
                    let mut seg0 = 0;
                    loop {
                        let free = segsz - off;
                        if free == free_target {
                            break;
                        }
                        if free < free_target {
                            ok = false;
                            break;
                        }
                        let need = free - free_target;
                        let over = c_over.unwrap_or((EVENT_HEADER_SIZE + 4 + 10 + 2) as isize);
                        let l: isize = if need > 24_000 {
                            16_000
                        } else if need > 1_400 && c_over.is_none() {
                            need as isize - 900
                        } else if need > 1_400 {
                            need as isize - 700 - over
                        } else {
                            need as isize - over
                        };
                        if l < 130 {
                            ok = false;
                            break;
                        }
                        k += 1;
                        let (ftx, _) = tx_of("fill", &[bytes(Kind::Random, l as usize, ci * 1000 + k)]);
                        let (r, seg, o) = append(&db, &rec, ftx).await;
                        if r.is_err() || seg != 0 {
                            ok = false;
                            break;
                        }
                        c_over = Some(o as isize - off as isize - l);
                        off = o as usize;
                        seg0 = seg;
                        if k > 200 {
                            ok = false;
                            break;
                        }
                    }
                    if !ok {
                        // could not hit this fill level exactly (filler granularity); not counted
                        rep.add("fill_misses", 1);
                        shutdown_all().await;
                        continue;
                    }
                    let free = segsz - off;
                    let class = (
                        if est <= free { "fits" } else { "over" }.to_string(),
                        if stored <= free { "fits" } else { "over" }.to_string(),
                        cmp.to_string(),
                    );
                    // a class the design rules out (a record that grows beyond its estimate) is not in
                    // the table; the statement still demands acceptance, with a rollover iff needed
                    let (want_res, want_rolled) = want.get(&class).cloned().unwrap_or_else(|| {
                        rep.add("cases_outside_table", 1);
                        ("ok".to_string(), (est > free || stored > free) as u64)
                    });
                    *covered.entry(class.clone()).or_default() += 1;
                    let (ttx, _) = tx_of("target", &payloads);
                    let ids: Vec<Uuid> = ttx.events().iter().map(|e| e.event_id).collect();
                    let (r, seg, _) = append(&db, &rec, ttx.clone()).await;
                    let mut problem = None;
                    match &r {
                        Ok(()) => {
                            // the statement asks for acceptance (with a rollover when needed): an append the specification's
                            // space rule would turn away but the code accepts, or a rollover the rule would not have made yet, is
                            // a divergence of the transcription, not a violation
                            if want_res != "ok" {
                                rep.add("accepted_where_the_rule_rejects", 1);
                            } else if seg - seg0 != want_rolled {
                                rep.add("rollover_count_differs_from_the_rule", 1);
                            }
                            {
                                for id in &ids {
                                    match db.read_event(0, *id).await {
                                        Ok(Some(_)) => {}
                                        other => problem = Some(("unreadable", format!("accepted event not readable: {:?}", other.map(|o| o.is_some())))),
                                    }
                                }
                            }
                        }
                        Err(e) => {
                            // does a retry help?  (the statement: never fails forever)
                            let mut retries = vec![];
                            for _ in 0..2 {
                                let (r2, _, _) = append(&db, &rec, ttx.clone()).await;
                                retries.push(r2.is_ok());
                            }
                            problem = Some(("segment-full", format!("rejected with `{e}` although estimate {est} and stored size {stored} fit an empty segment (room {cap}); free space was {free}; retries succeeded: {retries:?}")));
                        }
                    }
                    shutdown_all().await;
                    if let Some((what, msg)) = problem {
                        let key = format!("c19:{what}:{}", if est <= free && stored > free { "free-between-estimate-and-stored" } else { "other" });
                        let detail = json!({"problem": msg, "segment_size": segsz, "compression": compression, "payload": format!("{:?}", case.kind),
                                             "events": case.n, "payload_len": case.len, "estimate": est, "stored": stored, "free": free});
                        if reported.insert(key.clone()) {
                            rep.violation(&key, detail.clone(), detail);
                        } else {
                            rep.violations += 1;
                        }
                    }
                    if rep.samples.len() < 3 && targets_total % 17 == 1 {
                        rep.sample(json!({"segment_size": segsz, "compression": compression, "payload": format!("{:?}", case.kind), "events": case.n,
                                          "payload_len": case.len, "estimate": est, "stored": stored, "free": free, "class": [class.0, class.1, class.2], "result": r.is_ok()}));
                    }
                }
            }
        }
    }
    sierradb::verif::clear();
    let _ = std::fs::remove_dir_all(&root);
    for (k, n) in &covered {
        rep.class(format!("est={} stored={} {}", k.0, k.1, k.2));
        let _ = n;
    }
    rep.set("classes_in_table", json!(want.len()));
    rep.set("classes_covered", json!(covered.iter().map(|(k, n)| json!({"est": k.0, "stored": k.1, "cmp": k.2, "cases": n})).collect::<Vec<_>>()));
    rep.set("targets", json!(targets_total));
    let _ = Arc::new(0);
}
