//! C05 (and the crash part of C04): spec-driven crash-image enumeration.  Each row of
//! Recovery.tla's table is (history shape, number of acknowledged transactions, number of
//! complete records of the unacknowledged tail that reached the OS, torn?).  A row is
//! expanded to concrete images of the data directory: the directory as it was at the last
//! acknowledgement plus a prefix of the bytes written afterwards (cut at the record
//! boundary, or at every byte inside the next record when torn), zeros beyond.  Each image
//! is opened with the real DatabaseBuilder, every read API is compared with the model after
//! the transactions Recovery!Recover keeps, and one more append must continue the
//! sequences without gap or reuse.
use std::collections::BTreeMap;
use std::os::unix::fs::FileExt;
use std::path::{Path, PathBuf};

use hcommon::{Report, read_ndjson};
use serde_json::{Value, json};
use sierradb::bucket::segment::{BucketSegmentReader, Record};

use crate::verify::verify_reads;
use crate::world::*;
use crate::{close, scratch};

fn copy_dir(src: &Path, dst: &Path) {
    std::fs::create_dir_all(dst).unwrap();
    for e in std::fs::read_dir(src).unwrap().flatten() {
        let to = dst.join(e.file_name());
        if e.file_type().unwrap().is_dir() {
            copy_dir(&e.path(), &to);
        } else {
            std::fs::copy(e.path(), &to).unwrap();
        }
    }
}

fn data_path(dir: &Path, seg: u32) -> PathBuf {
    dir.join("buckets").join("00000").join("segments").join(format!("{seg:010}")).join("data.evts")
}

fn tx_value(id: u64, n: usize) -> Value {
    json!({"id": id, "key": "k1", "p": 0, "xs": {"k": "any"}, "oversize": false,
           "evs": (0..n).map(|_| json!({"s": format!("s{}", id % 2), "x": {"k": "any"}, "badts": false})).collect::<Vec<_>>()})
}

/// mirror of Recovery!Recover: transactions completely contained in the first `whole` records
fn recovered(shapes: &[usize], whole: usize) -> usize {
    let mut used = 0;
    let mut k = 0;
    for &n in shapes {
        let recs = if n == 1 { 1 } else { n + 1 };
        if used + recs <= whole {
            used += recs;
            k += 1;
        } else {
            break;
        }
    }
    k
}

struct Group {
    s0: PathBuf,
    tail: Vec<u8>,         // bytes written after the last acknowledgement (of the live segment)
    end0: u64,             // live segment offset at the last acknowledgement
    seg: u32,              // live segment id
    bounds: Vec<u64>,      // end offset of each record of the tail
    logs: Vec<BTreeMap<u16, Vec<RefEvent>>>, // reference log after k transactions
    keys: std::collections::HashMap<String, uuid::Uuid>,
    cfg: DbCfg,
}

async fn build_group(root: &Path, gi: usize, shapes: &[usize], acked: usize, compression: bool, big_first: bool) -> Result<Group, String> {
    let cfg = DbCfg { compression, ..DbCfg::small(1) };
    let dir = root.join(format!("g{gi}-live"));
    let rule = if big_first { PayloadRule::Rollover } else { PayloadRule::Tiny };
    let mut w = World::new(dir.clone(), cfg.clone(), rule, gi as u64 + 1)?;
    let mut logs = vec![w.log.clone()];
    let s0 = root.join(format!("g{gi}-s0"));
    let mut end0 = 0;
    let mut seg = 0u32;
    // with big_first a few large transactions come first so that sealed segments exist
    let prefix: Vec<usize> = if big_first { vec![1, 2, 1, 1, 2, 1] } else { vec![] };
    let mut id = 1000u64;
    for n in &prefix {
        id += 1;
        let txv = tx_value(id, *n);
        let prep = w.prepare(&txv);
        let r = w.db().append_events(prep.tx.clone()).await.map_err(|e| format!("prefix append failed: {e}"))?;
        let vers: Vec<u64> = {
            let have = w.stream_events(0, prep.events[0].stream.as_str()).len() as u64;
            (0..*n as u64).map(|j| have + j).collect()
        };
        w.record(prep, &json!({"first": r.first_partition_sequence, "vers": vers}));
    }
    w.payload_rule = PayloadRule::Tiny;
    logs[0] = w.log.clone();
    let live_seg = |dir: &Path| -> u32 {
        std::fs::read_dir(dir.join("buckets").join("00000").join("segments")).unwrap().flatten()
            .filter_map(|e| e.file_name().to_string_lossy().parse::<u32>().ok()).max().unwrap_or(0)
    };
    let written_end = |dir: &Path, seg: u32| -> u64 {
        let mut rd = BucketSegmentReader::open(data_path(dir, seg), None).unwrap();
        let mut it = rd.iter();
        let mut end = 64 - 16; // SEGMENT_HEADER_SIZE = 48
        end = end.max(48);
        while let Ok(Some(rec)) = it.next_record() {
            end = rec.offset() + rec.len();
        }
        end
    };
    for (i, n) in shapes.iter().enumerate() {
        if i == acked {
            // snapshot at the last acknowledgement (everything so far is fsynced); wait for the
            // background index flush of sealed segments to finish first
            tokio::time::sleep(std::time::Duration::from_millis(if big_first { 150 } else { 5 })).await;
            seg = live_seg(&dir);
            end0 = written_end(&dir, seg);
            copy_dir(&dir, &s0);
        }
        let txv = tx_value(i as u64 + 1, *n);
        let prep = w.prepare(&txv);
        let r = w.db().append_events(prep.tx.clone()).await.map_err(|e| format!("append failed: {e}"))?;
        let have = w.stream_events(0, prep.events[0].stream.as_str()).len() as u64;
        let vers: Vec<u64> = (0..*n as u64).map(|j| have + j).collect();
        w.record(prep, &json!({"first": r.first_partition_sequence, "vers": vers}));
        logs.push(w.log.clone());
    }
    if acked == shapes.len() {
        tokio::time::sleep(std::time::Duration::from_millis(if big_first { 150 } else { 5 })).await;
        seg = live_seg(&dir);
        end0 = written_end(&dir, seg);
        copy_dir(&dir, &s0);
    }
    if live_seg(&dir) != seg {
        return Err("tail crossed a segment boundary (harness layout)".into());
    }
    let keys = w.keys.clone();
    close(&mut w).await;
    // the tail: records of the unacknowledged transactions
    let mut rd = BucketSegmentReader::open(data_path(&dir, seg), None).unwrap();
    let mut it = rd.iter_from(end0);
    let mut bounds = vec![];
    while let Ok(Some(rec)) = it.next_record() {
        let _: &Record = &rec;
        bounds.push(rec.offset() + rec.len());
    }
    let end1 = bounds.last().copied().unwrap_or(end0);
    let mut tail = vec![0u8; (end1 - end0) as usize];
    let f = std::fs::File::open(data_path(&dir, seg)).unwrap();
    f.read_exact_at(&mut tail, end0).unwrap();
    let _ = std::fs::remove_dir_all(&dir);
    Ok(Group { s0, tail, end0, seg, bounds, logs, keys, cfg })
}

async fn check_image(g: &Group, img: &Path, cut: u64, keep: usize, label: &str) -> Result<(u64, u64), String> {
    let _ = std::fs::remove_dir_all(img);
    copy_dir(&g.s0, img);
    {
        let f = std::fs::OpenOptions::new().write(true).open(data_path(img, g.seg)).unwrap();
        let n = (cut - g.end0) as usize;
        f.write_all_at(&g.tail[..n], g.end0).unwrap();
    }
    let db = g.cfg.open(img).map_err(|e| format!("[{label}] reopening the crashed database failed: {e}"))?;
    let mut w = World {
        cfg: g.cfg.clone(),
        dir: img.to_path_buf(),
        db: Some(db),
        log: g.logs[keep].clone(),
        keys: g.keys.clone(),
        payload_rule: PayloadRule::Tiny,
        rng: rand::SeedableRng::seed_from_u64(7),
    };
    let r1 = verify_reads(&w, false, true).await.map_err(|e| format!("[{label}] after recovery: {e}"))?;
    // one more append continues sequences and versions without gap or reuse
    let txv = tx_value(9000, 2);
    let prep = w.prepare(&txv);
    let want_first = w.log.get(&0).map(|l| l.len()).unwrap_or(0) as u64;
    let have = w.stream_events(0, prep.events[0].stream.as_str()).len() as u64;
    match w.db().append_events(prep.tx.clone()).await {
        Ok(r) => {
            if r.first_partition_sequence != want_first {
                return Err(format!("[{label}] append after recovery got sequence {}, the model continues at {want_first}", r.first_partition_sequence));
            }
            let got_v = r.stream_versions.values().copied().max().unwrap_or(0);
            if got_v != have + 1 {
                return Err(format!("[{label}] append after recovery got stream version {got_v}, the model continues at {}", have + 1));
            }
            w.record(prep, &json!({"first": want_first, "vers": [have, have + 1]}));
        }
        Err(e) => return Err(format!("[{label}] append after recovery failed: {e}")),
    }
    let r2 = verify_reads(&w, false, true).await.map_err(|e| format!("[{label}] after recovery + append: {e}"))?;
    close(&mut w).await;
    Ok((r1.scans + r2.scans, r1.events_compared + r2.events_compared))
}

pub async fn crash_cmd(rep: &mut Report, table: &str) {
    let quick = hcommon::tier_quick();
    let rows = read_ndjson(table);
    let root = scratch("crash");
    // group rows by (shapes, acked)
    let mut groups: BTreeMap<(Vec<usize>, usize), Vec<(usize, bool)>> = BTreeMap::new();
    for r in &rows {
        let shapes: Vec<usize> = r["shapes"].as_array().unwrap().iter().map(|v| v.as_u64().unwrap() as usize).collect();
        let acked = r["acked"].as_u64().unwrap() as usize;
        // mirror == specification
        let whole = r["whole"].as_u64().unwrap() as usize;
        assert_eq!(recovered(&shapes, whole) as u64, r["keeps"].as_u64().unwrap(), "harness mirror of Recovery!Recover disagrees for {r}");
        groups.entry((shapes, acked)).or_default().push((whole, r["torn"].as_bool().unwrap()));
    }
    let mut images = 0u64;
    let mut scans = 0u64;
    let mut compared = 0u64;
    let mut seen_keys = std::collections::BTreeSet::new();
    for (gi, ((shapes, acked), cuts)) in groups.iter().enumerate() {
        let compression = gi % 2 == 1;
        let big_first = gi % 3 == 2;
        let g = match build_group(&root, gi, shapes, *acked, compression, big_first).await {
            Ok(g) => g,
            Err(e) => {
                rep.violation("c05:harness-setup", json!({"shapes": shapes, "acked": acked, "problem": e}), json!({"shapes": shapes, "acked": acked}));
                continue;
            }
        };
        // records of the acknowledged part are not in the tail: `whole` counts records of the
        // whole history, the tail starts after the acknowledged transactions' records
        let acked_recs: usize = shapes[..*acked].iter().map(|n| if *n == 1 { 1 } else { n + 1 }).sum();
        let img = root.join(format!("g{gi}-img"));
        for (whole, torn) in cuts {
            let tail_whole = whole - acked_recs;
            let base = if tail_whole == 0 { g.end0 } else { g.bounds[tail_whole - 1] };
            let keep = recovered(shapes, *whole);
            let cut_list: Vec<u64> = if *torn {
                let next = g.bounds[tail_whole];
                let all: Vec<u64> = ((base + 1)..next).collect();
                if quick && all.len() > 24 {
                    let mut v: Vec<u64> = all[..6].to_vec();
                    v.extend(all.iter().skip(6).step_by(all.len() / 10).copied());
                    v.extend(&all[all.len() - 6..]);
                    v.sort();
                    v.dedup();
                    v
                } else {
                    all
                }
            } else {
                vec![base]
            };
            rep.class(format!("whole={} torn={} keeps={} of {}", tail_whole, torn, keep, shapes.len()));
            for cut in cut_list {
                // bytes the cut drops may be zeros anyway (e.g. the high bytes of a commit
                // record's event count): the image then holds more complete records than the
                // class says, and the specification's Recover is applied to what is really there
                let mut eff = cut;
                while eff < g.end0 + g.tail.len() as u64 && g.tail[(eff - g.end0) as usize] == 0 {
                    eff += 1;
                }
                let eff_whole = acked_recs + g.bounds.iter().filter(|b| **b <= eff).count();
                let keep = recovered(shapes, eff_whole);
                images += 1;
                rep.eval(1);
                let label = format!("shapes {shapes:?}, {acked} acked, cut at byte {} of the tail ({} complete records{})", cut - g.end0, tail_whole, if *torn { ", torn" } else { "" });
                let res = tokio::spawn({
                    let img = img.clone();
                    let label = label.clone();
                    let gref: &'static Group = unsafe { &*(&g as *const Group) };
                    async move { check_image(gref, &img, cut, keep, &label).await }
                })
                .await;
                shutdown_all().await;
                let problem = match res {
                    Ok(Ok((s, c))) => {
                        scans += s;
                        compared += c;
                        None
                    }
                    Ok(Err(e)) => Some(e),
                    Err(_) => Some(format!("[{label}] panic: {}", hcommon::last_panic())),
                };
                if let Some(e) = problem {
                    let what = if e.contains("reopening") {
                        "reopen-failed"
                    } else if e.contains("panic") {
                        "panic"
                    } else if e.contains("append after recovery") {
                        "append-after-recovery"
                    } else {
                        "recovered-state-differs"
                    };
                    // classify by where the cut falls relative to the commit record
                    let incomplete_multi = keep < shapes.len() && shapes[keep] > 1 && tail_whole > 0 && recovered(shapes, *whole) * 0 == 0
                        && (whole - shapes[..keep].iter().map(|n| if *n == 1 { 1 } else { n + 1 }).sum::<usize>()) > 0;
                    let key = format!("c05:{what}:{}", if incomplete_multi { "events-without-commit" } else { "other" });
                    if seen_keys.insert(key.clone()) {
                        rep.violation(&key, json!({"problem": e, "compression": compression}),
                            json!({"shapes": shapes, "acked": acked, "whole": whole, "torn": torn, "cut_byte": cut - g.end0}));
                    } else {
                        rep.violations += 1;
                    }
                }
            }
        }
        let _ = std::fs::remove_dir_all(&img);
        let _ = std::fs::remove_dir_all(&g.s0);
        if gi == 0 {
            rep.sample(json!({"shapes": shapes, "acked": acked, "tail_bytes": g.tail.len(), "record_ends": g.bounds, "cuts": cuts}));
        }
    }
    let _ = std::fs::remove_dir_all(&root);
    rep.set("images", json!(images));
    rep.set("groups", json!(groups.len()));
    rep.set("scans", json!(scans));
    rep.set("events_compared", json!(compared));
}
