//! Harness for the single-node store (crates/sierradb): replays EventStore.tla /
//! Durability.tla behaviours on a real Database and checks every observation against the
//! specification.
use std::path::PathBuf;

use hcommon::{Report, read_ndjson};
use serde_json::{Value, json};

mod verify;
mod world;

use verify::verify_reads;
use world::*;

fn main() {
    hcommon::quiet_panics();
    let args: Vec<String> = std::env::args().collect();
    let mut rep = Report::new();
    let rt = tokio::runtime::Builder::new_multi_thread().worker_threads(4).enable_all().build().unwrap();
    match args[1].as_str() {
        "replay" => rt.block_on(replay(&mut rep, &args[2], &args[3])),
        other => panic!("unknown subcommand {other}"),
    }
    rep.finish();
    // reader/writer pools of dropped databases may still be winding down
    std::process::exit(0);
}

pub fn scratch(name: &str) -> PathBuf {
    let d = std::env::current_dir().unwrap().join(format!("store-{}-{}", std::process::id(), name));
    let _ = std::fs::remove_dir_all(&d);
    std::fs::create_dir_all(&d).unwrap();
    d
}

pub async fn close(w: &mut World) {
    if let Some(db) = w.db.take() {
        db.shutdown().await;
        drop(db);
    }
}

pub async fn reopen(w: &mut World) -> Result<(), String> {
    close(w).await;
    let db = w.cfg.open(&w.dir)?;
    w.db = Some(db);
    Ok(())
}

struct Variant {
    cfg: DbCfg,
    rule: PayloadRule,
    name: &'static str,
}

fn variants(which: &str, quick: bool) -> Vec<Variant> {
    let mut v = vec![];
    let base = |nb| DbCfg::small(nb);
    match which {
        "c02" => {
            v.push(Variant { cfg: base(2), rule: PayloadRule::Tiny, name: "tiny" });
            v.push(Variant { cfg: DbCfg { compression: true, ..base(2) }, rule: PayloadRule::Rollover, name: "rollover+zstd" });
            if !quick {
                v.push(Variant { cfg: DbCfg { writer_threads: 2, ..base(2) }, rule: PayloadRule::Mixed, name: "2-writers" });
            }
        }
        _ => {
            v.push(Variant { cfg: base(2), rule: PayloadRule::Straddle, name: "straddle-128k" });
            v.push(Variant { cfg: DbCfg { compression: true, ..base(2) }, rule: PayloadRule::Rollover, name: "rollover+zstd" });
            if !quick {
                v.push(Variant { cfg: DbCfg { segment_size: 1 << 20, ..base(2) }, rule: PayloadRule::Straddle, name: "straddle-1m" });
                v.push(Variant { cfg: DbCfg { segment_size: 256 * 1024, compression: true, ..base(2) }, rule: PayloadRule::Mixed, name: "mixed-256k" });
            }
        }
    }
    v
}

/// Replays one behaviour; Err((key, detail)) on the first divergence.
async fn run_behaviour(which: &str, beh: &Value, var: &Variant, dir: PathBuf, seed: u64, stats: &mut Stats) -> Result<(), (String, Value)> {
    use rand::{RngExt, SeedableRng};
    let mut rng = rand::rngs::StdRng::seed_from_u64(seed ^ 0xabcd);
    let nb = var.cfg.nb;
    let mut w = World::new(dir, var.cfg.clone(), var.rule, seed).map_err(|e| ("open".to_string(), json!(e)))?;
    let steps = beh["steps"].as_array().unwrap();
    for (k, st) in steps.iter().enumerate() {
        let tx = &st["tx"];
        let res = &st["res"];
        let prep = w.prepare(tx);
        let got = w.db().append_events(prep.tx.clone()).await;
        stats.appends += 1;
        if let Err(e) = w.compare_append(&prep, res, &got) {
            return Err((format!("{which}:append-outcome"), json!({"step": k, "tx": tx, "model": res, "problem": e})));
        }
        match &got {
            Ok(_) => {
                stats.accepted += 1;
                w.record(prep, res);
            }
            Err(e) => {
                *stats.rejects.entry(class_of(e).to_string()).or_default() += 1;
            }
        }
        // latest-version / latest-sequence queries after every step (C02)
        let post = &st["post"];
        for b in 0..nb {
            for (s, v) in post["lv"][b as usize].as_object().unwrap() {
                let real = latest(w.db(), &w, b, s).await.map_err(|e| (format!("{which}:latest-version"), json!({"step": k, "problem": e})))?;
                if real != v.as_i64().unwrap() {
                    return Err((format!("{which}:latest-version"), json!({"step": k, "tx": tx, "bucket": b, "stream": s, "real": real, "model": v})));
                }
            }
        }
        for (p, v) in post["ls"].as_array().unwrap().iter().enumerate() {
            let real = latest_seq(w.db(), p as u16).await.map_err(|e| (format!("{which}:latest-sequence"), json!({"step": k, "problem": e})))?;
            if real != v.as_i64().unwrap() {
                return Err((format!("{which}:latest-sequence"), json!({"step": k, "tx": tx, "partition": p, "real": real, "model": v})));
            }
        }
        // stutter steps the functional model does not see
        if rng.random_range(0..12) == 0 {
            stats.reopens += 1;
            reopen(&mut w).await.map_err(|e| (format!("{which}:reopen"), json!({"step": k, "problem": e})))?;
        }
        if which != "c02" && rng.random_range(0..10) == 0 {
            let r = verify_reads(&w, false, false).await.map_err(|e| (format!("{which}:read"), json!({"step": k, "problem": e, "storage": "live"})))?;
            stats.add(&r);
        }
    }
    // the harness's reference log must be the specification's final log
    for (p, l) in beh["log"].as_array().unwrap().iter().enumerate() {
        let mine: Vec<(u64, String, u64)> = w.log.get(&(p as u16)).map(|l| l.iter().map(|e| (e.tx, e.stream.clone(), e.ver)).collect()).unwrap_or_default();
        let spec: Vec<(u64, String, u64)> = l.as_array().unwrap().iter().map(|e| (e["tx"].as_u64().unwrap(), e["s"].as_str().unwrap().to_string(), e["ver"].as_u64().unwrap())).collect();
        assert_eq!(mine, spec, "harness bookkeeping diverged from the specification's log");
    }
    let dense = which != "c02";
    // C02 is about append outcomes and the latest-version queries only; scans belong to C03
    let storages: &[&str] = if which == "c02" { &[] } else { &["live", "reopened"] };
    for &storage in storages {
        if storage == "reopened" {
            stats.reopens += 1;
            reopen(&mut w).await.map_err(|e| (format!("{which}:reopen"), json!({"problem": e, "at": "end"})))?;
        }
        let r = verify_reads(&w, dense, true).await.map_err(|e| (format!("{which}:read"), json!({"problem": e, "storage": storage})))?;
        stats.add(&r);
    }
    stats.segments += count_segments(&w.dir);
    close(&mut w).await;
    let _ = std::fs::remove_dir_all(&w.dir);
    Ok(())
}

fn count_segments(dir: &std::path::Path) -> u64 {
    let mut n = 0;
    if let Ok(rd) = std::fs::read_dir(dir.join("buckets")) {
        for b in rd.flatten() {
            if let Ok(s) = std::fs::read_dir(b.path().join("segments")) {
                n += s.count() as u64;
            }
        }
    }
    n
}

#[derive(Default)]
pub struct Stats {
    appends: u64,
    accepted: u64,
    rejects: std::collections::BTreeMap<String, u64>,
    reopens: u64,
    scans: u64,
    events_compared: u64,
    lookups: u64,
    segments: u64,
}

impl Stats {
    fn add(&mut self, r: &verify::ReadStats) {
        self.scans += r.scans;
        self.events_compared += r.events_compared;
        self.lookups += r.lookups;
    }
}

async fn replay(rep: &mut Report, plans: &str, which: &str) {
    let quick = hcommon::tier_quick();
    let behs = read_ndjson(plans);
    let vars = variants(which, quick);
    let root = scratch("replay");
    let mut stats = Stats::default();
    let mut reported = std::collections::BTreeSet::new();
    for (bi, beh) in behs.iter().enumerate() {
        for (vi, var) in vars.iter().enumerate() {
            if quick && bi % vars.len() != vi {
                continue;
            }
            rep.eval(1);
            let dir = root.join(format!("b{bi}v{vi}"));
            let seed = hcommon::seed().wrapping_mul(1000003) ^ (bi as u64) << 8 ^ vi as u64;
            let r = tokio::spawn({
                let which = which.to_string();
                let beh = beh.clone();
                let var = Variant { cfg: var.cfg.clone(), rule: var.rule, name: var.name };
                async move {
                    let mut st = Stats::default();
                    let r = run_behaviour(&which, &beh, &var, dir, seed, &mut st).await;
                    (r, st)
                }
            })
            .await;
            match r {
                Ok((res, st)) => {
                    stats.appends += st.appends;
                    stats.accepted += st.accepted;
                    stats.reopens += st.reopens;
                    stats.scans += st.scans;
                    stats.events_compared += st.events_compared;
                    stats.lookups += st.lookups;
                    stats.segments += st.segments;
                    for (k, v) in st.rejects {
                        *stats.rejects.entry(k).or_default() += v;
                    }
                    if let Err((key, detail)) = res {
                        if reported.insert((key.clone(), var.name)) {
                            rep.violation(&key, json!({"variant": var.name, "config": var.cfg.describe(), "detail": detail}),
                                json!({"variant": var.name, "seed": seed, "behaviour": beh}));
                        } else {
                            rep.violations += 1;
                        }
                    }
                }
                Err(join) => {
                    let msg = if join.is_panic() { format!("panic: {}", hcommon::last_panic()) } else { "cancelled".into() };
                    rep.violation(&format!("{which}:panic"), json!({"variant": var.name, "problem": msg}), json!({"variant": var.name, "seed": seed, "behaviour": beh}));
                }
            }
        }
        if bi < 2 {
            let steps = beh["steps"].as_array().unwrap();
            rep.sample(json!(steps.iter().take(12).map(|s| json!({"tx": s["tx"], "res": s["res"]["class"]})).collect::<Vec<_>>()));
        }
    }
    let _ = std::fs::remove_dir_all(&root);
    rep.set("behaviours", json!(behs.len()));
    rep.set("appends", json!(stats.appends));
    rep.set("accepted", json!(stats.accepted));
    rep.set("rejects", json!(stats.rejects));
    rep.set("reopens", json!(stats.reopens));
    rep.set("scans", json!(stats.scans));
    rep.set("events_compared", json!(stats.events_compared));
    rep.set("lookups", json!(stats.lookups));
    rep.set("segments_created", json!(stats.segments));
    rep.set("variants", json!(vars.iter().map(|v| v.name).collect::<Vec<_>>()));
    for k in stats.rejects.keys() {
        rep.class(format!("reject:{k}"));
    }
    rep.class("accept");
    for v in &vars {
        rep.class(format!("variant:{}", v.name));
    }
}
