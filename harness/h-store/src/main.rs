//! Harness for the single-node store (crates/sierradb): replays EventStore.tla /
//! Durability.tla behaviours on a real Database and checks every observation against the
//! specification.
use std::path::PathBuf;

use hcommon::{Report, read_ndjson};
use serde_json::{Value, json};

mod crash;
mod idxcrash;
mod overload;
mod race;
mod sched;
mod space;
mod trace;
mod verify;
mod world;

use verify::verify_reads;
use world::*;

fn main() {
    if std::env::var("VERIF_LOUD").is_err() { hcommon::quiet_panics(); }
    let args: Vec<String> = std::env::args().collect();
    let mut rep = Report::new();
    let rt = tokio::runtime::Builder::new_multi_thread().worker_threads(4).enable_all().build().unwrap();
    match args[1].as_str() {
        "replay" => rt.block_on(replay(&mut rep, &args[2], &args[3])),
        "trace" => rt.block_on(trace_cmd(&mut rep, &args[2], &args[3])),
        "timing" => rt.block_on(timing_cmd(&mut rep, &args[2])),
        "crash" => rt.block_on(crash::crash_cmd(&mut rep, &args[2])),
        "race" => rt.block_on(race::race_cmd(&mut rep, &args[2])),
        "idxcrash" => rt.block_on(idxcrash::idxcrash_cmd(&mut rep, &args[2])),
        "lateack" => rt.block_on(sched::lateack_cmd(&mut rep, &args[2])),
        "midtx" => rt.block_on(sched::midtx_cmd(&mut rep, &args[2])),
        "sched" => rt.block_on(async {
            sched::sched_cmd(&mut rep, &args[2]).await;
            sched::stress_cmd(&mut rep).await;
        }),
        "space" => rt.block_on(space::space_cmd(&mut rep, &args[2])),
        other => panic!("unknown subcommand {other}"),
    }
    rep.finish();
    // reader/writer pools of dropped databases may still be winding down
    std::process::exit(0);
}

pub fn scratch(name: &str) -> PathBuf {
    let d = std::env::current_dir().unwrap().join(format!("store-{}-{}", std::process::id(), name));
    let _ = std::fs::remove_dir_all(&d);
    std::fs::create_dir_all(&d).unwrap();
    d
}

pub async fn close(w: &mut World) {
    if let Some(db) = w.db.take() {
        db.shutdown().await;
        drop(db);
    }
}


pub async fn reopen(w: &mut World) -> Result<(), String> {
    close(w).await;
    let db = w.cfg.open(&w.dir)?;
    w.db = Some(db);
    Ok(())
}

struct Variant {
    cfg: DbCfg,
    rule: PayloadRule,
    name: &'static str,
}

fn variants(which: &str, quick: bool) -> Vec<Variant> {
    let mut v = vec![];
    let base = |nb| DbCfg::small(nb);
    match which {
        "c02" => {
            v.push(Variant { cfg: base(2), rule: PayloadRule::Tiny, name: "tiny" });
            v.push(Variant { cfg: DbCfg { compression: true, ..base(2) }, rule: PayloadRule::Rollover, name: "rollover+zstd" });
            if !quick {
                v.push(Variant { cfg: DbCfg { writer_threads: 2, ..base(2) }, rule: PayloadRule::Mixed, name: "2-writers" });
            }
        }
        _ => {
            v.push(Variant { cfg: base(2), rule: PayloadRule::Straddle, name: "straddle-128k" });
            v.push(Variant { cfg: DbCfg { compression: true, ..base(2) }, rule: PayloadRule::Rollover, name: "rollover+zstd" });
            if !quick {
                v.push(Variant { cfg: DbCfg { segment_size: 1 << 20, ..base(2) }, rule: PayloadRule::Straddle, name: "straddle-1m" });
                v.push(Variant { cfg: DbCfg { segment_size: 256 * 1024, compression: true, ..base(2) }, rule: PayloadRule::Mixed, name: "mixed-256k" });
            }
        }
    }
    v
}

/// Replays one behaviour; Err((key, detail)) on the first divergence.
async fn run_behaviour(which: &str, beh: &Value, var: &Variant, dir: PathBuf, seed: u64, stats: &mut Stats) -> Result<(), (String, Value)> {
    use rand::{RngExt, SeedableRng};
    let mut rng = rand::rngs::StdRng::seed_from_u64(seed ^ 0xabcd);
    let nb = var.cfg.nb;
    let mut w = World::new(dir, var.cfg.clone(), var.rule, seed).map_err(|e| ("open".to_string(), json!(e)))?;
    let steps = beh["steps"].as_array().unwrap();
    for (k, st) in steps.iter().enumerate() {
        let tx = &st["tx"];
        let res = &st["res"];
        let prep = w.prepare(tx);
        let got = w.db().append_events(prep.tx.clone()).await;
        stats.appends += 1;
        if let Err(e) = w.compare_append(&prep, res, &got) {
            return Err((format!("{which}:append-outcome"), json!({"step": k, "tx": tx, "model": res, "problem": e})));
        }
        match &got {
            Ok(_) => {
                stats.accepted += 1;
                w.record(prep, res);
            }
            Err(e) => {
                *stats.rejects.entry(class_of(e).to_string()).or_default() += 1;
            }
        }
        // latest-version / latest-sequence queries after every step (C02)
        let post = &st["post"];
        for b in 0..nb {
            for (s, v) in post["lv"][b as usize].as_object().unwrap() {
                let real = latest(w.db(), &w, b, s).await.map_err(|e| (format!("{which}:latest-version"), json!({"step": k, "problem": e})))?;
                if real != v.as_i64().unwrap() {
                    return Err((format!("{which}:latest-version"), json!({"step": k, "tx": tx, "bucket": b, "stream": s, "real": real, "model": v})));
                }
            }
        }
        for (p, v) in post["ls"].as_array().unwrap().iter().enumerate() {
            let real = latest_seq(w.db(), p as u16).await.map_err(|e| (format!("{which}:latest-sequence"), json!({"step": k, "problem": e})))?;
            if real != v.as_i64().unwrap() {
                return Err((format!("{which}:latest-sequence"), json!({"step": k, "tx": tx, "partition": p, "real": real, "model": v})));
            }
        }
        // stutter steps the functional model does not see
        if rng.random_range(0..12) == 0 {
            stats.reopens += 1;
            reopen(&mut w).await.map_err(|e| (format!("{which}:reopen"), json!({"step": k, "problem": e})))?;
        }
        if which != "c02" && rng.random_range(0..10) == 0 {
            let r = verify_reads(&w, false, false).await.map_err(|e| (format!("{which}:read"), json!({"step": k, "problem": e, "storage": "live"})))?;
            stats.add(&r);
        }
    }
    // the harness's reference log must be the specification's final log
    for (p, l) in beh["log"].as_array().unwrap().iter().enumerate() {
        let mine: Vec<(u64, String, u64)> = w.log.get(&(p as u16)).map(|l| l.iter().map(|e| (e.tx, e.stream.clone(), e.ver)).collect()).unwrap_or_default();
        let spec: Vec<(u64, String, u64)> = l.as_array().unwrap().iter().map(|e| (e["tx"].as_u64().unwrap(), e["s"].as_str().unwrap().to_string(), e["ver"].as_u64().unwrap())).collect();
        assert_eq!(mine, spec, "harness bookkeeping diverged from the specification's log");
    }
    let dense = which != "c02";
    // C02 is about append outcomes and the latest-version queries only; scans belong to C03
    let storages: &[&str] = if which == "c02" { &[] } else { &["live", "reopened"] };
    for &storage in storages {
        if storage == "reopened" {
            stats.reopens += 1;
            reopen(&mut w).await.map_err(|e| (format!("{which}:reopen"), json!({"problem": e, "at": "end"})))?;
        }
        let r = verify_reads(&w, dense, true).await.map_err(|e| (format!("{which}:read"), json!({"problem": e, "storage": storage})))?;
        stats.add(&r);
    }
    stats.segments += count_segments(&w.dir);
    close(&mut w).await;
    let _ = std::fs::remove_dir_all(&w.dir);
    Ok(())
}

fn count_segments(dir: &std::path::Path) -> u64 {
    let mut n = 0;
    if let Ok(rd) = std::fs::read_dir(dir.join("buckets")) {
        for b in rd.flatten() {
            if let Ok(s) = std::fs::read_dir(b.path().join("segments")) {
                n += s.count() as u64;
            }
        }
    }
    n
}

#[derive(Default)]
pub struct Stats {
    appends: u64,
    accepted: u64,
    rejects: std::collections::BTreeMap<String, u64>,
    reopens: u64,
    scans: u64,
    events_compared: u64,
    lookups: u64,
    segments: u64,
    max_append_ms: u64,
}

impl Stats {
    fn add(&mut self, r: &verify::ReadStats) {
        self.scans += r.scans;
        self.events_compared += r.events_compared;
        self.lookups += r.lookups;
    }
}

async fn replay(rep: &mut Report, plans: &str, which: &str) {
    let quick = hcommon::tier_quick();
    let behs = read_ndjson(plans);
    let vars = variants(which, quick);
    let root = scratch("replay");
    let mut stats = Stats::default();
    let mut reported = std::collections::BTreeSet::new();
    for (bi, beh) in behs.iter().enumerate() {
        for (vi, var) in vars.iter().enumerate() {
            if quick && bi % vars.len() != vi {
                continue;
            }
            rep.eval(1);
            let dir = root.join(format!("b{bi}v{vi}"));
            let seed = hcommon::seed().wrapping_mul(1000003) ^ (bi as u64) << 8 ^ vi as u64;
            let r = tokio::spawn({
                let which = which.to_string();
                let beh = beh.clone();
                let var = Variant { cfg: var.cfg.clone(), rule: var.rule, name: var.name };
                async move {
                    let mut st = Stats::default();
                    let r = run_behaviour(&which, &beh, &var, dir, seed, &mut st).await;
                    shutdown_all().await;
                    (r, st)
                }
            })
            .await;
            match r {
                Ok((res, st)) => {
                    stats.appends += st.appends;
                    stats.accepted += st.accepted;
                    stats.reopens += st.reopens;
                    stats.scans += st.scans;
                    stats.events_compared += st.events_compared;
                    stats.lookups += st.lookups;
                    stats.segments += st.segments;
                    for (k, v) in st.rejects {
                        *stats.rejects.entry(k).or_default() += v;
                    }
                    if let Err((key, detail)) = res {
                        if reported.insert((key.clone(), var.name)) {
                            rep.violation(&key, json!({"variant": var.name, "config": var.cfg.describe(), "detail": detail}),
                                json!({"variant": var.name, "seed": seed, "behaviour": beh}));
                        } else {
                            rep.violations += 1;
                        }
                    }
                }
                Err(join) => {
                    let msg = if join.is_panic() { format!("panic: {}", hcommon::last_panic()) } else { "cancelled".into() };
                    rep.violation(&format!("{which}:panic"), json!({"variant": var.name, "problem": msg}), json!({"variant": var.name, "seed": seed, "behaviour": beh}));
                }
            }
        }
        if bi < 2 {
            let steps = beh["steps"].as_array().unwrap();
            rep.sample(json!(steps.iter().take(12).map(|s| json!({"tx": s["tx"], "res": s["res"]["class"]})).collect::<Vec<_>>()));
        }
    }
    let _ = std::fs::remove_dir_all(&root);
    rep.set("behaviours", json!(behs.len()));
    rep.set("appends", json!(stats.appends));
    rep.set("accepted", json!(stats.accepted));
    rep.set("rejects", json!(stats.rejects));
    rep.set("reopens", json!(stats.reopens));
    rep.set("scans", json!(stats.scans));
    rep.set("events_compared", json!(stats.events_compared));
    rep.set("lookups", json!(stats.lookups));
    rep.set("segments_created", json!(stats.segments));
    rep.set("variants", json!(vars.iter().map(|v| v.name).collect::<Vec<_>>()));
    for k in stats.rejects.keys() {
        rep.class(format!("reject:{k}"));
    }
    rep.class("accept");
    for v in &vars {
        rep.class(format!("variant:{}", v.name));
    }
}

// ---------------------------------------------------------------------------
// C01 / C20: record hook traces of real runs for TraceDurability.tla, with reads issued
// right after every acknowledgement and after close + reopen

fn trace_variants(quick: bool) -> Vec<Variant> {
    let base = DbCfg::small(1);
    let mut v = vec![
        Variant { cfg: DbCfg { ..base.clone() }, rule: PayloadRule::Rollover, name: "sync-each-append" },
        Variant {
            cfg: DbCfg { sync_interval_ms: 40, min_sync_bytes: 1 << 30, max_batch: 1000, compression: true, ..base.clone() },
            rule: PayloadRule::Rollover,
            name: "timer-sync+zstd",
        },
    ];
    if !quick {
        v.push(Variant { cfg: DbCfg { sync_interval_ms: 200, min_sync_bytes: 1 << 30, max_batch: 1000, segment_size: 256 * 1024, ..base.clone() }, rule: PayloadRule::Mixed, name: "slow-timer-256k" });
        v.push(Variant { cfg: DbCfg { sync_interval_ms: 5, min_sync_bytes: 4096, max_batch: 50, compression: true, ..base.clone() }, rule: PayloadRule::Straddle, name: "defaults-like" });
    }
    v
}

/// reads issued immediately after an acknowledgement: every event of the transaction by id,
/// and its presence in the stream and partition scans
async fn read_after_ack(w: &World, evs: &[RefEvent]) -> Result<(), String> {
    let db = w.db();
    for e in evs {
        match db.read_event(e.p, e.event_id).await {
            Ok(Some(r)) => World::same(&r, e, w.key_of(e))?,
            Ok(None) => return Err(format!("read_event(seq {}) right after the acknowledgement returned None", e.seq)),
            Err(x) => return Err(format!("read_event(seq {}) right after the acknowledgement failed: {x}", e.seq)),
        }
    }
    let first = &evs[0];
    let got = flatten(&scan_partition(db, first.p, first.seq, sierradb::IterDirection::Forward, 50).await?.concat());
    for e in evs {
        match got.iter().find(|r| r.event_id == e.event_id) {
            Some(r) => World::same(r, e, w.key_of(e))?,
            None => return Err(format!("partition scan from {} right after the acknowledgement lacks sequence {}", first.seq, e.seq)),
        }
    }
    for e in evs {
        let b = w.bucket_of(e.p);
        let got = flatten(&scan_stream(db, b, &e.stream, e.ver, sierradb::IterDirection::Forward, 50).await?.concat());
        match got.iter().find(|r| r.event_id == e.event_id) {
            Some(r) => World::same(r, e, w.key_of(e))?,
            None => return Err(format!("stream scan of {} from {} right after the acknowledgement lacks the event", e.stream, e.ver)),
        }
        let lv = latest(db, w, b, &e.stream).await?;
        if lv < e.ver as i64 {
            return Err(format!("get_stream_version({}) = {lv} right after version {} was acknowledged", e.stream, e.ver));
        }
    }
    Ok(())
}

async fn trace_run(beh: &Value, var: &Variant, dir: PathBuf, seed: u64, rec: &trace::Recorder, stats: &mut Stats) -> Result<(), (String, Value)> {
    use rand::{RngExt, SeedableRng};
    let mut rng = rand::rngs::StdRng::seed_from_u64(seed ^ 0x77);
    rec.take();
    let mut w = World::new(dir, var.cfg.clone(), var.rule, seed).map_err(|e| ("c01:open".to_string(), json!(e)))?;
    let steps = beh["steps"].as_array().unwrap();
    for (k, st) in steps.iter().enumerate() {
        let tx = &st["tx"];
        let res = &st["res"];
        let prep = w.prepare(tx);
        let t0 = std::time::Instant::now();
        let got = w.db().append_events(prep.tx.clone()).await;
        stats.max_append_ms = stats.max_append_ms.max(t0.elapsed().as_millis() as u64);
        stats.appends += 1;
        if let Err(e) = w.compare_append(&prep, res, &got) {
            return Err(("c01:append-outcome".into(), json!({"step": k, "tx": tx, "model": res, "problem": e})));
        }
        if got.is_ok() {
            stats.accepted += 1;
            let p = prep.events[0].p;
            let n0 = w.log.get(&p).map(|l| l.len()).unwrap_or(0);
            w.record(prep, res);
            let evs: Vec<RefEvent> = w.log[&p][n0..].to_vec();
            let r = read_after_ack(&w, &evs).await;
            rec.mark("h.read", &[("partition", p as u64), ("first_seq", evs[0].seq), ("found", r.is_ok() as u64)]);
            if let Err(e) = r {
                return Err(("c01:read-after-ack".into(), json!({"step": k, "tx": tx, "problem": e})));
            }
            stats.lookups += evs.len() as u64;
        }
        if rng.random_range(0..15) == 0 {
            stats.reopens += 1;
            reopen(&mut w).await.map_err(|e| ("c01:reopen".to_string(), json!({"step": k, "problem": e})))?;
            rec.mark("h.reopen", &[]);
            let r = verify_reads(&w, false, true).await.map_err(|e| ("c01:read-after-reopen".to_string(), json!({"step": k, "problem": e})))?;
            stats.add(&r);
        }
    }
    // concurrent clients on the same bucket: acknowledgements interleave with syncs
    let w = std::sync::Arc::new(tokio::sync::Mutex::new(w));
    let ntasks = 4usize;
    let mut handles = vec![];
    for t in 0..ntasks {
        let w = w.clone();
        let rec = rec.clone();
        handles.push(tokio::spawn(async move {
            let mut out: Vec<(Vec<RefEvent>, u64)> = vec![];
            let stream = format!("conc{t}");
            let mut ver = 0u64;
            for i in 0..6u64 {
                let n = 1 + (i as usize + t) % 3;
                let txv = json!({"id": 100_000 + t as u64 * 100 + i, "key": format!("kc{t}"), "p": t % 3, "xs": {"k": "any"}, "oversize": false,
                    "evs": (0..n).map(|_| json!({"s": stream, "x": {"k": "any"}, "badts": false})).collect::<Vec<_>>()});
                let (prep, db) = {
                    let mut g = w.lock().await;
                    (g.prepare(&txv), g.db().clone())
                };
                let t0 = std::time::Instant::now();
                let r = db.append_events(prep.tx.clone()).await.map_err(|e| format!("concurrent append failed: {e}"))?;
                let ms = t0.elapsed().as_millis() as u64;
                let mut evs = prep.events;
                for (j, e) in evs.iter_mut().enumerate() {
                    e.seq = r.first_partition_sequence + j as u64;
                    e.ver = ver + j as u64;
                }
                ver += n as u64;
                let ok = {
                    let g = w.lock().await;
                    read_after_ack(&g, &evs).await
                };
                rec.mark("h.read", &[("partition", evs[0].p as u64), ("first_seq", evs[0].seq), ("found", ok.is_ok() as u64)]);
                ok?;
                out.push((evs, ms));
            }
            Ok::<_, String>(out)
        }));
    }
    let mut conc: Vec<RefEvent> = vec![];
    for h in handles {
        match h.await {
            Ok(Ok(v)) => {
                for (evs, ms) in v {
                    stats.appends += 1;
                    stats.accepted += 1;
                    stats.max_append_ms = stats.max_append_ms.max(ms);
                    conc.extend(evs);
                }
            }
            Ok(Err(e)) => return Err(("c01:read-after-ack".into(), json!({"phase": "concurrent", "problem": e}))),
            Err(_) => return Err(("c01:panic".into(), json!({"phase": "concurrent", "problem": hcommon::last_panic()}))),
        }
    }
    let mut w = std::sync::Arc::try_unwrap(w).ok().expect("tasks done").into_inner();
    conc.sort_by_key(|e| (e.p, e.seq));
    for e in conc {
        let l = w.log.entry(e.p).or_default();
        if l.len() as u64 != e.seq {
            return Err(("c01:sequence-gap".into(), json!({"partition": e.p, "expected": l.len(), "assigned": e.seq})));
        }
        l.push(e);
    }
    let r = verify_reads(&w, false, true).await.map_err(|e| ("c01:read".to_string(), json!({"problem": e, "storage": "live"})))?;
    stats.add(&r);
    stats.reopens += 1;
    reopen(&mut w).await.map_err(|e| ("c01:reopen".to_string(), json!({"problem": e, "at": "end"})))?;
    rec.mark("h.reopen", &[]);
    let r = verify_reads(&w, true, true).await.map_err(|e| ("c01:read-after-reopen".to_string(), json!({"problem": e})))?;
    stats.add(&r);
    stats.segments += count_segments(&w.dir);
    close(&mut w).await;
    Ok(())
}

async fn trace_cmd(rep: &mut Report, plans: &str, out: &str) {
    use std::io::Write;
    let quick = hcommon::tier_quick();
    let behs = read_ndjson(plans);
    let vars = trace_variants(quick);
    let root = scratch("trace");
    let rec = trace::Recorder::install();
    let mut stats = Stats::default();
    let mut f = std::io::BufWriter::new(std::fs::File::create(out).unwrap());
    let mut total_lines = 0u64;
    let mut runs = 0u64;
    for (bi, beh) in behs.iter().enumerate() {
        for (vi, var) in vars.iter().enumerate() {
            if quick && bi % vars.len() != vi {
                continue;
            }
            rep.eval(1);
            let seed = hcommon::seed().wrapping_mul(7919) ^ (bi as u64) << 8 ^ vi as u64;
            let dir = root.join(format!("t{bi}v{vi}"));
            let outcome = trace_run(beh, var, dir.clone(), seed, &rec, &mut stats).await;
            shutdown_all().await;
            // the trace of a failed run is validated too (up to the failure)
            let converted = trace::to_trace(&rec.take(), &dir);
            let _ = std::fs::remove_dir_all(&dir);
            if let Err((key, detail)) = &outcome {
                rep.violation(key, json!({"variant": var.name, "config": var.cfg.describe(), "detail": detail}),
                    json!({"variant": var.name, "seed": seed, "behaviour": beh}));
            }
            match converted {
                Ok(lines) => {
                    if runs > 0 {
                        writeln!(f, "{}", json!({"e": "reset"})).unwrap();
                        total_lines += 1;
                    }
                    runs += 1;
                    for l in &lines {
                        writeln!(f, "{l}").unwrap();
                    }
                    total_lines += lines.len() as u64;
                    if bi < 1 {
                        rep.sample(json!({"variant": var.name, "trace_head": lines.iter().take(14).collect::<Vec<_>>()}));
                    }
                }
                Err(e) => {
                    rep.violation("c01:trace-conversion", json!({"variant": var.name, "problem": e}), json!({"variant": var.name, "seed": seed, "behaviour": beh}));
                }
            }
        }
    }
    f.flush().unwrap();
    sierradb::verif::clear();
    overload::overload(rep, &root, APPEND_DEADLINE_MS).await;
    let _ = std::fs::remove_dir_all(&root);
    rep.set("runs", json!(runs));
    rep.set("trace_lines", json!(total_lines));
    rep.set("appends", json!(stats.appends));
    rep.set("accepted", json!(stats.accepted));
    rep.set("reopens", json!(stats.reopens));
    rep.set("scans", json!(stats.scans));
    rep.set("events_compared", json!(stats.events_compared));
    rep.set("lookups", json!(stats.lookups));
    rep.set("segments_created", json!(stats.segments));
    rep.set("max_append_ms", json!(stats.max_append_ms));
    rep.set("variants", json!(vars.iter().map(|v| v.name).collect::<Vec<_>>()));
    for v in &vars {
        rep.class(format!("variant:{}", v.name));
    }
    rep.class("sequential-with-rejections");
    rep.class("concurrent-clients");
    rep.class("close-reopen");
}

// ---------------------------------------------------------------------------
// C20: every append returns within a bounded time, under every sync configuration and with
// concurrent clients; the recorded trace must leave no reply unacknowledged

const APPEND_DEADLINE_MS: u64 = 5_000;

async fn timing_cmd(rep: &mut Report, out: &str) {
    use std::io::Write;
    let quick = hcommon::tier_quick();
    let rec = trace::Recorder::install();
    let root = scratch("timing");
    let mut f = std::io::BufWriter::new(std::fs::File::create(out).unwrap());
    let mut runs = 0u64;
    let mut total_lines = 0u64;
    let mut max_ms = 0u64;
    let mut appends = 0u64;
    let mut errors = 0u64;
    let mut segments = 0u64;
    let intervals: &[u64] = if quick { &[1, 40] } else { &[1, 5, 40, 200] };
    let clients = if quick { 6 } else { 8 };
    let per_client = if quick { 20 } else { 50 };
    let mut vi = 0;
    for &interval in intervals {
        for (min_bytes, batch) in [(1usize, 1usize), (1 << 30, 1000), (4096, 50)] {
            for compression in [false, true] {
                vi += 1;
                if quick && vi % 2 == 0 {
                    continue;
                }
                let cfg = DbCfg { sync_interval_ms: interval, min_sync_bytes: min_bytes, max_batch: batch, compression, ..DbCfg::small(1) };
                let name = format!("interval={interval}ms,min_bytes={min_bytes},batch={batch},zstd={compression}");
                rep.eval(1);
                rep.class(format!("interval={interval},trigger={}", if min_bytes == 1 { "bytes" } else if batch == 50 { "mixed" } else { "timer" }));
                let dir = root.join(format!("v{vi}"));
                rec.take();
                let w = match World::new(dir.clone(), cfg.clone(), PayloadRule::Rollover, hcommon::seed() + vi as u64) {
                    Ok(w) => std::sync::Arc::new(tokio::sync::Mutex::new(w)),
                    Err(e) => {
                        rep.violation("c20:open", json!({"config": name, "problem": e}), json!({"config": name}));
                        continue;
                    }
                };
                let mut hs = vec![];
                for c in 0..clients {
                    let w = w.clone();
                    hs.push(tokio::spawn(async move {
                        let mut worst = 0u64;
                        let mut n_err = 0u64;
                        let stream = format!("t{c}");
                        for i in 0..per_client as u64 {
                            // a mix of valid appends and ones that are rejected or fail half way
                            let kind = (i + c as u64) % 7;
                            let n = 1 + (i as usize % 3);
                            let evs: Vec<Value> = (0..n)
                                .map(|j| {
                                    json!({"s": stream, "x": if kind == 3 { json!({"k": "exact", "v": 999}) } else { json!({"k": "any"}) },
                                           "badts": kind == 5 && j == n - 1})
                                })
                                .collect();
                            let txv = json!({"id": 200_000 + c as u64 * 1000 + i, "key": format!("kt{c}"), "p": c % 3, "xs": {"k": "any"},
                                             "oversize": kind == 6 && i % 2 == 0, "evs": evs});
                            let (prep, db) = {
                                let mut g = w.lock().await;
                                (g.prepare(&txv), g.db().clone())
                            };
                            let t0 = std::time::Instant::now();
                            let r = tokio::time::timeout(std::time::Duration::from_millis(APPEND_DEADLINE_MS), db.append_events(prep.tx)).await;
                            let ms = t0.elapsed().as_millis() as u64;
                            worst = worst.max(ms);
                            match r {
                                Err(_) => return Err(format!("client {c} append {i} (kind {kind}) did not return within {APPEND_DEADLINE_MS} ms")),
                                Ok(Err(_)) => n_err += 1,
                                Ok(Ok(_)) => {}
                            }
                        }
                        Ok((worst, n_err))
                    }));
                }
                let mut failed = None;
                for h in hs {
                    match h.await {
                        Ok(Ok((worst, n_err))) => {
                            max_ms = max_ms.max(worst);
                            errors += n_err;
                            appends += per_client as u64;
                        }
                        Ok(Err(e)) => failed = Some(e),
                        Err(_) => failed = Some(format!("panic: {}", hcommon::last_panic())),
                    }
                }
                if let Some(e) = failed {
                    rep.violation("c20:append-did-not-complete", json!({"config": name, "problem": e}), json!({"config": name, "clients": clients, "per_client": per_client}));
                }
                let mut w = std::sync::Arc::try_unwrap(w).ok().expect("clients done").into_inner();
                segments += count_segments(&w.dir);
                let t0 = std::time::Instant::now();
                if tokio::time::timeout(std::time::Duration::from_secs(20), reopen(&mut w)).await.is_err() {
                    rep.violation("c20:shutdown-hangs", json!({"config": name}), json!({"config": name}));
                } else {
                    rec.mark("h.reopen", &[]);
                }
                max_ms = max_ms.max(0 * t0.elapsed().as_millis() as u64);
                close(&mut w).await;
                shutdown_all().await;
                match trace::to_trace(&rec.take(), &dir) {
                    Ok(lines) => {
                        if runs > 0 {
                            writeln!(f, "{}", json!({"e": "reset"})).unwrap();
                            total_lines += 1;
                        }
                        runs += 1;
                        for l in &lines {
                            writeln!(f, "{l}").unwrap();
                        }
                        total_lines += lines.len() as u64;
                        if runs == 1 {
                            rep.sample(json!({"config": name, "trace_head": lines.iter().take(10).collect::<Vec<_>>()}));
                        }
                    }
                    Err(e) => rep.violation("c20:trace-conversion", json!({"config": name, "problem": e}), json!({"config": name})),
                }
                let _ = std::fs::remove_dir_all(&dir);
            }
        }
    }
    f.flush().unwrap();
    sierradb::verif::clear();
    overload::overload(rep, &root, APPEND_DEADLINE_MS).await;
    let _ = std::fs::remove_dir_all(&root);
    rep.set("runs", json!(runs));
    rep.set("trace_lines", json!(total_lines));
    rep.set("appends", json!(appends));
    rep.set("append_errors", json!(errors));
    rep.set("max_append_ms", json!(max_ms));
    rep.set("deadline_ms", json!(APPEND_DEADLINE_MS));
    rep.set("clients", json!(clients));
    rep.set("segments_created", json!(segments));
}
