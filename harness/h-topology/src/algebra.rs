//! C25 (expected-version algebra) and C23 (identifier layout) against the TLC tables of
//! Versions.tla / Ids.tla, plus the properties evaluated directly on large domains.
use hcommon::{Report, catch, read_ndjson};
use rand::{RngExt, SeedableRng};
use serde_json::{Value, json};
use sierradb::id::*;
use sierradb_protocol::{CurrentVersion, ExpectedVersion, VersionGap};
use uuid::Uuid;

const UMAX_MODEL: u64 = 1000;

fn rep_to_u64(v: u64) -> u64 {
    if v > UMAX_MODEL / 2 { u64::MAX - (UMAX_MODEL - v) } else { v }
}

fn exp_of(v: &Value) -> ExpectedVersion {
    match v["k"].as_str().unwrap() {
        "any" => ExpectedVersion::Any,
        "exists" => ExpectedVersion::Exists,
        "empty" => ExpectedVersion::Empty,
        "exact" => ExpectedVersion::Exact(rep_to_u64(v["v"].as_u64().unwrap())),
        k => panic!("bad exp kind {k}"),
    }
}

fn cur_of(v: &Value) -> CurrentVersion {
    match v["k"].as_str().unwrap() {
        "empty" => CurrentVersion::Empty,
        "current" => CurrentVersion::Current(rep_to_u64(v["v"].as_u64().unwrap())),
        k => panic!("bad cur kind {k}"),
    }
}

fn gap_of(v: &Value) -> VersionGap {
    match v["g"].as_str().unwrap() {
        "none" => VersionGap::None,
        "incompatible" => VersionGap::Incompatible,
        "ahead" => VersionGap::Ahead(rep_to_u64(v["d"].as_u64().unwrap())),
        "behind" => VersionGap::Behind(rep_to_u64(v["d"].as_u64().unwrap())),
        k => panic!("bad gap kind {k}"),
    }
}

/// Rust mirror of Versions!Gap with UMax = u64::MAX (u128 arithmetic, saturating)
fn gap_model(exp: ExpectedVersion, cur: CurrentVersion) -> VersionGap {
    let pos = |c: CurrentVersion| -> i128 {
        match c {
            CurrentVersion::Empty => -1,
            CurrentVersion::Current(v) => v as i128,
        }
    };
    let sat = |x: i128| -> u64 { if x > u64::MAX as i128 { u64::MAX } else { x as u64 } };
    match exp {
        ExpectedVersion::Any => VersionGap::None,
        ExpectedVersion::Exists => {
            if cur == CurrentVersion::Empty { VersionGap::Incompatible } else { VersionGap::None }
        }
        ExpectedVersion::Empty => {
            if cur == CurrentVersion::Empty { VersionGap::None } else { VersionGap::Ahead(sat(pos(cur) + 1)) }
        }
        ExpectedVersion::Exact(e) => {
            let d = pos(cur) - e as i128;
            if d == 0 {
                VersionGap::None
            } else if d > 0 {
                VersionGap::Ahead(sat(d))
            } else {
                VersionGap::Behind(sat(-d))
            }
        }
    }
}

fn sat_model(exp: ExpectedVersion, cur: CurrentVersion) -> bool {
    match (exp, cur) {
        (ExpectedVersion::Any, _) => true,
        (ExpectedVersion::Exists, c) => c != CurrentVersion::Empty,
        (ExpectedVersion::Empty, c) => c == CurrentVersion::Empty,
        (ExpectedVersion::Exact(e), CurrentVersion::Current(c)) => e == c,
        (ExpectedVersion::Exact(_), CurrentVersion::Empty) => false,
    }
}

fn check_pair(rep: &mut Report, exp: ExpectedVersion, cur: CurrentVersion, want_gap: VersionGap, want_sat: bool, src: &str) {
    rep.eval(1);
    let got = catch(move || (exp.gap_from(cur), exp.is_satisfied_by(cur)));
    let boundary = matches!(exp, ExpectedVersion::Exact(u64::MAX)) || matches!(cur, CurrentVersion::Current(u64::MAX));
    match got {
        Ok((g, s)) if g == want_gap && s == want_sat => {}
        Ok((g, s)) => rep.violation(
            &format!("c25:gap-wrong:{}", if boundary { "u64-max" } else { "interior" }),
            json!({"exp": format!("{exp:?}"), "cur": format!("{cur:?}"), "real_gap": format!("{g:?}"), "real_satisfied": s,
                   "want_gap": format!("{want_gap:?}"), "want_satisfied": want_sat, "source": src}),
            json!({"exp": format!("{exp:?}"), "cur": format!("{cur:?}")}),
        ),
        Err(e) => rep.violation(
            &format!("c25:gap-panic:{}", if boundary { "u64-max" } else { "interior" }),
            json!({"exp": format!("{exp:?}"), "cur": format!("{cur:?}"), "panic": e, "source": src}),
            json!({"exp": format!("{exp:?}"), "cur": format!("{cur:?}")}),
        ),
    }
}

fn roundtrips(rep: &mut Report, exp: ExpectedVersion, cur: CurrentVersion) {
    // Display / FromStr
    rep.eval(1);
    let r = catch(move || {
        let e2: ExpectedVersion = exp.to_string().parse().map_err(|e| format!("{e:?}"))?;
        let c2: CurrentVersion = cur.to_string().parse().map_err(|e| format!("{e:?}"))?;
        if e2 != exp || c2 != cur {
            return Err(format!("parsed back {e2:?} / {c2:?}"));
        }
        // from_next_version / into_next_version on their domains
        match exp {
            ExpectedVersion::Empty => {
                if exp.into_next_version() != Some(0) || ExpectedVersion::from_next_version(0) != exp {
                    return Err("empty <-> next version 0".into());
                }
            }
            ExpectedVersion::Exact(v) => match exp.into_next_version() {
                Some(n) => {
                    if v == u64::MAX || n != v + 1 || ExpectedVersion::from_next_version(n) != exp {
                        return Err(format!("into_next_version gave {n}"));
                    }
                }
                None => {
                    if v != u64::MAX {
                        return Err("into_next_version None below u64::MAX".into());
                    }
                }
            },
            _ => {}
        }
        if let CurrentVersion::Current(v) = cur {
            let f = ExpectedVersion::from_next_version(v);
            if f.into_next_version() != Some(v) {
                return Err(format!("from_next_version({v}) = {f:?} does not invert"));
            }
        }
        if !cur.as_expected_version().is_satisfied_by(cur) {
            return Err("as_expected_version not satisfied by itself".into());
        }
        Ok(())
    });
    let flat = match r {
        Ok(Ok(())) => return,
        Ok(Err(e)) => e,
        Err(p) => format!("panic: {p}"),
    };
    rep.violation(
        "c25:round-trip",
        json!({"exp": format!("{exp:?}"), "cur": format!("{cur:?}"), "problem": flat}),
        json!({"exp": format!("{exp:?}"), "cur": format!("{cur:?}")}),
    );
}

pub fn versions(rep: &mut Report, tables: &str) {
    let quick = hcommon::tier_quick();
    let mut rows = 0;
    for t in read_ndjson(tables) {
        let (exp, cur) = (exp_of(&t["exp"]), cur_of(&t["cur"]));
        let (g, s) = (gap_of(&t["gap"]), t["sat"].as_bool().unwrap());
        assert_eq!(gap_model(exp, cur), g, "harness mirror disagrees with Versions!Gap for {exp:?} {cur:?}");
        assert_eq!(sat_model(exp, cur), s);
        check_pair(rep, exp, cur, g, s, "tlc-table");
        roundtrips(rep, exp, cur);
        rep.class(format!("{}x{}", t["exp"]["k"].as_str().unwrap(), t["cur"]["k"].as_str().unwrap()));
        if rows % 23 == 0 {
            rep.sample(json!({"exp": format!("{exp:?}"), "cur": format!("{cur:?}"), "gap": format!("{g:?}"), "satisfied": s}));
        }
        rows += 1;
    }
    rep.set("table_rows_compared", json!(rows));
    // wider boundary set and random pairs through the mirror
    let mut vals: Vec<u64> = vec![];
    for k in 0..6u64 {
        vals.push(k);
        vals.push(u64::MAX - k);
        vals.push((1u64 << 63) - 3 + k);
        vals.push((1u64 << 32) - 3 + k);
    }
    let mut rng = rand::rngs::StdRng::seed_from_u64(hcommon::seed());
    let nrand = if quick { 20_000 } else { 1_000_000 };
    let mut pairs: Vec<(ExpectedVersion, CurrentVersion)> = vec![];
    let mut exps = vec![ExpectedVersion::Any, ExpectedVersion::Exists, ExpectedVersion::Empty];
    exps.extend(vals.iter().map(|&v| ExpectedVersion::Exact(v)));
    let mut curs = vec![CurrentVersion::Empty];
    curs.extend(vals.iter().map(|&v| CurrentVersion::Current(v)));
    for &e in &exps {
        for &c in &curs {
            pairs.push((e, c));
        }
    }
    for _ in 0..nrand {
        let a: u64 = rng.random();
        let b: u64 = if rng.random_bool(0.3) { a.wrapping_add(rng.random_range(0..5)).wrapping_sub(2) } else { rng.random() };
        pairs.push((ExpectedVersion::Exact(a), CurrentVersion::Current(b)));
    }
    for (e, c) in pairs {
        check_pair(rep, e, c, gap_model(e, c), sat_model(e, c), "mirror");
        roundtrips(rep, e, c);
    }
}

// ---------------------------------------------------------------------------

fn bits_to_uuid(bits: &Value) -> Uuid {
    let mut x: u128 = 0;
    for b in bits.as_array().unwrap() {
        x = (x << 1) | b.as_u64().unwrap() as u128;
    }
    Uuid::from_bytes(x.to_be_bytes())
}

fn check_flag_fns(rep: &mut Report, u: Uuid, src: &str) {
    rep.eval(1);
    let x = u128::from_be_bytes(u.into_bytes());
    let bit63 = 1u128 << 63;
    for f in [true, false] {
        let v = set_uuid_flag(u, f);
        let y = u128::from_be_bytes(v.into_bytes());
        let want = if f { x | bit63 } else { x & !bit63 };
        if y != want || get_uuid_flag(&v) != f || uuid_to_partition_hash(v) != uuid_to_partition_hash(u) {
            rep.violation(
                "c23:flag-changes-other-bits",
                json!({"uuid": u.to_string(), "flag": f, "result": v.to_string(), "source": src}),
                json!({"uuid": u.to_string(), "flag": f}),
            );
            return;
        }
    }
    if get_uuid_flag(&u) != (x & bit63 != 0) {
        rep.violation("c23:get-flag", json!({"uuid": u.to_string()}), json!({"uuid": u.to_string()}));
    }
}

pub fn ids(rep: &mut Report, tables: &str) {
    let quick = hcommon::tier_quick();
    let mut rows = 0u64;
    for t in read_ndjson(tables) {
        let h = t["h"].as_u64().unwrap() as u16;
        for id in t["ids"].as_array().unwrap() {
            rows += 1;
            rep.eval(1);
            let u = bits_to_uuid(&id["bits"]);
            let (s, c) = (bits_to_uuid(&id["set"]), bits_to_uuid(&id["clr"]));
            let ok = uuid_to_partition_hash(u) == h
                && validate_event_id(u, h)
                && !validate_event_id(u, h ^ 1)
                && !validate_event_id(u, h ^ 0x8000)
                && set_uuid_flag(u, true) == s
                && set_uuid_flag(u, false) == c
                && get_uuid_flag(&s)
                && !get_uuid_flag(&c);
            if !ok {
                rep.violation(
                    "c23:spec-table",
                    json!({"h": h, "uuid": u.to_string(), "real_hash": uuid_to_partition_hash(u),
                           "real_set": set_uuid_flag(u, true).to_string(), "spec_set": s.to_string()}),
                    json!({"h": h, "uuid": u.to_string()}),
                );
            }
            if rows % 17 == 1 {
                rep.sample(json!({"h": h, "uuid": u.to_string(), "with_flag": s.to_string()}));
            }
        }
    }
    rep.set("table_rows_compared", json!(rows));
    // generated ids: all 2^16 hashes x draws
    let draws = if quick { 4 } else { 16 };
    for h in 0..=u16::MAX {
        for _ in 0..draws {
            rep.eval(1);
            let u = uuid_v7_with_partition_hash(h);
            let x = u128::from_be_bytes(u.into_bytes());
            let version = (x >> 64) & 0xF;
            let variant = (x >> 62) & 0x3;
            if uuid_to_partition_hash(u) != h || !validate_event_id(u, h) || version != 7 || variant != 2 {
                rep.violation(
                    "c23:generated-id",
                    json!({"h": h, "uuid": u.to_string(), "hash_back": uuid_to_partition_hash(u)}),
                    json!({"h": h}),
                );
                break;
            }
            check_flag_fns(rep, u, "generated");
        }
    }
    rep.class("generated ids for all 2^16 hashes");
    // flag functions: all single-bit patterns, complements, random
    for k in 0..128 {
        let x = 1u128 << k;
        check_flag_fns(rep, Uuid::from_bytes(x.to_be_bytes()), "single-bit");
        check_flag_fns(rep, Uuid::from_bytes((!x).to_be_bytes()), "single-bit-complement");
    }
    check_flag_fns(rep, Uuid::nil(), "nil");
    check_flag_fns(rep, Uuid::max(), "max");
    rep.class("single-bit patterns and complements");
    let mut rng = rand::rngs::StdRng::seed_from_u64(hcommon::seed() ^ 0x1d5);
    for _ in 0..(if quick { 50_000 } else { 1_000_000 }) {
        let x: u128 = rng.random();
        check_flag_fns(rep, Uuid::from_bytes(x.to_be_bytes()), "random");
    }
    rep.class("random uuids");
    // routing: event id, stream default key and explicit key agree on partition and bucket
    let pcounts: Vec<u16> = (1..=64).chain([100, 127, 128, 1000, 1024, 4096, 65535]).collect();
    let mut routed = 0u64;
    for i in 0..(if quick { 300 } else { 4000 }) {
        let stream = format!("stream-{i}-{}", rng.random::<u32>());
        let default_key = Uuid::new_v5(&NAMESPACE_PARTITION_KEY, stream.as_bytes());
        let explicit_key = Uuid::from_bytes(rng.random::<u128>().to_be_bytes());
        for key in [default_key, explicit_key] {
            let h = uuid_to_partition_hash(key);
            let eid = set_uuid_flag(uuid_v7_with_partition_hash(h), rng.random());
            for &p in &pcounts {
                let part_key = h % p;
                let part_event = uuid_to_partition_hash(eid) % p;
                routed += 1;
                let mut bad = part_key != part_event;
                for b in 1..=64u16 {
                    if partition_id_to_bucket(part_key, b) != part_event % b || partition_id_to_bucket(part_key, b) >= b {
                        bad = true;
                    }
                }
                if bad {
                    rep.violation(
                        "c23:routing",
                        json!({"key": key.to_string(), "event_id": eid.to_string(), "partitions": p}),
                        json!({"key": key.to_string(), "event_id": eid.to_string(), "partitions": p}),
                    );
                }
            }
        }
    }
    rep.eval(routed);
    rep.class("routing: key/event/partition/bucket");
    rep.set("exhaustive_over_hashes", json!(true));
}
