//! Harness for the pure-function and membership properties (C13, C14, C23, C24, C25).
//! Compares the real code with tables / behaviours produced by TLC from
//! spec/Topology.tla, Membership.tla, Versions.tla, Ids.tla and evaluates the
//! properties directly on the real outputs over (much) larger concrete domains.
use std::collections::{BTreeMap, BTreeSet, HashMap, HashSet};
use std::time::{Duration, Instant};

use hcommon::{Report, catch, read_ndjson};
use kameo::actor::ActorId;
use libp2p::PeerId;
use rayon::prelude::*;
use serde_json::{Value, json};
use sierradb::MAX_REPLICATION_FACTOR;
use sierradb_server::config::*;
use sierradb_topology::test_helpers::create_test_peer_id;
use sierradb_topology::{TopologyManager, distribute_partition};

mod algebra;

fn main() {
    hcommon::quiet_panics();
    let args: Vec<String> = std::env::args().collect();
    let mut rep = Report::new();
    match args[1].as_str() {
        "placement" => placement(&mut rep, &args[2], &args[3]),
        "distribute" => distribute(&mut rep, &args[2]),
        "membership" => membership(&mut rep, &args[2], &args[3..]),
        "versions" => algebra::versions(&mut rep, &args[2]),
        "ids" => algebra::ids(&mut rep, &args[2]),
        other => panic!("unknown subcommand {other}"),
    }
    rep.finish();
}

// ---------------------------------------------------------------------------
// real-code accessors

fn app_config(n: usize, i: usize, b: u16, p: u16, rf: u8) -> AppConfig {
    AppConfig {
        append: AppendConfig { strict_versioning: false },
        bucket: BucketConfig { count: b, ids: None },
        cache: CacheConfig { capacity_bytes: 1 << 20 },
        dir: "/nonexistent".into(),
        heartbeat: HeartbeatConfig { interval_ms: 1000, timeout_ms: 6000 },
        network: NetworkConfig {
            cluster_enabled: true,
            cluster_address: "/ip4/0.0.0.0/udp/0/quic-v1".parse().unwrap(),
            client_address: "0.0.0.0:9090".into(),
            mdns: false,
        },
        node: NodeConfig { count: Some(n as u32), index: i as u32 },
        partition: PartitionConfig { count: p, ids: None },
        replication: ReplicationConfig {
            buffer_size: 1000,
            buffer_timeout_ms: 8000,
            catchup_timeout_ms: 2000,
            factor: rf,
        },
        segment: SegmentConfig { size_bytes: 256 * 1024 * 1024, compression: true },
        sync: SyncConfig { interval_ms: 5, idle_interval_ms: None, max_batch_size: 50, min_bytes: 4096 },
        threads: Threads::default(),
        nodes: None,
    }
}

thread_local! {
    static PEERS: std::cell::RefCell<HashMap<usize, PeerId>> = Default::default();
}

fn peer(i: usize) -> PeerId {
    PEERS.with_borrow_mut(|m| *m.entry(i).or_insert_with(|| create_test_peer_id(i)))
}

fn aref(i: usize) -> ActorId {
    ActorId::new_with_peer_id(0, peer(i))
}

fn manager(i: usize, n: usize, p: u16, b: u16, rf: u8) -> TopologyManager<ActorId> {
    TopologyManager::new(aref(i), i, n, p, b, rf, Duration::from_secs(30))
}

fn sorted<T: Ord + Copy>(s: impl IntoIterator<Item = T>) -> Vec<T> {
    let mut v: Vec<T> = s.into_iter().collect();
    v.sort();
    v
}

/// replica node indices of every partition as the real manager of node `at` computes
/// them once it has learnt of all n nodes (in the given connect order)
fn full_replicas(
    at: usize,
    n: usize,
    p: u16,
    b: u16,
    rf: u8,
    order: &[usize],
    assigned: &[HashSet<u16>],
) -> (TopologyManager<ActorId>, Vec<Vec<usize>>) {
    let mut m = manager(at, n, p, b, rf);
    // every node reports alive_since = 1000 + index, the local node included
    m.alive_since = 1000 + at as u64;
    m.active_nodes.insert(peer(at), (m.alive_since, at));
    for &j in order {
        if j != at {
            m.on_node_connected(aref(j), &assigned[j], 1000 + j as u64, j, n);
        }
    }
    let by_peer: HashMap<PeerId, usize> = (0..n).map(|j| (peer(j), j)).collect();
    let reps = (0..p)
        .map(|pid| {
            m.partition_replicas
                .get(&pid)
                .map(|r| r.iter().map(|a| by_peer[a.peer_id().unwrap()]).collect())
                .unwrap_or_default()
        })
        .collect();
    (m, reps)
}

// ---------------------------------------------------------------------------
// C13 / C14 static

struct Cfg {
    n: usize,
    b: u16,
    p: u16,
    rf: u8,
}

fn cfg_json(c: &Cfg) -> Value {
    json!({"N": c.n, "B": c.b, "P": c.p, "rf": c.rf})
}

/// Everything the properties talk about, computed by the real code for one configuration.
struct Real {
    cfg_buckets: Vec<Option<Vec<u16>>>, // per node; None = configuration rejected by validate()
    cfg_parts: Vec<Option<Vec<u16>>>,
    topo_parts: Vec<Vec<u16>>,
    reps: Vec<Vec<usize>>,
    reps_other: Vec<Vec<usize>>,
    order_a: Vec<Vec<usize>>,
    order_b: Vec<Vec<usize>>,
}

fn real_for(c: &Cfg) -> Result<Real, String> {
    let (n, b, p, rf) = (c.n, c.b, c.p, c.rf);
    catch(move || {
        let mut cfg_buckets = vec![];
        let mut cfg_parts = vec![];
        let mut topo_parts = vec![];
        let mut assigned = vec![];
        for i in 0..n {
            let ac = app_config(n, i, b, p, rf);
            let ok = ac.validate().map(|e| e.is_empty()).unwrap_or(false);
            if ok {
                let bs = ac.assigned_buckets().unwrap();
                cfg_parts.push(Some(sorted(ac.assigned_partitions(&bs))));
                cfg_buckets.push(Some(sorted(bs)));
            } else {
                cfg_buckets.push(None);
                cfg_parts.push(None);
            }
            let m = manager(i, n, p, b, rf);
            topo_parts.push(sorted(m.assigned_partitions.iter().copied()));
            assigned.push(m.assigned_partitions.clone());
        }
        let fwd: Vec<usize> = (0..n).collect();
        let rev: Vec<usize> = (0..n).rev().collect();
        let (ma, reps) = full_replicas(0, n, p, b, rf, &fwd, &assigned);
        let (mb, reps_other) = full_replicas(n - 1, n, p, b, rf, &rev, &assigned);
        let by_peer: HashMap<PeerId, usize> = (0..n).map(|j| (peer(j), j)).collect();
        let ord = |m: &TopologyManager<ActorId>| -> Vec<Vec<usize>> {
            (0..p)
                .map(|pid| {
                    m.get_available_replicas(pid)
                        .iter()
                        .map(|(a, _)| by_peer[a.peer_id().unwrap()])
                        .collect()
                })
                .collect()
        };
        let order_a = ord(&ma);
        let order_b = ord(&mb);
        Real { cfg_buckets, cfg_parts, topo_parts, reps, reps_other, order_a, order_b }
    })
}

fn check_c13(rep: &mut Report, c: &Cfg, r: &Real) {
    let b = c.b;
    for i in 0..c.n {
        let Some(cb) = &r.cfg_buckets[i] else { continue };
        rep.eval(1);
        let topo_b: BTreeSet<u16> = r.topo_parts[i].iter().map(|p| p % b).collect();
        let cbs: BTreeSet<u16> = cb.iter().copied().collect();
        let class = format!(
            "{}|{}|{}",
            if (c.rf as usize) < c.n { "rf<N" } else { "rf=N" },
            if (b as usize) > c.n { "B>N" } else { "B<=N" },
            if b as usize % c.n == 0 { "N|B" } else { "N∤B" }
        );
        rep.class(class.clone());
        if topo_b != cbs {
            rep.violation(
                "c13:buckets-differ",
                json!({"cfg": cfg_json(c), "node": i, "stored_buckets": cb, "routed_buckets": topo_b, "class": class}),
                json!({"cfg": cfg_json(c), "node": i}),
            );
            continue;
        }
        if r.cfg_parts[i].as_ref().unwrap() != &r.topo_parts[i] {
            rep.violation(
                "c13:partitions-differ",
                json!({"cfg": cfg_json(c), "node": i, "config": r.cfg_parts[i], "topology": r.topo_parts[i]}),
                json!({"cfg": cfg_json(c), "node": i}),
            );
            continue;
        }
        for (pid, reps) in r.reps.iter().enumerate() {
            if reps.contains(&i) && !cbs.contains(&(pid as u16 % b)) {
                rep.violation(
                    "c13:routed-to-unstored-bucket",
                    json!({"cfg": cfg_json(c), "node": i, "partition": pid}),
                    json!({"cfg": cfg_json(c), "node": i}),
                );
                break;
            }
        }
    }
}

fn check_c14(rep: &mut Report, c: &Cfg, r: &Real) {
    let want = (c.rf as usize).min(c.n);
    rep.eval(1);
    rep.class(format!(
        "{}|{}",
        if (c.rf as usize) > c.n { "rf>N" } else if (c.rf as usize) == c.n { "rf=N" } else { "rf<N" },
        if c.n >= 256 { "N>=256" } else { "N<256" }
    ));
    for pid in 0..c.p as usize {
        let owners: Vec<usize> = (0..c.n).filter(|&i| r.topo_parts[i].contains(&(pid as u16))).collect();
        let reps = &r.reps[pid];
        let distinct: BTreeSet<usize> = reps.iter().copied().collect();
        if owners.len() != want || reps.len() != want || distinct.len() != want {
            rep.violation(
                "c14:replica-count",
                json!({"cfg": cfg_json(c), "partition": pid, "want": want, "owners": owners.len(), "replicas": reps}),
                json!({"cfg": cfg_json(c)}),
            );
            return;
        }
        if distinct != owners.iter().copied().collect::<BTreeSet<_>>() {
            rep.violation(
                "c14:owns-iff-replica",
                json!({"cfg": cfg_json(c), "partition": pid, "owners": owners, "replicas": reps}),
                json!({"cfg": cfg_json(c)}),
            );
            return;
        }
        let other: BTreeSet<usize> = r.reps_other[pid].iter().copied().collect();
        if other != distinct || r.order_a[pid] != r.order_b[pid] {
            rep.violation(
                "c14:nodes-disagree",
                json!({"cfg": cfg_json(c), "partition": pid, "node0": reps, "nodeN": r.reps_other[pid],
                       "order0": r.order_a[pid], "orderN": r.order_b[pid]}),
                json!({"cfg": cfg_json(c)}),
            );
            return;
        }
    }
}

fn placement(rep: &mut Report, tables: &str, which: &str) {
    let quick = hcommon::tier_quick();
    // 1. conformance with the TLC tabulation of Topology.tla
    let mut table_rows = 0u64;
    for t in read_ndjson(tables) {
        let c = Cfg {
            n: t["N"].as_u64().unwrap() as usize,
            b: t["B"].as_u64().unwrap() as u16,
            p: t["P"].as_u64().unwrap() as u16,
            rf: t["rf"].as_u64().unwrap() as u8,
        };
        table_rows += 1;
        let r = match real_for(&c) {
            Ok(r) => r,
            Err(e) => {
                rep.violation(&format!("{which}:panic"), json!({"cfg": cfg_json(&c), "panic": e}), cfg_json(&c));
                continue;
            }
        };
        for i in 0..c.n {
            let node = &t["nodes"][i];
            let tp: Vec<u16> = node["tp"].as_array().unwrap().iter().map(|v| v.as_u64().unwrap() as u16).collect();
            let cb: Vec<u16> = node["cb"].as_array().unwrap().iter().map(|v| v.as_u64().unwrap() as u16).collect();
            if which == "c13" {
                if let Some(real_cb) = &r.cfg_buckets[i] {
                    if real_cb != &cb {
                        // the transcription no longer describes the code: a note, the property itself is judged below
                        rep.add("spec_divergences", 1);
                        rep.set("spec_divergence_sample", json!({"what": "config buckets", "cfg": cfg_json(&c), "node": i, "real": real_cb, "spec": cb}));
                    }
                }
            }
            if r.topo_parts[i] != tp {
                rep.add("spec_divergences", 1);
                rep.set("spec_divergence_sample", json!({"what": "topology partitions", "cfg": cfg_json(&c), "node": i, "real": r.topo_parts[i], "spec": tp}));
            }
        }
        if which == "c14" {
            for pid in 0..c.p as usize {
                let spec: Vec<usize> = t["reps"][pid].as_array().unwrap().iter().map(|v| v.as_u64().unwrap() as usize).collect();
                if r.reps[pid] != spec {
                    rep.add("spec_divergences", 1);
                    rep.set("spec_divergence_sample", json!({"what": "replicas", "cfg": cfg_json(&c), "partition": pid, "real": r.reps[pid], "spec": spec}));
                    break;
                }
            }
        }
        if which == "c13" { check_c13(rep, &c, &r) } else { check_c14(rep, &c, &r) }
        if table_rows % 97 == 1 {
            rep.sample(json!({"cfg": cfg_json(&c), "topo_partitions_node0": r.topo_parts[0], "replicas": r.reps}));
        }
    }
    rep.set("table_rows_compared", json!(table_rows));

    // 2. the property itself on the real code, larger domain
    let mut cfgs: Vec<Cfg> = vec![];
    if which == "c13" {
        let (mn, mb, mp) = if quick { (6, 10, 14) } else { (8, 16, 32) };
        for n in 1..=mn {
            for b in 1..=mb {
                for p in b.max(n as u16)..=mp {
                    for rf in 1..=n.min(MAX_REPLICATION_FACTOR) {
                        cfgs.push(Cfg { n, b, p, rf: rf as u8 });
                    }
                }
            }
        }
        // sampled large configurations
        use rand::{RngExt, SeedableRng};
        let mut rng = rand::rngs::StdRng::seed_from_u64(hcommon::seed());
        for _ in 0..(if quick { 60 } else { 1500 }) {
            let n = rng.random_range(2..=64usize);
            let b = rng.random_range(1..=512u16);
            let p = rng.random_range(b.max(n as u16)..=2048u16);
            let rf = rng.random_range(1..=n.min(MAX_REPLICATION_FACTOR)) as u8;
            cfgs.push(Cfg { n, b, p, rf });
        }
    } else {
        let (mn, mb, mp) = if quick { (6, 6, 9) } else { (8, 8, 16) };
        for n in 1..=mn {
            for b in 1..=mb {
                for p in b..=mp {
                    for rf in 1..=MAX_REPLICATION_FACTOR {
                        cfgs.push(Cfg { n, b, p, rf: rf as u8 });
                    }
                }
            }
        }
        let big: &[usize] = if quick { &[255, 256, 257] } else { &[255, 256, 257, 300, 511, 512, 513, 1000] };
        for &n in big {
            for rf in [1u8, 2, 3, 12] {
                cfgs.push(Cfg { n, b: 7, p: 9, rf });
                cfgs.push(Cfg { n, b: 4, p: 4, rf });
            }
        }
    }
    rep.set("configurations", json!(cfgs.len()));
    let results: Vec<(usize, Result<Real, String>)> =
        cfgs.par_iter().enumerate().map(|(k, c)| (k, real_for(c))).collect();
    for (k, r) in results {
        let c = &cfgs[k];
        match r {
            Ok(r) => {
                if which == "c13" { check_c13(rep, c, &r) } else { check_c14(rep, c, &r) }
            }
            Err(e) => rep.violation(&format!("{which}:panic"), json!({"cfg": cfg_json(c), "panic": e}), cfg_json(c)),
        }
    }
    rep.set("exhaustive", json!(false));
}

// ---------------------------------------------------------------------------
// C24 distribute_partition

fn jump(n: u32) -> u32 {
    if n <= 2 {
        1
    } else {
        let c = n / 2 + 1;
        if n % 2 == 0 && c % 2 == 0 { c + 1 } else { c }
    }
}

/// Rust mirror of Topology!Distribute (validated against the TLC table below)
fn dist_model(h: u32, n: u32, rf: u32) -> Vec<u16> {
    if n == 0 || rf == 0 {
        return vec![];
    }
    let len = rf.min(n).min(MAX_REPLICATION_FACTOR as u32);
    (0..len).map(|k| (((h % n) as u64 + k as u64 * jump(n) as u64) % n as u64) as u16).collect()
}

/// C24 as stated: min(rf, n, 12) pairwise distinct ids, all below n, the first being h mod n; nothing when n or rf is zero
fn holds(g: &[u16], h: u32, n: u32, rf: u8) -> bool {
    if n == 0 || rf == 0 {
        return g.is_empty();
    }
    let distinct: HashSet<u16> = g.iter().copied().collect();
    g.len() == (rf as usize).min(n as usize).min(12) && distinct.len() == g.len() && g.iter().all(|&x| (x as u32) < n) && g[0] as u32 == h % n
}

fn real_dist(h: u16, n: u16, rf: u8) -> Result<Vec<u16>, String> {
    catch(move || distribute_partition(h, n, rf).to_vec())
}

fn distribute(rep: &mut Report, tables: &str) {
    let quick = hcommon::tier_quick();
    // 1. mirror == TLC table; real against the table
    let mut rows = 0u64;
    let mut divergences = 0u64;
    for t in read_ndjson(tables) {
        let n = t["n"].as_u64().unwrap() as u32;
        assert_eq!(jump(n) as u64, t["jump"].as_u64().unwrap_or(1).max(if n == 0 { jump(0) as u64 } else { 0 }).max(jump(n) as u64));
        for (h, row) in t["rows"].as_array().unwrap().iter().enumerate() {
            let spec: Vec<u16> = row.as_array().unwrap().iter().map(|v| v.as_u64().unwrap() as u16).collect();
            let mirror = dist_model(h as u32, n, 13);
            assert_eq!(mirror, spec, "harness mirror disagrees with Topology!Distribute at h={h} n={n}");
            rows += 1;
            for rf in [0u8, 1, 2, 3, 11, 12, 13, 255] {
                let want = dist_model(h as u32, n, rf as u32);
                let got = real_dist(h as u16, n as u16, rf);
                rep.eval(1);
                if got.as_ref().ok() != Some(&want) {
                    // the closed form is the specification's description of the code; what is judged is the property
                    // (a different walk that still satisfies it is a divergence of the model, not a violation)
                    match &got {
                        Ok(g) if holds(g, h as u32, n, rf) => divergences += 1,
                        _ => rep.violation(
                            "c24:property:table",
                            json!({"h": h, "n": n, "rf": rf, "real": format!("{got:?}"), "closed_form": want, "required": "min(rf, n, 12) distinct ids below n, the first h mod n"}),
                            json!({"h": h, "n": n, "rf": rf}),
                        ),
                    }
                }
            }
        }
    }
    rep.set("table_rows_compared", json!(rows));

    // 2. the whole input space on the real function
    //    (a) first element and length for all (h, n), rf in {1, 12}
    //    (b) the full walk for all (n, p < n) and rf in 0..=13 and 255
    //    (c) sampled h >= n must equal h % n
    let n_hi: u32 = if quick { 4096 } else { 65535 };
    let bad = std::sync::Mutex::new(Vec::<Value>::new());
    let evals = std::sync::atomic::AtomicU64::new(0);
    let diverged = std::sync::atomic::AtomicU64::new(0);
    let ns: Vec<u32> = if quick {
        (0..=n_hi).chain((43000..44500).step_by(1)).chain([65534u32, 65535, 49152, 60000, 32768, 32767]).collect()
    } else {
        (0..=n_hi).collect()
    };
    ns.par_iter().for_each(|&n| {
        let mut local = 0u64;
        let mut report = |h: u32, rf: u8, got: Result<Vec<u16>, String>, want: Vec<u16>| {
            let mut b = bad.lock().unwrap();
            if b.len() < 50 {
                b.push(json!({"h": h, "n": n, "rf": rf, "real": format!("{got:?}"), "want": want}));
            }
        };
        let rfs: &[u8] = if quick { &[0, 1, 2, 3, 12, 13, 255] } else { &[0, 1, 2, 3, 4, 5, 6, 7, 8, 9, 10, 11, 12, 13, 255] };
        let pstep = if quick && n > 2048 { 97 } else { 1 };
        let mut p = 0u32;
        while p < n.max(1) {
            let longest = real_dist(p as u16, n as u16, 255).unwrap_or_default();
            for &rf in rfs {
                let want = dist_model(p, n, rf as u32);
                let got = real_dist(p as u16, n as u16, rf);
                local += 1;
                let ok = match &got {
                    Ok(g) => {
                        if g != &want {
                            diverged.fetch_add(1, std::sync::atomic::Ordering::Relaxed);
                        }
                        // the property, stated directly; a smaller rf yields a prefix of the result for a larger one;
                        // the same call gives the same result
                        holds(g, p, n, rf) && longest.starts_with(g) && real_dist(p as u16, n as u16, rf).as_ref().ok() == Some(g)
                    }
                    Err(_) => false,
                };
                if !ok {
                    report(p, rf, got, want);
                }
            }
            p += pstep;
            if n == 0 {
                break;
            }
        }
        // all hashes for the first element (release builds make this cheap)
        let hstep = if quick { 257 } else { 1 };
        let mut h = 0u32;
        while h <= 65535 {
            for rf in [1u8, 3] {
                let got = real_dist(h as u16, n as u16, rf);
                local += 1;
                let want = dist_model(h, n, rf as u32);
                match &got {
                    Ok(g) if holds(g, h, n, rf) => {
                        if g != &want {
                            diverged.fetch_add(1, std::sync::atomic::Ordering::Relaxed);
                        }
                    }
                    _ => report(h, rf, got, want),
                }
            }
            h += hstep;
        }
        evals.fetch_add(local, std::sync::atomic::Ordering::Relaxed);
    });
    rep.eval(evals.into_inner());
    let bad = bad.into_inner().unwrap();
    let mut seen = BTreeSet::new();
    for b in bad {
        let n = b["n"].as_u64().unwrap();
        let class = if b["real"].as_str().unwrap().starts_with("Err") { "panic" } else { "wrong-result" };
        let key = format!("c24:{class}:{}", if n > 43690 { "n>43690" } else { "n<=43690" });
        if seen.insert(key.clone()) {
            rep.violation(&key, b.clone(), b);
        }
    }
    rep.set("closed_form_divergences", json!(divergences + diverged.into_inner()));
    rep.set("partition_counts_covered", json!(ns.len()));
    rep.set("exhaustive", json!(!quick));
    rep.class("n<=2");
    rep.class("n odd");
    rep.class("n even, n/2+1 odd");
    rep.class("n even, n/2+1 even");
    rep.class("n>43690 (u16 sum overflow region)");
    rep.sample(json!({"h": 7, "n": 10, "rf": 3, "result": real_dist(7, 10, 3).ok()}));
    rep.sample(json!({"h": 65535, "n": 65535, "rf": 12, "result": format!("{:?}", real_dist(65535, 65535, 12))}));
}

// ---------------------------------------------------------------------------
// C14 dynamic: replay Membership.tla behaviours on real TopologyManagers

struct Cluster {
    np: usize,
    nb: u16,
    npart: u16,
    rf: u8,
    // model peer a (1-based) -> real node index a-1; refs sorted so that the model's
    // a < b agrees with the real Ord on ActorId (tie-break of the coordinator order)
    slot: Vec<usize>,
    mgrs: Vec<TopologyManager<ActorId>>,
    assigned: Vec<HashSet<u16>>,
}

impl Cluster {
    fn new(np: usize, nb: u16, npart: u16, rf: u8) -> Self {
        // choose peer ids so that ActorId order == model order
        let mut cands: Vec<(ActorId, usize)> = (0..np).map(|k| (aref(100 + k), 100 + k)).collect();
        cands.sort();
        let slot: Vec<usize> = cands.iter().map(|(_, k)| *k).collect();
        let mut c = Cluster { np, nb, npart, rf, slot, mgrs: vec![], assigned: vec![] };
        for a in 1..=np {
            let m = c.fresh(a, 1);
            c.assigned.push(m.assigned_partitions.clone());
            c.mgrs.push(m);
        }
        c
    }
    fn rf(&self, a: usize) -> ActorId {
        aref(self.slot[a - 1])
    }
    fn pid(&self, a: usize) -> PeerId {
        peer(self.slot[a - 1])
    }
    fn fresh(&self, a: usize, epoch: u64) -> TopologyManager<ActorId> {
        let mut m = TopologyManager::new(self.rf(a), a - 1, self.np, self.npart, self.nb, self.rf, Duration::from_secs(30));
        m.alive_since = epoch;
        let me = self.pid(a);
        m.active_nodes.insert(me, (epoch, a - 1));
        m
    }
    fn model_peer(&self, p: &PeerId) -> usize {
        (1..=self.np).find(|&a| &self.pid(a) == p).unwrap_or(0)
    }
    fn project(&self, n: usize) -> Value {
        let m = &self.mgrs[n - 1];
        let active: Vec<i64> = (1..=self.np)
            .map(|a| match m.active_nodes.get(&self.pid(a)) {
                Some((since, idx)) if *idx == a - 1 => *since as i64,
                Some(_) => -2,
                None => -1,
            })
            .collect();
        let known = sorted(m.cluster_nodes.keys().map(|p| self.model_peer(p)));
        let hb = sorted(m.node_heartbeats.keys().map(|p| self.model_peer(p)));
        let reps: Vec<Vec<usize>> = (0..self.npart)
            .map(|p| {
                sorted(
                    m.partition_replicas
                        .get(&p)
                        .map(|r| r.iter().map(|a| self.model_peer(a.peer_id().unwrap())).collect::<Vec<_>>())
                        .unwrap_or_default(),
                )
            })
            .collect();
        json!({"active": active, "known": known, "hb": hb, "reps": reps})
    }
    fn apply(&mut self, s: &Value) {
        let n = s["n"].as_u64().unwrap() as usize;
        let a = s["a"].as_u64().unwrap_or(0) as usize;
        let e = s["e"].as_u64().unwrap_or(0);
        match s["op"].as_str().unwrap() {
            "connect" => {
                let (r, owned) = (self.rf(a), self.assigned[a - 1].clone());
                let np = self.np;
                self.mgrs[n - 1].on_node_connected(r, &owned, e, a - 1, np);
            }
            "heartbeat" => {
                let (r, owned) = (self.rf(a), self.assigned[a - 1].clone());
                let np = self.np;
                self.mgrs[n - 1].on_heartbeat(r, &owned, e, a - 1, np);
                self.mgrs[n - 1].ensure_local_partitions();
            }
            "disconnect" => {
                let p = self.pid(a);
                self.mgrs[n - 1].on_node_disconnected(&p);
            }
            "timeouts" => {
                let expired: Vec<PeerId> =
                    s["S"].as_array().unwrap().iter().map(|v| self.pid(v.as_u64().unwrap() as usize)).collect();
                let m = &mut self.mgrs[n - 1];
                let now = Instant::now();
                let old = now.checked_sub(Duration::from_secs(31)).expect("monotonic clock too young");
                for (p, t) in m.node_heartbeats.iter_mut() {
                    *t = if expired.contains(p) { old } else { now + Duration::from_secs(5) };
                }
                m.check_heartbeat_timeouts();
            }
            "response" => {
                // as Behaviour::handle_partition_message converts the wire format
                let mut by_ref: HashMap<ActorId, HashSet<u16>> = HashMap::new();
                for (p, peers) in s["mreps"].as_array().unwrap().iter().enumerate() {
                    for v in peers.as_array().unwrap() {
                        by_ref.entry(self.rf(v.as_u64().unwrap() as usize)).or_default().insert(p as u16);
                    }
                }
                let mut pr: HashMap<u16, arrayvec::ArrayVec<ActorId, MAX_REPLICATION_FACTOR>> = HashMap::new();
                for (r, ps) in by_ref {
                    for p in ps {
                        pr.entry(p).or_default().push(r);
                    }
                }
                let mut active = HashMap::new();
                for (k, v) in s["mactive"].as_array().unwrap().iter().enumerate() {
                    let since = v.as_i64().unwrap();
                    if since >= 0 {
                        active.insert(self.pid(k + 1), (since as u64, k));
                    }
                }
                self.mgrs[n - 1].handle_ownership_response(&pr, active);
                self.mgrs[n - 1].ensure_local_partitions();
            }
            "restart" => {
                self.mgrs[n - 1] = self.fresh(n, e);
            }
            other => panic!("unknown op {other}"),
        }
    }
    /// C14 stated directly on the real managers
    fn same_view_violation(&self) -> Option<Value> {
        for x in 1..=self.np {
            for y in (x + 1)..=self.np {
                let (mx, my) = (&self.mgrs[x - 1], &self.mgrs[y - 1]);
                if mx.active_nodes != my.active_nodes {
                    continue;
                }
                for p in 0..self.npart {
                    let sx: BTreeSet<ActorId> = mx.partition_replicas.get(&p).map(|r| r.iter().copied().collect()).unwrap_or_default();
                    let sy: BTreeSet<ActorId> = my.partition_replicas.get(&p).map(|r| r.iter().copied().collect()).unwrap_or_default();
                    let ox: Vec<ActorId> = mx.get_available_replicas(p).iter().map(|(a, _)| *a).collect();
                    let oy: Vec<ActorId> = my.get_available_replicas(p).iter().map(|(a, _)| *a).collect();
                    if sx != sy || ox != oy {
                        return Some(json!({"nodes": [x, y], "partition": p,
                            "replicas_x": self.project(x)["reps"][p as usize], "replicas_y": self.project(y)["reps"][p as usize]}));
                    }
                }
            }
        }
        None
    }
}

fn membership(rep: &mut Report, plans: &str, args: &[String]) {
    let np: usize = args[0].parse().unwrap();
    let nb: u16 = args[1].parse().unwrap();
    let npart: u16 = args[2].parse().unwrap();
    let rf: u8 = args[3].parse().unwrap();
    let mut steps_total = 0u64;
    let mut ops: BTreeMap<String, u64> = BTreeMap::new();
    for (bi, plan) in read_ndjson(plans).iter().enumerate() {
        let steps = plan.as_array().unwrap();
        let res = catch(std::panic::AssertUnwindSafe(|| {
            let mut c = Cluster::new(np, nb, npart, rf);
            for (k, s) in steps.iter().enumerate() {
                c.apply(s);
                let n = s["n"].as_u64().unwrap() as usize;
                let got = c.project(n);
                if got != s["post"] {
                    return Some((format!("c14:membership-conformance:{}", s["op"].as_str().unwrap()),
                                 json!({"step": k, "op": s, "real": got})));
                }
                if let Some(v) = c.same_view_violation() {
                    return Some(("c14:same-view-different-replicas".to_string(), json!({"step": k, "op": s["op"], "diff": v})));
                }
            }
            None
        }));
        steps_total += steps.len() as u64;
        for s in steps {
            *ops.entry(s["op"].as_str().unwrap().to_string()).or_default() += 1;
        }
        rep.eval(1);
        match res {
            Ok(None) => {}
            Ok(Some((key, detail))) => rep.violation(&key, detail, json!({"behaviour": plan, "np": np, "nb": nb, "npart": npart, "rf": rf})),
            Err(e) => rep.violation("c14:membership-panic", json!({"panic": e}), json!({"behaviour": plan})),
        }
        if bi < 2 {
            rep.sample(json!(steps.iter().map(|s| format!("{}(n={},a={})", s["op"].as_str().unwrap(), s["n"], s["a"])).collect::<Vec<_>>()));
        }
    }
    rep.set("steps_replayed", json!(steps_total));
    rep.set("ops", json!(ops));
    for k in ops.keys() {
        rep.class(k.clone());
    }
}
