------------------------------ MODULE TraceSub ------------------------------
(***************************************************************************)
(* Trace validation of real subscriptions (C09).  The harness records, in  *)
(* the order it performs / observes them: the start of a run (the matching *)
(* events per lane - a lane is a partition or a stream -, the start        *)
(* positions, the window, the initially confirmed prefix), every           *)
(* confirmation it issues (the watermark can be at most that from then     *)
(* on), every SubscriptionEvent::Record it receives, every acknowledgement *)
(* it sends, and the moment nothing more arrives although everything is    *)
(* acknowledged.  The actions below are the observable projection of       *)
(* Subscription.tla: a record is the next matching event of its lane,      *)
(* below the watermark, with the next cursor, inside the window; at rest   *)
(* nothing confirmed is owed.                                              *)
(***************************************************************************)
EXTENDS Naturals, Sequences, FiniteSets, TLC, Json, IOUtils
Rec == ndJsonDeserialize(IOEnv.TRACE)

VARIABLES l, W, lanes, nextIdx, sent, lastAck, window
vars == <<l, W, lanes, nextIdx, sent, lastAck, window>>
Ev == Rec[l]
IsEvent(e) == l <= Len(Rec) /\ Rec[l].e = e /\ l' = l + 1

Init == l = 1 /\ W = 0 /\ lanes = << >> /\ nextIdx = << >> /\ sent = 0 /\ lastAck = 0 /\ window = 0

\* lanes: sequence of [seqs : sequence of partition sequences of the lane's matching events from
\* the start position on, in lane order]
TStart == /\ IsEvent("start")
          /\ W' = Ev.w0 /\ lanes' = Ev.lanes /\ nextIdx' = [i \in 1..Len(Ev.lanes) |-> 1]
          /\ sent' = 0 /\ lastAck' = 0 /\ window' = Ev.window
TConfirm == IsEvent("confirm") /\ Ev.w >= W /\ W' = Ev.w /\ UNCHANGED <<lanes, nextIdx, sent, lastAck, window>>
TRecord ==
    /\ IsEvent("record")
    /\ Ev.lane \in 1..Len(lanes)
    /\ nextIdx[Ev.lane] <= Len(lanes[Ev.lane].seqs)
    /\ lanes[Ev.lane].seqs[nextIdx[Ev.lane]] = Ev.seq          \* in order, no gap, no duplicate
    /\ Ev.seq < W                                              \* nothing unconfirmed
    /\ Ev.cursor = sent
    /\ sent - lastAck < window                                 \* window
    /\ nextIdx' = [nextIdx EXCEPT ![Ev.lane] = @ + 1] /\ sent' = sent + 1
    /\ UNCHANGED <<W, lanes, lastAck, window>>
TAck == IsEvent("ack") /\ Ev.a <= sent /\ Ev.a >= lastAck /\ lastAck' = Ev.a /\ UNCHANGED <<W, lanes, nextIdx, sent, window>>
\* at rest every confirmed matching event has been delivered
TRest == /\ IsEvent("rest") /\ lastAck = sent
         /\ \A i \in 1..Len(lanes) : \A j \in nextIdx[i]..Len(lanes[i].seqs) : lanes[i].seqs[j] >= W
         /\ UNCHANGED <<W, lanes, nextIdx, sent, lastAck, window>>
Next == TStart \/ TConfirm \/ TRecord \/ TAck \/ TRest
Spec == Init /\ [][Next]_vars

TraceAccepted ==
    LET d == TLCGet("stats").diameter - 1 IN
    IF d = Len(Rec) THEN TRUE
    ELSE Print(<<"TRACE_REJECTED_AT", d + 1, IF d + 1 <= Len(Rec) THEN ToJson(Rec[d + 1]) ELSE "eof">>, FALSE)
=============================================================================
