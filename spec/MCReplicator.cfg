SPECIFICATION Spec
CONSTANTS
  Limit = 2
  MaxDeliveries = 5
  PurgeOnProgress = TRUE
VIEW View
CONSTRAINT Bound
INVARIANTS AppliedAtAssignedSeq AtMostOnce NextIsLogEnd NoPendingBelowNext AllAnsweredAtRest BufferBounded Emit
PROPERTY RejectLeavesLogUnchanged
CHECK_DEADLOCK FALSE
