------------------------------- MODULE Gating -------------------------------
(***************************************************************************)
(* Read gating by the confirmed watermark (C07): sierradb-cluster read.rs  *)
(* (ReadEvent, ReadPartition, ReadStream, GetStreamVersion,                *)
(* GetPartitionSequence) over confirmation.rs's watermark.                 *)
(*                                                                         *)
(* A partition history is a sequence of transactions, each with 1 or 2     *)
(* events and one confirmation count (all events of a transaction carry    *)
(* the same on-disk count).  The watermark is the length of the longest    *)
(* prefix of events whose count reaches the quorum; the only events any    *)
(* read API may reveal are those at a sequence below it.                   *)
(*                                                                         *)
(* The stream index is per bucket, the watermark per partition.  A stream  *)
(* read is addressed to a partition; a sibling partition of the same       *)
(* bucket (with its own, possibly higher, watermark WSib) knows the stream *)
(* id through the shared index, but the stream does not live there:        *)
(* addressed to the sibling, a stream read reveals nothing of this         *)
(* partition (VisibleViaSibling).  SiblingReadsIsolated = FALSE is the     *)
(* deviation in which such a read is gated by the sibling's watermark.     *)
(***************************************************************************)
EXTENDS Naturals, Sequences, FiniteSets, TLC, Json
CONSTANTS MaxTx, RF, SiblingReadsIsolated

Quorum == (RF \div 2) + 1
Counts == {0, Quorum - 1, Quorum, RF}      \* below / at / above the quorum
Shapes == UNION {[1..k -> [n : 1..2, c : Counts]] : k \in 1..MaxTx}

VARIABLE hist
Init == hist \in Shapes
Next == UNCHANGED hist

\* events in sequence order: [seq, tx, c, s (stream), ver]; streams alternate by transaction
RECURSIVE Flat(_, _, _)
Flat(h, t, acc) ==
    IF t > Len(h) THEN acc
    ELSE Flat(h, t + 1, acc \o [i \in 1..h[t].n |-> [tx |-> t, c |-> h[t].c, s |-> IF t % 2 = 1 THEN "a" ELSE "b"]])
Events == Flat(hist, 1, << >>)
N == Len(Events)
RECURSIVE Lqp(_)
Lqp(i) == IF i <= N /\ Events[i].c >= Quorum THEN Lqp(i + 1) ELSE i - 1
W == Lqp(1)                                    \* the watermark (number of confirmed leading events)
Visible == {i - 1 : i \in 1..W}                \* partition sequences that may be revealed
VerOf(i) == Cardinality({j \in 1..i : Events[j].s = Events[i].s}) - 1
VisibleVers(s) == {VerOf(i) : i \in {j \in 1..W : Events[j].s = s}}

\* a fully confirmed sibling partition, longer than this one
WSib == N + 2
\* what a stream read addressed to the sibling reveals of this partition's sequences
VisibleViaSibling == IF SiblingReadsIsolated THEN {} ELSE {i - 1 : i \in 1..(IF WSib < N THEN WSib ELSE N)}
SiblingRevealsNothingUnconfirmed == VisibleViaSibling \subseteq Visible

(* C07 as properties of the gate itself *)
\* the visible set is a prefix and stops at the first event below the quorum
GateIsPrefix == /\ \A i \in 1..W : Events[i].c >= Quorum
                /\ W < N => Events[W + 1].c < Quorum
\* an event of a write that did not reach the quorum is never visible
UnconfirmedHidden == \A i \in 1..N : Events[i].c < Quorum => (i - 1) \notin Visible
\* per stream the visible versions are a prefix of the stream
StreamPrefix == \A s \in {"a", "b"} : \A v \in VisibleVers(s) : \A u \in 0..v : u \in VisibleVers(s)

Emit == PrintT(<<"TABLE", ToJson([rf |-> RF, hist |-> hist, w |-> W,
                                  va |-> Cardinality(VisibleVers("a")), vb |-> Cardinality(VisibleVers("b"))])>>)
=============================================================================
