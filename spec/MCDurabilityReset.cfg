SPECIFICATION Spec
CONSTANTS
  Tx = {t1, t2, t3}
  Cap = 2
  MaxSeg = 2
  WatchPerSegment = FALSE
  SwapInstallsOld = TRUE
  ResetOnRoll = TRUE
  Reader = {r1, r2}
INVARIANTS TypeOK AckedDurable AckedPublished PublishedFindable ReaderNeverMisses
PROPERTY PublishedMonotone AckStable
VIEW ViewNoHist
CHECK_DEADLOCK FALSE
