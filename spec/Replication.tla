---------------------------- MODULE Replication ----------------------------
(***************************************************************************)
(* The replicated write protocol of one partition (C10, C11):              *)
(* sierradb-cluster write/execute.rs, write/transaction.rs (coordinator),  *)
(* write/replicate.rs (replica), write/confirm.rs, confirmation.rs.        *)
(*                                                                         *)
(* Nodes hold a log (one transaction id per partition sequence; a 2-event  *)
(* transaction occupies two sequences), an on-disk confirmation count per  *)
(* sequence, and a replicator (next expected sequence + buffer).  A node   *)
(* coordinates a client write when, in ITS OWN membership view, it is the  *)
(* first available replica; views of different nodes may disagree, so two  *)
(* nodes may coordinate at the same time.                                  *)
(*                                                                         *)
(*   ClientWrite     coordinator appends locally at its next sequence k    *)
(*                   (count 0), sends ReplicateWrite(tx, k) to the other   *)
(*                   members of its view                                   *)
(*   RecvReplicate   replica: sender must be in the replica's view; the    *)
(*                   replicator appends at k = its next expected sequence  *)
(*                   (the database refuses if its log end is not k),       *)
(*                   buffers a later k, rejects an earlier one; replies    *)
(*   RecvReply       coordinator counts itself + Ok replies; at the quorum *)
(*                   it writes the count to its own disk, acknowledges the *)
(*                   client and sends ConfirmTransaction(count) to the     *)
(*                   replicas that answered; a later Ok reply gets its own *)
(*                   ConfirmTransaction(count + 1)                         *)
(*   GiveUp          quorum impossible / timeout: the client gets an error;*)
(*                   the coordinator's local append stays, unconfirmed     *)
(*   RecvConfirm     replica: transaction id and sequences must match its  *)
(*                   log; writes the count to its disk                     *)
(*   CatchUp         a replica with a gap below its oldest buffered write  *)
(*                   asks that write's coordinator, which serves whole     *)
(*                   transactions below its own confirmed watermark        *)
(*   Lose / keep     the network loses and duplicates messages; delivery   *)
(*                   order is arbitrary                                    *)
(*   ViewChange, Crash, Restart (disk survives, memory is lost)            *)
(*                                                                         *)
(* Assumption: a replica's Ok reply means its append is durable (C01).     *)
(***************************************************************************)
EXTENDS Naturals, Sequences, FiniteSets, TLC, Json
CONSTANTS Node, RF, Txs, MaxView, MaxDup, MaxCrash, MaxLose,
          QuorumDelta,    \* 0: the design (majority); 1: deviation (one reply too few)
          HoldBack,       \* set of <<node, sequence>>: ReplicateWrite messages for that node and sequence stay in flight for ever
                          \* (a legal delay; used to steer behaviour generation towards gaps and catch-up)
          TxStream,       \* tx id -> the stream its events belong to
          PinSeq,         \* TRUE: the design (a commit served by catch-up is appended at its own sequence only);
                          \* FALSE: deviation (it is appended wherever the replica's log ends)
          CheckConfirm    \* TRUE: the design (ConfirmTransaction verifies transaction id and sequences);
                          \* FALSE: deviation (the count is written to whatever sits at those sequences)
\* Txs : function tx id -> number of events (1 or 2)

Quorum == (RF \div 2) + 1 - QuorumDelta
TxId == DOMAIN Txs

VARIABLES log,      \* log[n]   : sequence of tx ids
          cnt,      \* cnt[n]   : sequence of on-disk confirmation counts (same length as log[n])
          nxt,      \* nxt[n]   : replicator's next expected sequence
          buf,      \* buf[n]   : set of buffered [tx, k, c]
          up, view,
          msgs,     \* set of messages in flight
          coord,    \* coord[tx] : [c, k, ok (set of nodes counted), phase, count] or none
          acked,    \* transactions acknowledged to the client as successful
          nview, ndup, ncrash, nlose, h,
          cc,       \* cc[n]    : per sequence, the count written when the event was appended on n (the count in the
                    \* commit record of a multi-event transaction is this one: later confirmations rewrite the event
                    \* records only)
          cu        \* ghost: catch-up attempts so far: "none", "plain", "ahead" (the replica's log was ahead of its
                    \* replicator), "refused" (the first served commit was refused)
vars == <<log, cnt, nxt, buf, up, view, msgs, coord, acked, nview, ndup, ncrash, nlose, h, cu, cc>>

NoCoord == [c |-> CHOOSE n \in Node : TRUE, k |-> 0, ok |-> {}, phase |-> "none", count |-> 0]

Init ==
    /\ log = [n \in Node |-> << >>] /\ cnt = [n \in Node |-> << >>] /\ cc = [n \in Node |-> << >>]
    /\ nxt = [n \in Node |-> 0] /\ buf = [n \in Node |-> {}]
    /\ up = [n \in Node |-> TRUE] /\ view = [n \in Node |-> Node]
    /\ msgs = {} /\ coord = [t \in TxId |-> NoCoord] /\ acked = {}
    /\ nview = 0 /\ ndup = 0 /\ ncrash = 0 /\ nlose = 0 /\ h = << >> /\ cu = "none"

Rep(n, x) == [i \in 1..n |-> x]
Min(S) == CHOOSE x \in S : \A y \in S : x <= y
Leader(n) == Min(view[n])            \* first available replica in n's view (model: smallest id)
Watermark(n) == LET RECURSIVE L(_)
                    L(i) == IF i <= Len(cnt[n]) /\ cnt[n][i] >= Quorum THEN L(i + 1) ELSE i - 1
                IN L(1)
SetCount(c, k, n, v) == [i \in 1..Len(c) |-> IF i > k /\ i <= k + n THEN v ELSE c[i]]
HasAt(n, t, k) == Len(log[n]) >= k + Txs[t] /\ \A i \in 1..Txs[t] : log[n][k + i] = t

\* ------------------------------------------------------------------ coordinator
ClientWrite(t, c) ==
    /\ up[c] /\ coord[t].phase = "none" /\ Leader(c) = c /\ Cardinality(view[c]) >= Quorum
    /\ LET k == Len(log[c])
           solo == Quorum <= 1
       IN /\ log' = [log EXCEPT ![c] = @ \o Rep(Txs[t], t)]
          /\ cnt' = [cnt EXCEPT ![c] = @ \o Rep(Txs[t], IF solo THEN 1 ELSE 0)]
          /\ msgs' = msgs \cup {[kind |-> "rep", from |-> c, to |-> r, tx |-> t, k |-> k, count |-> 0] : r \in view[c] \ {c}}
          /\ coord' = [coord EXCEPT ![t] = [c |-> c, k |-> k, ok |-> {c}, phase |-> IF solo THEN "acked" ELSE "replicating",
                                            count |-> 1]]
          /\ acked' = IF solo THEN acked \cup {t} ELSE acked
          /\ h' = Append(h, [op |-> "write", tx |-> t, c |-> c, k |-> k, n |-> Txs[t], acked |-> solo])
    /\ UNCHANGED <<nxt, buf, up, view, nview, ndup, ncrash, nlose, cu>>

\* drain the replica's buffer after an append
RECURSIVE Drain(_, _, _, _, _)
Drain(l, c, nx, b, out) ==     \* returns [log, cnt, nxt, buf, oks (set of [tx, k, c] applied)]
    IF \E e \in b : e.k = nx /\ Len(l) = nx
    THEN LET e == CHOOSE e \in b : e.k = nx
         IN Drain(l \o Rep(Txs[e.tx], e.tx), c \o Rep(Txs[e.tx], 0), nx + Txs[e.tx],
                  {x \in b : x.k >= nx + Txs[e.tx]}, out \cup {e})
    ELSE [log |-> l, cnt |-> c, nxt |-> nx, buf |-> b, oks |-> out]

RecvReplicate(m, keep) ==
    /\ m \in msgs /\ m.kind = "rep" /\ up[m.to] /\ <<m.to, m.k>> \notin HoldBack
    /\ (keep => ndup < MaxDup) /\ ndup' = IF keep THEN ndup + 1 ELSE ndup
    /\ LET r == m.to
           reply(ok) == [kind |-> IF ok THEN "ok" ELSE "err", from |-> r, to |-> m.from, tx |-> m.tx, k |-> m.k, count |-> 0]
       IN
       IF m.from \notin view[r]                            \* InvalidSender
       THEN /\ msgs' = (IF keep THEN msgs ELSE msgs \ {m}) \cup {reply(FALSE)}
            /\ UNCHANGED <<log, cnt, nxt, buf>>
            /\ h' = Append(h, [op |-> "rep", tx |-> m.tx, from |-> m.from, to |-> r, k |-> m.k, res |-> "invalid_sender"])
       ELSE IF m.k < nxt[r] \/ (\E e \in buf[r] : e.k = m.k /\ e.tx # m.tx)
       THEN \* stale, or another transaction already buffered at that key
            /\ msgs' = (IF keep THEN msgs ELSE msgs \ {m}) \cup {reply(FALSE)}
            /\ UNCHANGED <<log, cnt, nxt, buf>>
            /\ h' = Append(h, [op |-> "rep", tx |-> m.tx, from |-> m.from, to |-> r, k |-> m.k,
                               res |-> IF m.k < nxt[r] THEN "stale" ELSE "conflict"])
       ELSE IF m.k > nxt[r]
       THEN /\ buf' = [buf EXCEPT ![r] = @ \cup {[tx |-> m.tx, k |-> m.k, c |-> m.from]}]
            /\ msgs' = (IF keep THEN msgs ELSE msgs \ {m})
            /\ UNCHANGED <<log, cnt, nxt>>
            /\ h' = Append(h, [op |-> "rep", tx |-> m.tx, from |-> m.from, to |-> r, k |-> m.k, res |-> "buffered"])
       ELSE IF Len(log[r]) # m.k                           \* the database's expected-sequence check
       THEN /\ msgs' = (IF keep THEN msgs ELSE msgs \ {m}) \cup {reply(FALSE)}
            /\ UNCHANGED <<log, cnt, nxt, buf>>
            /\ h' = Append(h, [op |-> "rep", tx |-> m.tx, from |-> m.from, to |-> r, k |-> m.k, res |-> "wrong_sequence"])
       ELSE LET nx == m.k + Txs[m.tx]
                d == Drain(log[r] \o Rep(Txs[m.tx], m.tx), cnt[r] \o Rep(Txs[m.tx], 0), nx,
                           {x \in buf[r] : x.k >= nx}, {})
                stale == {x \in buf[r] : x.k < nx /\ ~(x.k = m.k /\ x.tx = m.tx)}
            IN /\ log' = [log EXCEPT ![r] = d.log] /\ cnt' = [cnt EXCEPT ![r] = d.cnt]
               /\ nxt' = [nxt EXCEPT ![r] = d.nxt] /\ buf' = [buf EXCEPT ![r] = d.buf]
               /\ msgs' = (IF keep THEN msgs ELSE msgs \ {m}) \cup {reply(TRUE)}
                          \cup {[kind |-> "ok", from |-> r, to |-> e.c, tx |-> e.tx, k |-> e.k, count |-> 0] : e \in d.oks}
                          \cup {[kind |-> "err", from |-> r, to |-> e.c, tx |-> e.tx, k |-> e.k, count |-> 0] : e \in stale}
               /\ h' = Append(h, [op |-> "rep", tx |-> m.tx, from |-> m.from, to |-> r, k |-> m.k, res |-> "ok",
                                  drained |-> Cardinality(d.oks)])
    /\ UNCHANGED <<up, view, coord, acked, nview, ncrash, nlose, cu>>

RecvReply(m) ==
    /\ m \in msgs /\ m.kind \in {"ok", "err"} /\ up[m.to]
    /\ msgs' = (msgs \ {m}) \cup
        (IF coord[m.tx].c = m.to /\ m.kind = "ok" /\ coord[m.tx].phase \in {"replicating", "acked"} /\ m.from \notin coord[m.tx].ok
         THEN LET oks == coord[m.tx].ok \cup {m.from} IN
              IF coord[m.tx].phase = "replicating"
              THEN IF Cardinality(oks) >= Quorum
                   THEN {[kind |-> "conf", from |-> m.to, to |-> r, tx |-> m.tx, k |-> coord[m.tx].k, count |-> Cardinality(oks)]
                            : r \in oks \ {m.to}}
                   ELSE {}
              ELSE {[kind |-> "conf", from |-> m.to, to |-> m.from, tx |-> m.tx, k |-> coord[m.tx].k, count |-> coord[m.tx].count + 1]}
         ELSE {})
    /\ IF coord[m.tx].c = m.to /\ m.kind = "ok" /\ coord[m.tx].phase \in {"replicating", "acked"} /\ m.from \notin coord[m.tx].ok
       THEN LET oks == coord[m.tx].ok \cup {m.from}
                reach == coord[m.tx].phase = "replicating" /\ Cardinality(oks) >= Quorum
            IN /\ coord' = [coord EXCEPT ![m.tx].ok = oks,
                                         ![m.tx].phase = IF reach THEN "acked" ELSE @,
                                         ![m.tx].count = IF reach THEN Cardinality(oks)
                                                         ELSE IF coord[m.tx].phase = "acked" THEN @ + 1 ELSE @]
               /\ cnt' = IF reach THEN [cnt EXCEPT ![m.to] = SetCount(@, coord[m.tx].k, Txs[m.tx], Cardinality(oks))] ELSE cnt
               /\ acked' = IF reach THEN acked \cup {m.tx} ELSE acked
               /\ h' = Append(h, [op |-> "reply", tx |-> m.tx, from |-> m.from, to |-> m.to, ok |-> TRUE,
                                  acked |-> reach, count |-> IF reach THEN Cardinality(oks) ELSE 0])
       ELSE /\ UNCHANGED <<coord, cnt, acked>>
            /\ h' = Append(h, [op |-> "reply", tx |-> m.tx, from |-> m.from, to |-> m.to, ok |-> m.kind = "ok",
                               acked |-> FALSE, count |-> 0])
    /\ UNCHANGED <<log, nxt, buf, up, view, nview, ndup, ncrash, nlose, cu>>

GiveUp(t) ==
    /\ coord[t].phase = "replicating"
    /\ coord' = [coord EXCEPT ![t].phase = "failed"]
    /\ h' = Append(h, [op |-> "giveup", tx |-> t])
    /\ UNCHANGED <<log, cnt, nxt, buf, up, view, msgs, acked, nview, ndup, ncrash, nlose, cu>>

RecvConfirm(m, keep) ==
    /\ m \in msgs /\ m.kind = "conf" /\ up[m.to]
    /\ (keep => ndup < MaxDup) /\ ndup' = IF keep THEN ndup + 1 ELSE ndup
    /\ msgs' = (IF keep THEN msgs ELSE msgs \ {m})
    /\ IF HasAt(m.to, m.tx, m.k) \/ (~CheckConfirm /\ Len(log[m.to]) >= m.k + Txs[m.tx])
       THEN cnt' = [cnt EXCEPT ![m.to] = SetCount(@, m.k, Txs[m.tx], m.count)]
       ELSE UNCHANGED cnt
    /\ h' = Append(h, [op |-> "confirm", tx |-> m.tx, to |-> m.to, k |-> m.k, count |-> m.count,
                       applied |-> HasAt(m.to, m.tx, m.k)])
    /\ UNCHANGED <<log, nxt, buf, up, view, coord, acked, nview, ncrash, nlose, cu>>

\* ------------------------------------------------------------------ catch-up
(***************************************************************************)
(* A replica whose oldest buffered write lies above its next expected      *)
(* sequence asks that write's coordinator for the commits from its next    *)
(* sequence up to the one before the buffered key.  The coordinator serves *)
(* whole transactions that start at or after that sequence, below its own  *)
(* confirmed watermark.  The replica appends them one after the other, each*)
(* with the coordinator's count and with the stream versions the events    *)
(* have on the coordinator as exact expectations; the first refused commit *)
(* ends the attempt.  After each append the next expected sequence is the  *)
(* end of the replica's log and buffered writes below it are answered      *)
(* stale; when every commit went in, the buffer is drained.                *)
(*                                                                         *)
(* The replica's log may be ahead of its replicator (a node that           *)
(* coordinated writes itself does not advance its own replicator), and may *)
(* differ from the coordinator's.  PinSeq = TRUE is the design: a served   *)
(* commit is appended only at its own sequence.  PinSeq = FALSE is the     *)
(* deviation: it lands wherever the replica's log ends.                    *)
(***************************************************************************)
SCount(l, s) == Cardinality({i \in 1..Len(l) : TxStream[l[i]] = s})
CatchUp(r) ==
    /\ up[r] /\ buf[r] # {}
    /\ LET oldest == CHOOSE e \in buf[r] : \A x \in buf[r] : e.k <= x.k
           c == oldest.c
       IN /\ oldest.k > nxt[r] /\ up[c]
          /\ LET RECURSIVE Apply(_, _, _, _)
                 \* l, cs: the replica's log and counts; nx: its next sequence; i: position in the coordinator's log
                 Apply(l, cs, nx, i) ==
                    IF i < Watermark(c) /\ i < oldest.k /\ i < Len(log[c]) /\ HasAt(c, log[c][i + 1], i)
                    THEN LET t == log[c][i + 1]
                             versionOk == SCount(l, TxStream[t]) = SCount(SubSeq(log[c], 1, i), TxStream[t])
                             seqOk == ~PinSeq \/ Len(l) = i
                         IN IF versionOk /\ seqOk
                            \* the count served with a commit: the event's for a single event, the commit record's (never
                            \* rewritten after the append) for a multi-event transaction
                            THEN Apply(l \o Rep(Txs[t], t), cs \o Rep(Txs[t], IF Txs[t] = 1 THEN cnt[c][i + 1] ELSE cc[c][i + 1]),
                                       Len(l) + Txs[t], i + Txs[t])
                            ELSE [log |-> l, cnt |-> cs, nxt |-> nx, all |-> FALSE]
                    ELSE [log |-> l, cnt |-> cs, nxt |-> nx, all |-> TRUE]
                 got == Apply(log[r], cnt[r], nxt[r], nxt[r])
                 stale == {x \in buf[r] : x.k < got.nxt}
                 d == IF got.all THEN Drain(got.log, got.cnt, got.nxt, buf[r] \ stale, {})
                      ELSE [log |-> got.log, cnt |-> got.cnt, nxt |-> got.nxt, buf |-> buf[r] \ stale, oks |-> {}]
                 \* the coordinator has at least one commit to serve (an empty answer changes nothing and is not a step;
                 \* an answer whose first commit is refused changes nothing either but is recorded: the attempt is replayed)
                 served == nxt[r] < Watermark(c) /\ nxt[r] < Len(log[c]) /\ HasAt(c, log[c][nxt[r] + 1], nxt[r])
             IN /\ served
                /\ log' = [log EXCEPT ![r] = d.log] /\ cnt' = [cnt EXCEPT ![r] = d.cnt]
                /\ nxt' = [nxt EXCEPT ![r] = d.nxt] /\ buf' = [buf EXCEPT ![r] = d.buf]
                /\ msgs' = msgs \cup {[kind |-> "ok", from |-> r, to |-> e.c, tx |-> e.tx, k |-> e.k, count |-> 0] : e \in d.oks}
                                 \cup {[kind |-> "err", from |-> r, to |-> e.c, tx |-> e.tx, k |-> e.k, count |-> 0] : e \in stale}
                /\ h' = Append(h, [op |-> "catchup", r |-> r, from |-> c, len |-> Len(d.log), nxt |-> d.nxt,
                                   ahead |-> Len(log[r]) > nxt[r], refused |-> ~got.all, drained |-> Cardinality(d.oks), stale |-> Cardinality(stale)])
                /\ cu' = IF Len(got.log) = Len(log[r]) THEN "refused" ELSE IF Len(log[r]) > nxt[r] \/ cu = "ahead" THEN "ahead"
                         ELSE IF cu = "none" THEN "plain" ELSE cu
    /\ UNCHANGED <<up, view, coord, acked, nview, ndup, ncrash, nlose>>

\* ------------------------------------------------------------------ environment
Lose(m) == /\ m \in msgs /\ nlose < MaxLose /\ msgs' = msgs \ {m} /\ nlose' = nlose + 1
           /\ h' = Append(h, [op |-> "lose", kind |-> m.kind, tx |-> m.tx, to |-> m.to])
           /\ UNCHANGED <<log, cnt, nxt, buf, up, view, coord, acked, nview, ndup, ncrash, cu>>
ViewChange(n, v) ==
    /\ up[n] /\ nview < MaxView /\ n \in v /\ v # view[n]
    /\ view' = [view EXCEPT ![n] = v] /\ nview' = nview + 1
    /\ h' = Append(h, [op |-> "view", n |-> n, v |-> v])
    /\ UNCHANGED <<log, cnt, nxt, buf, up, msgs, coord, acked, ndup, ncrash, nlose, cu>>
Crash(n) ==
    /\ up[n] /\ ncrash < MaxCrash
    /\ up' = [up EXCEPT ![n] = FALSE] /\ ncrash' = ncrash + 1
    /\ buf' = [buf EXCEPT ![n] = {}]
    /\ coord' = [t \in TxId |-> IF coord[t].c = n /\ coord[t].phase = "replicating"
                                 THEN [coord[t] EXCEPT !.phase = "failed"] ELSE coord[t]]
    /\ h' = Append(h, [op |-> "crash", n |-> n])
    /\ UNCHANGED <<log, cnt, nxt, view, msgs, acked, nview, ndup, nlose, cu>>
Restart(n) ==
    /\ ~up[n]
    /\ up' = [up EXCEPT ![n] = TRUE] /\ nxt' = [nxt EXCEPT ![n] = Len(log[n])]
    /\ h' = Append(h, [op |-> "restart", n |-> n])
    /\ UNCHANGED <<log, cnt, buf, view, msgs, coord, acked, nview, ndup, ncrash, nlose, cu>>

\* whatever is appended anywhere records the count it was appended with
CCNext == cc' = [n \in Node |-> cc[n] \o SubSeq(cnt'[n], Len(cc[n]) + 1, Len(cnt'[n]))]
\* ConfirmTransaction on a replica rewrites the commit record as well as the event records (write/confirm.rs chains the
\* commit offset); the coordinator's own set_confirmations covers the event records only
CCConfirm(m) ==
    cc' = IF HasAt(m.to, m.tx, m.k) \/ (~CheckConfirm /\ Len(log[m.to]) >= m.k + Txs[m.tx])
          THEN [cc EXCEPT ![m.to] = SetCount(@, m.k, Txs[m.tx], m.count)] ELSE cc
ClientWriteC(t, c) == ClientWrite(t, c) /\ CCNext
RecvReplicateC(m, keep) == RecvReplicate(m, keep) /\ CCNext
RecvReplyC(m) == RecvReply(m) /\ CCNext
RecvConfirmC(m, keep) == RecvConfirm(m, keep) /\ CCConfirm(m)
GiveUpC(t) == GiveUp(t) /\ CCNext
CatchUpC(r) == CatchUp(r) /\ CCNext
LoseC(m) == Lose(m) /\ CCNext
ViewChangeC(n, v) == ViewChange(n, v) /\ CCNext
CrashC(n) == Crash(n) /\ CCNext
RestartC(n) == Restart(n) /\ CCNext
Next ==
    \/ \E t \in TxId, c \in Node : ClientWriteC(t, c)
    \/ \E m \in msgs : (\E keep \in BOOLEAN : RecvReplicateC(m, keep) \/ RecvConfirmC(m, keep)) \/ RecvReplyC(m) \/ LoseC(m)
    \/ \E t \in TxId : GiveUpC(t)
    \/ \E r \in Node : CatchUpC(r) \/ CrashC(r) \/ RestartC(r)
    \/ \E n \in Node : \E v \in SUBSET Node : ViewChangeC(n, v)
Spec == Init /\ [][Next]_vars

----------------------------------------------------------------------------
(* C10 *)
OneConfirmedPerSeq ==
    \A a, b \in Node : \A i \in 1..Len(log[a]) :
        (i <= Len(log[b]) /\ cnt[a][i] >= Quorum /\ cnt[b][i] >= Quorum) => log[a][i] = log[b][i]
\* the confirmed prefixes of two replicas agree event for event
ConfirmedPrefixAgree ==
    \A a, b \in Node : \A i \in 1..Watermark(a) : i <= Watermark(b) => log[a][i] = log[b][i]

(* C11 *)
Holders(t) == {n \in Node : HasAt(n, t, coord[t].k)}
AckedOnQuorum ==
    \A t \in acked : /\ Cardinality(Holders(t)) >= Quorum
                     /\ \A i \in 1..Txs[t] : cnt[coord[t].c][coord[t].k + i] >= Quorum
\* logs only grow, and what is acknowledged stays where it is with its quorum count
AckedStable ==
    [][/\ \A n \in Node : Len(log'[n]) >= Len(log[n]) /\ SubSeq(log'[n], 1, Len(log[n])) = log[n]
       /\ acked \subseteq acked']_vars
\* a count at or above the quorum is only ever found on a transaction that a quorum holds
QuorumCountMeansQuorumHeld ==
    \A n \in Node : \A i \in 1..Len(log[n]) :
        cnt[n][i] >= Quorum => Cardinality({m \in Node : i <= Len(log[m]) /\ log[m][i] = log[n][i]}) >= Quorum
CntShape == \A n \in Node : Len(cnt[n]) = Len(log[n])

View == <<log, cnt, nxt, buf, up, view, msgs, coord, acked, nview, ndup, ncrash, nlose, cu, cc>>
=============================================================================
