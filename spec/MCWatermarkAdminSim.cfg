SPECIFICATION Spec
CONSTANTS
  N = 4
  RF = 3
  MaxRep = 6
  Admins = TRUE
  KeepMax = TRUE
CONSTRAINT SimBound
INVARIANTS Sound Complete RestartNoRegress PersistDurable MemAboveW EmitSim
CHECK_DEADLOCK FALSE
