SPECIFICATION Spec
CONSTANTS
  Limit = 2
  MaxDeliveries = 5
  PurgeOnProgress = FALSE
VIEW View
CONSTRAINT Bound
INVARIANTS AppliedAtAssignedSeq AtMostOnce NextIsLogEnd NoPendingBelowNext AllAnsweredAtRest BufferBounded
PROPERTY RejectLeavesLogUnchanged
CHECK_DEADLOCK FALSE
