SPECIFICATION Spec
CONSTANTS
  Node = {1, 2, 3}
  RF = 3
  Txs <- TxDef2
  MaxView = 1
  MaxDup = 0
  MaxCrash = 1
  MaxLose = 0
  QuorumDelta = 1
  CheckConfirm = TRUE
  HoldBack = {}
  PinSeq = TRUE
  TxStream <- StreamDef
VIEW View
INVARIANTS CntShape OneConfirmedPerSeq ConfirmedPrefixAgree AckedOnQuorum QuorumCountMeansQuorumHeld
PROPERTY AckedStable
CHECK_DEADLOCK FALSE
