SPECIFICATION Spec
CONSTANTS
  N = 5
  Match <- MatchStream
  TxFirst <- TxFirst5
  Batch = 1
  RingCap = 2
  Window = 2
  StopAtUnconfirmed = FALSE
  BroadcastOnEveryAdvance = TRUE
INVARIANTS InOrderNoGap OnlyConfirmed WindowRespected CompleteAtRest
CHECK_DEADLOCK FALSE
