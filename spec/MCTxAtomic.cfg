SPECIFICATION Spec
CONSTANTS
  MaxEv = 3
  MaxTx = 3
  QueuePerEvent = FALSE
INVARIANTS NoPartialTx InFlightInvisible NoDanglingEntry Emit
CHECK_DEADLOCK FALSE
