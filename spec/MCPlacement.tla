---------------------------- MODULE MCPlacement ----------------------------
(* Model-checking instance for the static part of Topology (C13, C14).      *)
(* One TLC state per configuration; invariants are the properties; Emit     *)
(* tabulates the transcription so the harness can compare the real          *)
(* AppConfig / TopologyManager with it.                                     *)
EXTENDS Topology, TLC, Json
CONSTANTS MaxN, MaxB, MaxP, MaxR, EmitTables
VARIABLE cfg

Configs ==
    {c \in [N : 1..MaxN, B : 1..MaxB, P : 1..MaxP, rf : 1..MaxR] : c.P >= c.B}

Init == cfg \in Configs
Next == UNCHANGED cfg

SetToSeq(S) == \* ascending sequence of a set of naturals (small sets)
    LET F[T \in SUBSET S] ==
          IF T = {} THEN << >>
          ELSE LET m == CHOOSE x \in T : \A y \in T : x <= y
               IN <<m>> \o F[T \ {m}]
    IN F[S]

\* C13 over validated configurations (rf <= N, P >= N)
InvAgreement ==
    \A i \in 0..(cfg.N - 1) :
        Validated(cfg.N, i, cfg.B, cfg.P, cfg.rf) => Agreement(cfg.N, i, cfg.B, cfg.P, cfg.rf)

\* C14 over all configurations, including rf > N
InvReplicaCount == ReplicaCount(cfg.N, cfg.B, cfg.P, cfg.rf)
InvOwnsIffReplica == OwnsIffReplica(cfg.N, cfg.B, cfg.P, cfg.rf)

Emit ==
    EmitTables =>
    PrintT(<<"TABLE", ToJson(
        [N |-> cfg.N, B |-> cfg.B, P |-> cfg.P, rf |-> cfg.rf,
         nodes |-> [i \in 1..cfg.N |->
            [cb |-> SetToSeq(ConfigBuckets(i - 1, cfg.N, cfg.B, cfg.rf)),
             tp |-> SetToSeq(TopoPartitions(i - 1, cfg.N, cfg.B, cfg.P, cfg.rf))]],
         reps |-> [p \in 1..cfg.P |-> ReplicaIdx(p - 1, cfg.N, cfg.B, cfg.rf)]])>>)
=============================================================================
