SPECIFICATION FairSpec
CONSTANTS
  Tx = {t1, t2, t3}
  Cap = 2
  MaxSeg = 2
  WatchPerSegment = TRUE
  SwapInstallsOld = TRUE
  ResetOnRoll = FALSE
  Reader = {r1}
PROPERTY EveryAppendCompletes
CHECK_DEADLOCK FALSE
