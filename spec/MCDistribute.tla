---------------------------- MODULE MCDistribute ----------------------------
(* C24 on the closed form of distribute_partition.                          *)
(*  - DistinctWalk(n) for every partition count n in 1..MaxNAll             *)
(*    (distinctness of the walk does not depend on the start point);        *)
(*  - DistributeOK for every (n, p, rf) with n <= MaxNSmall, validating the *)
(*    reduction, and tabulated for the harness.                             *)
EXTENDS Topology, TLC, Json
CONSTANTS MaxNAll, MaxNSmall, EmitTables
VARIABLE n

Init == n \in 0..MaxNAll
Next == UNCHANGED n

InvDistinctWalk == n >= 1 => DistinctWalk(n)

InvSmall ==
    n <= MaxNSmall =>
        \A h \in 0..(2 * n + 1) : \A rf \in 0..(MaxRF + 1) : DistributeOK(h, n, rf)

Emit ==
    (EmitTables /\ n <= MaxNSmall) =>
    PrintT(<<"TABLE", ToJson([n |-> n, jump |-> Jump(n),
        rows |-> [h \in 1..(2 * n + 2) |-> Distribute(h - 1, n, MaxRF + 1)]])>>)
=============================================================================
