INIT Init
NEXT Next
CONSTANTS
  RebuildInvalid = TRUE
INVARIANTS Recovers Emit
CHECK_DEADLOCK FALSE
