----------------------------- MODULE Replicator -----------------------------
(***************************************************************************)
(* The per-partition replicator of a replica (C12): sierradb-cluster       *)
(* write/replicate.rs PartitionReplicatorActor over write/ordered_queue.rs *)
(* and write/timeout_ordered_queue.rs.                                     *)
(*                                                                         *)
(* A replicated transaction carries the partition sequence its coordinator *)
(* assigned (its key = expected next sequence) and n events.  A delivery   *)
(* whose key is the next expected sequence is appended at once (merged     *)
(* with a buffered duplicate); a later one is buffered (bounded buffer:    *)
(* the largest key is evicted for a smaller one, otherwise the newcomer is *)
(* refused); an earlier one is stale; a different transaction at an        *)
(* occupied key is a conflict.  After every append the buffer is drained   *)
(* while it holds the next key.  Buffered entries expire (their askers'    *)
(* reply channels are dropped), and a gap below the oldest buffered key is *)
(* filled from the coordinator's confirmed log (catch-up).                 *)
(*                                                                         *)
(* PurgeOnProgress = TRUE is the design: when an append moves the next     *)
(* expected sequence past buffered keys (a multi-event transaction spans   *)
(* them), those entries are answered StaleWrite and removed.  FALSE is the *)
(* deviation: they stay behind, below the next expected sequence.          *)
(***************************************************************************)
EXTENDS Naturals, Sequences, FiniteSets, TLC, Json
CONSTANTS Limit, MaxDeliveries, PurgeOnProgress

\* the transactions coordinators may send: id, key (first sequence), n events
Defs == { [id |-> 1, key |-> 0, n |-> 1],      \* A
          [id |-> 2, key |-> 1, n |-> 2],      \* B  (sequences 1, 2)
          [id |-> 3, key |-> 3, n |-> 1],      \* C
          [id |-> 4, key |-> 4, n |-> 1],      \* D
          [id |-> 8, key |-> 2, n |-> 1],      \* Y  inside B's range (another coordinator's view)
          [id |-> 9, key |-> 1, n |-> 1] }     \* X  conflicts with B at key 1
\* the coordinator's confirmed log, served to a catching-up replica
CoordLog == <<1, 2, 2, 3, 4>>
CoordW == 4                                     \* confirmed prefix of the coordinator (sequences 0..3)
DefOf(id) == CHOOSE d \in Defs : d.id = id

VARIABLES log,       \* ids, one per partition sequence
          next,      \* next expected sequence
          buf,       \* key -> [tx, askers]   (function with finite domain)
          replies,   \* delivery number -> reply
          nd, h
vars == <<log, next, buf, replies, nd, h>>

Init == log = << >> /\ next = 0 /\ buf = << >> /\ replies = << >> /\ nd = 0 /\ h = << >>

Keys(b) == DOMAIN b
MaxKey(b) == CHOOSE k \in Keys(b) : \A j \in Keys(b) : j <= k
MinKey(b) == CHOOSE k \in Keys(b) : \A j \in Keys(b) : k <= j
Drop(b, k) == [j \in Keys(b) \ {k} |-> b[j]]
Put(b, k, v) == [j \in Keys(b) \cup {k} |-> IF j = k THEN v ELSE b[j]]
Answer(r, ds, what) == [d \in DOMAIN r |-> IF d \in ds THEN what ELSE r[d]]
Rep(n, x) == [i \in 1..n |-> x]

\* append t for the askers ds, then drain the buffer: returns [log, next, buf, replies]
RECURSIVE WriteAndDrain(_, _, _, _, _, _)
WriteAndDrain(l, nx, b, r, t, ds) ==
    LET l1 == l \o Rep(t.n, t.id)
        nx1 == t.key + t.n
        r1 == Answer(r, ds, "ok")
        below == {k \in Keys(b) : k < nx1}
        b1 == IF PurgeOnProgress THEN [k \in Keys(b) \ below |-> b[k]] ELSE b
        r2 == IF PurgeOnProgress THEN Answer(r1, UNION {b[k].askers : k \in below}, "stale") ELSE r1
    IN IF nx1 \in Keys(b1)
       THEN WriteAndDrain(l1, nx1, Drop(b1, nx1), r2, DefOf(b1[nx1].tx), b1[nx1].askers)
       ELSE [log |-> l1, next |-> nx1, buf |-> b1, replies |-> r2]

Deliver(t) ==
    /\ nd < MaxDeliveries
    /\ LET d == nd + 1
           r0 == [x \in 1..d |-> IF x = d THEN "pending" ELSE replies[x]]
       IN
       /\ nd' = d
       /\ IF t.key < next
          THEN replies' = Answer(r0, {d}, "stale") /\ UNCHANGED <<log, next, buf>>
          ELSE IF t.key = next
          THEN IF t.key \in Keys(buf) /\ buf[t.key].tx # t.id
               THEN replies' = Answer(r0, {d}, "conflict") /\ UNCHANGED <<log, next, buf>>
               ELSE LET ds == {d} \cup (IF t.key \in Keys(buf) THEN buf[t.key].askers ELSE {})
                        b0 == IF t.key \in Keys(buf) THEN Drop(buf, t.key) ELSE buf
                        w == WriteAndDrain(log, next, b0, r0, t, ds)
                    IN log' = w.log /\ next' = w.next /\ buf' = w.buf /\ replies' = w.replies
          ELSE \* later than expected: buffer it
               IF Cardinality(Keys(buf)) >= Limit /\ MaxKey(buf) <= t.key
               THEN replies' = Answer(r0, {d}, "full") /\ UNCHANGED <<log, next, buf>>
               ELSE LET full == Cardinality(Keys(buf)) >= Limit
                        ev == IF full THEN MaxKey(buf) ELSE 0
                        b0 == IF full THEN Drop(buf, ev) ELSE buf
                        r1 == IF full THEN Answer(r0, buf[ev].askers, "evicted") ELSE r0
                    IN /\ UNCHANGED <<log, next>>
                       /\ IF t.key \in Keys(b0)
                          THEN IF b0[t.key].tx = t.id
                               THEN buf' = Put(b0, t.key, [tx |-> t.id, askers |-> b0[t.key].askers \cup {d}])
                                    /\ replies' = r1
                               \* (as in the code: the eviction has already happened when the conflict
                               \* is detected; the evicted write is discarded and its askers' reply
                               \* channels are dropped rather than answered BufferEvicted)
                               ELSE buf' = b0 /\ replies' = Answer(IF full THEN Answer(r0, buf[ev].askers, "dropped") ELSE r0,
                                                                   {d}, "conflict")
                          ELSE buf' = Put(b0, t.key, [tx |-> t.id, askers |-> {d}]) /\ replies' = r1
       /\ h' = Append(h, [op |-> "deliver", id |-> t.id, key |-> t.key, n |-> t.n, d |-> nd + 1])

\* every buffered entry is older than the buffer timeout: the entries are removed, the askers'
\* reply channels dropped
Expire ==
    /\ buf # << >>
    /\ replies' = Answer(replies, UNION {buf[k].askers : k \in Keys(buf)}, "dropped")
    /\ buf' = << >>
    /\ h' = Append(h, [op |-> "expire"])
    /\ UNCHANGED <<log, next, nd>>

\* gap below the oldest buffered key: ask the coordinator for next .. oldest-1, apply what it
\* serves (whole transactions that start below its watermark), then drain
RECURSIVE Apply(_, _, _, _, _)
Apply(l, nx, b, r, upto) ==
    IF nx < Len(CoordLog) /\ nx < CoordW /\ nx <= upto
    THEN LET t == DefOf(CoordLog[nx + 1])
             w == WriteAndDrain(l, nx, IF nx \in Keys(b) THEN Drop(b, nx) ELSE b, r, t,
                                IF nx \in Keys(b) THEN b[nx].askers ELSE {})
         IN IF t.key = nx THEN Apply(w.log, w.next, w.buf, w.replies, upto)
            ELSE [log |-> l, next |-> nx, buf |-> b, replies |-> r]
    ELSE [log |-> l, next |-> nx, buf |-> b, replies |-> r]

CatchUp ==
    /\ buf # << >> /\ MinKey(buf) > next
    /\ LET w == Apply(log, next, buf, replies, MinKey(buf) - 1) IN
       log' = w.log /\ next' = w.next /\ buf' = w.buf /\ replies' = w.replies
    /\ h' = Append(h, [op |-> "catchup"])
    /\ UNCHANGED nd

Next == (\E t \in Defs : Deliver(t)) \/ Expire \/ CatchUp
Spec == Init /\ [][Next]_vars

----------------------------------------------------------------------------
(* C12 *)
\* a transaction sits exactly at the sequences its coordinator assigned
AppliedAtAssignedSeq ==
    \A i \in 1..Len(log) : LET t == DefOf(log[i]) IN i - 1 >= t.key /\ i - 1 < t.key + t.n
\* ... and at most once
AtMostOnce == \A i, j \in 1..Len(log) : log[i] = log[j] => (j - i < DefOf(log[i]).n /\ i - j < DefOf(log[i]).n)
NextIsLogEnd == next = Len(log)
\* nothing stays buffered below the next expected sequence
NoPendingBelowNext == \A k \in Keys(buf) : k >= next
\* a rejected delivery leaves the log alone
RejectLeavesLogUnchanged ==
    [][(nd' = nd + 1 /\ replies'[nd'] \in {"stale", "conflict", "full"}) => log' = log]_vars
\* every delivery is answered once nothing is buffered any more
AllAnsweredAtRest == buf = << >> => \A d \in 1..nd : replies[d] # "pending"
\* the bound of the buffer
BufferBounded == Cardinality(Keys(buf)) <= Limit

View == <<log, next, buf, replies, nd>>
Bound == nd <= MaxDeliveries /\ Len(h) <= MaxDeliveries + 3
Emit == (nd = MaxDeliveries /\ buf = << >>) =>
          PrintT(<<"REPLAY", ToJson([steps |-> h, log |-> log, replies |-> replies, limit |-> Limit])>>)
=============================================================================
