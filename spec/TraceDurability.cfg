SPECIFICATION TraceSpec
CONSTANTS
  Tx <- TraceTx
  Cap = 1000000
  MaxSeg = 80
  Reader = {1}
  WatchPerSegment = TRUE
  SwapInstallsOld = TRUE
  ResetOnRoll = FALSE
  NoRoom <- Always
  HasRoom <- Always
INVARIANTS TypeOK AckedDurable AckedPublished PublishedFindable
POSTCONDITION TraceAccepted
CHECK_DEADLOCK FALSE
