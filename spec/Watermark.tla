----------------------------- MODULE Watermark -----------------------------
(***************************************************************************)
(* The confirmed watermark of one partition (C08): sierradb-cluster        *)
(* confirmation.rs PartitionConfirmationState::update_confirmation,        *)
(* BucketConfirmationManager::{persist_bucket_state, load_bucket_state,    *)
(* initialize}.                                                            *)
(*                                                                         *)
(* Versions 1..N are the events of the partition (version = partition      *)
(* sequence + 1).  Confirmation reports (v, c) arrive in any order, with   *)
(* duplicates and with stale lower counts; target[v] is the count the      *)
(* cluster finally reaches for v.  The on-disk count of an event is        *)
(* written before its report is delivered (write path: set_confirmations,  *)
(* then UpdateConfirmation), so disk[v] is the highest count reported.     *)
(*                                                                         *)
(* Persistence writes a temp file, removes the previous backup, renames    *)
(* current -> previous and temp -> current; a crash may fall between any   *)
(* two steps.  A restart loads current, else previous, else nothing, and   *)
(* then re-reports the on-disk counts of every event above the loaded      *)
(* watermark, in order.                                                    *)
(*                                                                         *)
(* KeepMax = TRUE is the design (a stale lower count does not replace a    *)
(* higher one); FALSE is the deviation (last report wins).                 *)
(***************************************************************************)
EXTENDS Naturals, Sequences, FiniteSets, TLC, Json
CONSTANTS N, RF, MaxRep, KeepMax, Admins

Quorum == (RF \div 2) + 1
Vers == 1..N
None == [w |-> 0, mem |-> [v \in Vers |-> 0], some |-> FALSE]

VARIABLES target,      \* target[v] : final confirmation count of version v
          hi,          \* hi[v]     : highest count reported so far (= on-disk count)
          mem,         \* mem[v]    : count held in the in-memory unconfirmed map (0 = no entry)
          W,           \* confirmed watermark
          cur, prev, temp,   \* state files: None or [w, mem, some |-> TRUE]
          ppc,         \* persistence step in progress: 0 (idle) .. 3
          up,          \* process running?
          wBefore,     \* watermark just before the last crash (for RestartNoRegress)
          lastPersisted,  \* ghost: watermark in the state file of the last completed persistence round
          nrep, h,
          stale,       \* ghost: some report carried a lower count than an earlier one for a version above the watermark
          forced,      \* ghost: versions an administrator moved the watermark over (admin_force_watermark, admin_skip_event)
          adminRound,  \* an admin operation advanced the watermark and its forced persistence round is not complete
          wPre,        \* watermark before that admin operation
          dropped      \* ghost: admin_skip_event removed the count of a version that is not the next one
vars == <<target, hi, mem, W, cur, prev, temp, ppc, up, wBefore, lastPersisted, nrep, h, stale, forced, adminRound, wPre, dropped>>
AdminVars == <<forced, adminRound, wPre, dropped>>

Max(a, b) == IF a >= b THEN a ELSE b
\* longest prefix of versions whose count f[v] reaches the quorum
RECURSIVE Lqp(_, _)
Lqp(f, v) == IF v <= N /\ f[v] >= Quorum THEN Lqp(f, v + 1) ELSE v - 1

Init ==
    /\ target \in [Vers -> 0..RF]
    /\ hi = [v \in Vers |-> 0] /\ mem = [v \in Vers |-> 0] /\ W = 0
    /\ cur = None /\ prev = None /\ temp = None /\ ppc = 0 /\ up = TRUE /\ wBefore = 0
    /\ nrep = 0 /\ h = << >> /\ stale = FALSE /\ lastPersisted = 0
    /\ forced = {} /\ adminRound = FALSE /\ wPre = 0 /\ dropped = FALSE

\* update_confirmation(v, c) on state (m, w): the new (m, w)
Update(m, w, v, c) ==
    IF v <= w THEN [mem |-> m, w |-> w]
    ELSE LET m1 == [m EXCEPT ![v] = IF KeepMax THEN Max(@, c) ELSE c]
             w1 == Lqp([x \in Vers |-> IF x <= w THEN Quorum ELSE m1[x]], w + 1)
         IN [mem |-> [x \in Vers |-> IF x <= w1 THEN 0 ELSE m1[x]], w |-> w1]

Report(v, c) ==
    /\ up /\ ppc = 0 /\ ~adminRound /\ nrep < MaxRep /\ c <= target[v]
    /\ hi' = [hi EXCEPT ![v] = Max(@, c)]
    /\ LET r == Update(mem, W, v, c) IN mem' = r.mem /\ W' = r.w
    /\ nrep' = nrep + 1
    /\ h' = Append(h, [op |-> "report", v |-> v, c |-> c, w |-> W'])
    /\ stale' = (stale \/ (v > W /\ c < hi[v]))
    /\ UNCHANGED <<target, cur, prev, temp, ppc, up, wBefore, lastPersisted>> /\ UNCHANGED AdminVars

Snap == [w |-> W, mem |-> mem, some |-> TRUE]
PersistStep ==
    /\ up
    /\ CASE ppc = 0 -> temp' = Snap /\ UNCHANGED <<cur, prev>>                   \* temp written + fsynced
         [] ppc = 1 -> prev' = (IF cur.some THEN None ELSE prev) /\ UNCHANGED <<cur, temp>>   \* remove previous
         [] ppc = 2 -> (IF cur.some THEN prev' = cur /\ cur' = None ELSE UNCHANGED <<cur, prev>>) /\ UNCHANGED temp
         [] ppc = 3 -> cur' = temp /\ temp' = None /\ UNCHANGED prev
    /\ ppc' = (ppc + 1) % 4
    /\ lastPersisted' = IF ppc = 3 THEN temp.w ELSE lastPersisted
    /\ h' = Append(h, [op |-> "persist", step |-> ppc + 1, admin |-> adminRound])
    /\ adminRound' = (adminRound /\ ppc # 3)
    /\ UNCHANGED <<target, hi, mem, W, up, wBefore, nrep, stale, forced, wPre, dropped>>

Crash ==
    \* an admin operation that has not finished persisting has not returned: its advance may be lost
    /\ up /\ up' = FALSE /\ wBefore' = (IF adminRound THEN wPre ELSE W)
    /\ mem' = [v \in Vers |-> 0] /\ W' = 0 /\ ppc' = 0 /\ adminRound' = FALSE
    /\ h' = Append(h, [op |-> "crash", after_step |-> ppc])
    /\ UNCHANGED <<target, hi, cur, prev, temp, nrep, stale, lastPersisted, forced, wPre, dropped>>

\* re-report the on-disk counts of the versions above the loaded watermark, in order
RECURSIVE Reinit(_, _, _)
Reinit(m, w, v) == IF v > N THEN [mem |-> m, w |-> w]
                   ELSE LET r == Update(m, w, v, hi[v]) IN Reinit(r.mem, r.w, v + 1)
Loaded == IF cur.some THEN cur ELSE IF prev.some THEN prev ELSE None
Restart ==
    /\ ~up /\ up' = TRUE
    /\ LET r == Reinit(Loaded.mem, Loaded.w, Loaded.w + 1)
       IN mem' = r.mem /\ W' = r.w
    \* lw: what the state files alone give back (a restart against a database without events)
    /\ h' = Append(h, [op |-> "restart", w |-> W', lw |-> Loaded.w])
    /\ UNCHANGED <<target, hi, cur, prev, temp, ppc, wBefore, nrep, stale, lastPersisted>> /\ UNCHANGED AdminVars

(***************************************************************************)
(* Administrative recovery operations (confirmation.rs admin_force_watermark, *)
(* admin_skip_event).  Both only ever advance the watermark, and when they  *)
(* do they persist at once (the persistence round follows before anything   *)
(* else; a crash inside it may lose the advance).  Admins                   *)
(* constant: whether the model takes these steps.                           *)
(***************************************************************************)
AdminForce(w) ==
    /\ Admins /\ up /\ ppc = 0 /\ ~adminRound /\ nrep < MaxRep
    /\ IF w > W
       THEN /\ W' = w /\ mem' = [v \in Vers |-> IF v <= w THEN 0 ELSE mem[v]]
            /\ forced' = forced \cup ((W + 1)..w) /\ adminRound' = TRUE /\ wPre' = W
       ELSE UNCHANGED <<W, mem, forced, adminRound, wPre>>
    /\ nrep' = nrep + 1
    /\ h' = Append(h, [op |-> "force", to |-> w, w |-> W'])
    /\ UNCHANGED <<target, hi, cur, prev, temp, ppc, up, wBefore, lastPersisted, stale, dropped>>
AdminSkip(v) ==
    /\ Admins /\ up /\ ppc = 0 /\ ~adminRound /\ nrep < MaxRep
    /\ IF v <= W
       THEN UNCHANGED <<W, mem, forced, adminRound, wPre, dropped>>
       ELSE LET m1 == [mem EXCEPT ![v] = 0]
                w1 == Lqp([x \in Vers |-> IF x <= W \/ x = v THEN Quorum ELSE m1[x]], W + 1)
            IN IF w1 > W
               THEN /\ W' = w1 /\ mem' = [x \in Vers |-> IF x <= w1 THEN 0 ELSE m1[x]]
                    /\ forced' = forced \cup {v} /\ adminRound' = TRUE /\ wPre' = W /\ UNCHANGED dropped
               ELSE /\ mem' = m1 /\ dropped' = (dropped \/ mem[v] > 0) /\ UNCHANGED <<W, forced, adminRound, wPre>>
    /\ nrep' = nrep + 1
    /\ h' = Append(h, [op |-> "skip", v |-> v, w |-> W'])
    /\ UNCHANGED <<target, hi, cur, prev, temp, ppc, up, wBefore, lastPersisted, stale>>

Next == (\E v \in Vers, c \in 0..RF : Report(v, c)) \/ PersistStep \/ Crash \/ Restart
        \/ (\E w \in Vers : AdminForce(w)) \/ (\E v \in Vers : AdminSkip(v))
Spec == Init /\ [][Next]_vars

----------------------------------------------------------------------------
(* C08 *)
Monotone == [][(up /\ up') => W' >= W]_vars
\* versions an administrator moved the watermark over count as confirmed
WithForced(f) == [v \in Vers |-> IF v \in forced THEN Quorum ELSE f[v]]
Sound == W <= Lqp(WithForced(hi), 1)
\* (after an administrative intervention completeness is not claimed: admin_force_watermark does not go on over
\* later versions that already hold a quorum, and admin_skip_event of a version that is not the next one drops its
\* count; both heal with the next report above the watermark or a restart)
Complete == (up /\ forced = {} /\ ~dropped /\ \A v \in Vers : hi[v] = target[v]) => W = Lqp(target, 1)
RestartNoRegress == up => W >= wBefore
\* whatever step the persistence sequence is interrupted at, the state files still give back at
\* least the last completely persisted watermark
PersistDurable == Loaded.w >= lastPersisted
\* the in-memory map holds nothing at or below the watermark
MemAboveW == \A v \in Vers : v <= W => mem[v] = 0

View == <<target, hi, mem, W, cur, prev, temp, ppc, up, wBefore, lastPersisted, nrep, stale, forced, adminRound, wPre, dropped>>
Bound == nrep <= MaxRep /\ Len(h) <= MaxRep + 10
EmitSim == (Len(h) = MaxRep + 8) => PrintT(<<"REPLAY", ToJson([steps |-> h, target |-> target, rf |-> RF, n |-> N])>>)
SimBound == Len(h) <= MaxRep + 8
\* histories in which a stale lower count was delivered and every final count has arrived
EmitStale == (stale /\ up /\ ppc = 0 /\ (\A v \in Vers : hi[v] = target[v]) /\ W > 0) =>
           PrintT(<<"REPLAY", ToJson([steps |-> h, target |-> target, rf |-> RF, n |-> N])>>)
Emit == (nrep = MaxRep /\ up /\ ppc = 0) =>
           PrintT(<<"REPLAY", ToJson([steps |-> h, target |-> target, rf |-> RF, n |-> N])>>)
=============================================================================
