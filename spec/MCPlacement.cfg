INIT Init
NEXT Next
CONSTANTS
  MaxN = 4
  MaxB = 5
  MaxP = 7
  MaxR = 5
  EmitTables = TRUE
INVARIANTS InvAgreement InvReplicaCount InvOwnsIffReplica Emit
CHECK_DEADLOCK FALSE
