INIT HInit
NEXT HNext
CONSTANTS
  Streams = {"s1", "s2", "s3"}
  Keys = {"k1", "k2"}
  NPart = 2
  NB = 1
  UMax = 1000000
  MaxEv = 2
  MaxTx = 4
  MaxV = 1
  EmitAt = 99
VIEW View
CONSTRAINT HBound
INVARIANTS Inv
CHECK_DEADLOCK FALSE
