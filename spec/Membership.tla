----------------------------- MODULE Membership -----------------------------
(***************************************************************************)
(* The membership machine of sierradb-topology's TopologyManager, one      *)
(* action per public handler, as the libp2p behaviour drives it:           *)
(*                                                                         *)
(*   Connect(n,a,e)     on_node_connected  (OwnershipRequest from a)       *)
(*   Heartbeat(n,a,e)   on_heartbeat                                       *)
(*   Disconnect(n,a)    on_node_disconnected (connection closed)           *)
(*   Timeouts(n,S)      check_heartbeat_timeouts, S = peers whose last     *)
(*                      heartbeat is older than the timeout                *)
(*   Response(n,m)      handle_ownership_response, m any response ever     *)
(*                      broadcast (gossip: every node may see it, late,    *)
(*                      more than once)                                    *)
(*   Restart(a)         the process of a restarts: new alive_since, fresh  *)
(*                      manager                                            *)
(*                                                                         *)
(* Peers are 1..NP; peer a is configured with node index a-1.  A peer's    *)
(* alive_since is its epoch (epochs are ordered like start times).         *)
(***************************************************************************)
EXTENDS Topology, TLC
CONSTANTS NP,          \* number of peers = configured node count
          NB, NPart, RF,
          MaxEpoch, MaxResp

Peer == 1..NP
None == 0 - 1
Idx(a) == a - 1

VARIABLES
    epoch,      \* epoch[a]   current alive_since of peer a's process
    active,     \* active[n]  : [Peer -> None or epoch]  n's active_nodes (value = alive_since)
    known,      \* known[n]   : SUBSET Peer               n's cluster_nodes
    hb,         \* hb[n]      : SUBSET Peer               keys of n's node_heartbeats
    reps,       \* reps[n]    : [0..NPart-1 -> SUBSET Peer]  n's partition_replicas (as sets)
    resps       \* set of ownership responses broadcast so far

vars == <<epoch, active, known, hb, reps, resps>>

Act(n) == {a \in Peer : active[n][a] # None}

\* recalculate_partition_assignments with active map act and refs kn
Recalc(act, kn) ==
    [p \in 0..(NPart - 1) |->
        {a \in Peer : act[a] # None /\ a \in kn
                      /\ Idx(a) \in Range(ReplicaIdx(p, NP, NB, RF))}]

FreshActive(a, e) == [b \in Peer |-> IF b = a THEN e ELSE None]

Init ==
    /\ epoch = [a \in Peer |-> 1]
    /\ active = [n \in Peer |-> FreshActive(n, 1)]
    /\ known = [n \in Peer |-> {n}]
    /\ hb = [n \in Peer |-> {n}]
    /\ reps = [n \in Peer |-> Recalc(FreshActive(n, 1), {n})]
    /\ resps = {}

\* OwnershipRequest from a (sent when a's epoch was e) reaches n
Connect(n, a, e) ==
    /\ a # n /\ e \in 1..epoch[a]
    /\ LET act == [active[n] EXCEPT ![a] = e]
           kn == known[n] \cup {a}
           rp == Recalc(act, kn)
       IN /\ active' = [active EXCEPT ![n] = act]
          /\ known' = [known EXCEPT ![n] = kn]
          /\ hb' = [hb EXCEPT ![n] = @ \cup {a}]
          /\ reps' = [reps EXCEPT ![n] = rp]
          /\ resps' = resps \cup {[reps |-> rp, active |-> act]}
    /\ UNCHANGED epoch

\* Heartbeat from a (sent in epoch e) reaches n
Heartbeat(n, a, e) ==
    /\ a # n /\ e \in 1..epoch[a]
    /\ hb' = [hb EXCEPT ![n] = @ \cup {a}]
    /\ known' = [known EXCEPT ![n] = @ \cup {a}]
    /\ IF active[n][a] = None
          THEN /\ active' = [active EXCEPT ![n][a] = e]
               /\ reps' = [reps EXCEPT ![n] = Recalc(active'[n], known'[n])]
          ELSE UNCHANGED <<active, reps>>   \* same index: alive_since is not refreshed
    /\ UNCHANGED <<epoch, resps>>

Disconnect(n, a) ==
    /\ a # n
    /\ active' = [active EXCEPT ![n][a] = None]
    /\ hb' = [hb EXCEPT ![n] = @ \ {a}]
    /\ known' = [known EXCEPT ![n] = @ \ {a}]
    /\ reps' = [reps EXCEPT ![n] = Recalc(active'[n], known'[n])]
    /\ UNCHANGED <<epoch, resps>>

Timeouts(n, S) ==
    /\ S # {} /\ S \subseteq (hb[n] \ {n})
    /\ LET out == S \cap Act(n) IN
       IF out = {} THEN UNCHANGED <<active, known, reps>>
       ELSE /\ active' = [active EXCEPT ![n] = [b \in Peer |-> IF b \in out THEN None ELSE @[b]]]
            /\ known' = [known EXCEPT ![n] = @ \ out]
            /\ reps' = [reps EXCEPT ![n] = Recalc(active'[n], known'[n])]
    /\ UNCHANGED <<epoch, hb, resps>>

\* RecalcAfterResponse: handle_ownership_response re-derives the replica sets from the
\* merged membership instead of keeping the sender's copy.
Response(n, m) ==
    /\ m \in resps
    /\ LET act == [m.active EXCEPT ![n] = epoch[n]]
           kn == known[n] \cup UNION {m.reps[p] : p \in DOMAIN m.reps}
       IN /\ active' = [active EXCEPT ![n] = act]
          /\ known' = [known EXCEPT ![n] = kn]
          /\ hb' = [hb EXCEPT ![n] = @ \cup {a \in Peer : act[a] # None}]
          /\ reps' = [reps EXCEPT ![n] = Recalc(act, kn)]
    /\ UNCHANGED <<epoch, resps>>

Restart(a) ==
    /\ epoch[a] < MaxEpoch
    /\ epoch' = [epoch EXCEPT ![a] = @ + 1]
    /\ active' = [active EXCEPT ![a] = FreshActive(a, epoch'[a])]
    /\ known' = [known EXCEPT ![a] = {a}]
    /\ hb' = [hb EXCEPT ![a] = {a}]
    /\ reps' = [reps EXCEPT ![a] = Recalc(active'[a], {a})]
    /\ UNCHANGED resps

Next ==
    \/ \E n, a \in Peer : \E e \in 1..MaxEpoch : Connect(n, a, e)
    \/ \E n, a \in Peer : \E e \in 1..MaxEpoch : Heartbeat(n, a, e)
    \/ \E n, a \in Peer : Disconnect(n, a)
    \/ \E n \in Peer : \E S \in SUBSET Peer : Timeouts(n, S)
    \/ \E n \in Peer : \E m \in resps : Response(n, m)
    \/ \E a \in Peer : Restart(a)

Spec == Init /\ [][Next]_vars

Bound == Cardinality(resps) <= MaxResp

(***************************************************************************)
(* C14 (dynamic part).  Two nodes that know the same live members (same    *)
(* active map: peers and their alive_since) hold the same replica sets,    *)
(* hence the same coordinator order (available replicas sorted by          *)
(* (alive_since, ref), a function of those two).                           *)
(***************************************************************************)
SameViewSameReplicas ==
    \A a, b \in Peer : active[a] = active[b] => reps[a] = reps[b]

\* coordinator order of n for partition p: available replicas sorted by (alive_since, ref)
Avail(n, p) == {a \in reps[n][p] : active[n][a] # None}
Before(n, a, b) == active[n][a] < active[n][b] \/ (active[n][a] = active[n][b] /\ a < b)
SameOrder ==
    \A a, b \in Peer : active[a] = active[b] =>
        \A p \in 0..(NPart - 1) :
            /\ Avail(a, p) = Avail(b, p)
            /\ \A x, y \in Avail(a, p) : Before(a, x, y) <=> Before(b, x, y)

\* a node always regards itself as live and as replica of the partitions it is assigned
SelfKnown ==
    \A n \in Peer :
        /\ active[n][n] = epoch[n] /\ n \in known[n]
        /\ \A p \in 0..(NPart - 1) :
              (Idx(n) \in Range(ReplicaIdx(p, NP, NB, RF))) => n \in reps[n][p]

TypeOK ==
    /\ epoch \in [Peer -> 1..MaxEpoch]
    /\ active \in [Peer -> [Peer -> {None} \cup (1..MaxEpoch)]]
    /\ known \in [Peer -> SUBSET Peer]
    /\ hb \in [Peer -> SUBSET Peer]
=============================================================================
