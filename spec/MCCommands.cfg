INIT Init
NEXT Next
INVARIANTS KeywordsNotPositional Emit
CHECK_DEADLOCK FALSE
