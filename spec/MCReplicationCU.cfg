SPECIFICATION Spec
CONSTANTS
  Node = {1, 2, 3}
  RF = 3
  Txs <- TxDef3
  MaxView = 2
  MaxDup = 0
  MaxCrash = 0
  MaxLose = 0
  QuorumDelta = 0
  CheckConfirm = TRUE
  HoldBack <- HoldDef
  PinSeq = TRUE
  TxStream <- StreamDef
VIEW View
INVARIANTS EmitCU CntShape OneConfirmedPerSeq ConfirmedPrefixAgree AckedOnQuorum QuorumCountMeansQuorumHeld
PROPERTY AckedStable
CHECK_DEADLOCK FALSE
