------------------------------- MODULE SegLog -------------------------------
(***************************************************************************)
(* seglog: one segment file, one Writer, long-lived Readers sharing the    *)
(* writer's FlushedOffset (crates/seglog/src/{write,read}.rs).             *)
(*                                                                         *)
(* The file is an array of Size cells.  A cell stands for a run of bytes;  *)
(* a record occupies n >= 1 consecutive cells, the first holding the       *)
(* record head (length, CRC) and the user header, so a record is intact at *)
(* offset o iff cells o..o+n-1 carry the same record id with part numbers  *)
(* 1..n -- this is what the CRC decides in the code.  A zero cell is a     *)
(* run of zero bytes (fallocate'd space or a truncation marker).           *)
(*                                                                         *)
(* Writer actions (one per public method):                                 *)
(*   WAppend(n,c) Writer::append      record into the BufWriter            *)
(*   FlushW       Writer::flush_writer  BufWriter -> file                  *)
(*   Sync         Writer::sync        flush + fsync + publish flushed      *)
(*   SetLen(o)    Writer::set_len     sync, truncate back to boundary o,   *)
(*                                    write marker, next append lands at o *)
(*   Toggle       enable/disable_compression                               *)
(*   Reopen       drop writer + Writer::open: scan to the last intact      *)
(*                record                                                   *)
(* Reader actions:                                                         *)
(*   ReadRandom(r,o)  read_record(o, Random)                               *)
(*   ReadSeq(r,o)     read_record(o, Sequential) through the read-ahead    *)
(*                    buffer                                               *)
(*   Iter(r,o)        iter(o) .. next_record until None                    *)
(*   Replace(r,o)     replace_header at o (new header version)             *)
(***************************************************************************)
EXTENDS Naturals, Sequences, FiniteSets, TLC
CONSTANTS Size,        \* cells in the segment
          MaxRec,      \* cells per record: 1..MaxRec
          Reader,      \* set of readers
          MaxId        \* bound on record ids (model checking only)

Zero == [id |-> 0, k |-> 0, n |-> 0, hv |-> 0, c |-> FALSE]
Part(id, k, n, hv, c) == [id |-> id, k |-> k, n |-> n, hv |-> hv, c |-> c]

VARIABLES
    disk,       \* [0..Size-1 -> cell]      what the OS file holds
    pend,       \* sequence of cells in the BufWriter, not yet written
    ppos,       \* file position where pend[1] will be written
    wofs,       \* Writer::write_offset
    flushed,    \* FlushedOffset shared with readers
    dirty,      \* Writer::dirty
    comp,       \* Writer::compression_enabled
    nextId,     \* next record id
    starts,     \* offsets at which the records of the logical log start (all < wofs)
    cache,      \* cache[r] : [lo, hi, snap] read-ahead buffer of reader r (hi = lo: empty)
    last        \* last observable result (operation log entry), for replay / trace checking

vars == <<disk, pend, ppos, wofs, flushed, dirty, comp, nextId, starts, cache, last>>

Offsets == 0..Size
NoCache == [lo |-> 0, hi |-> 0, snap |-> << >>]

Init ==
    /\ disk = [o \in 0..(Size - 1) |-> Zero]
    /\ pend = << >> /\ ppos = 0 /\ wofs = 0 /\ flushed = 0 /\ dirty = FALSE
    /\ comp = FALSE /\ nextId = 1 /\ starts = {}
    /\ cache = [r \in Reader |-> NoCache]
    /\ last = [op |-> "init"]

----------------------------------------------------------------------------
\* what a decoder finds at offset o of a cell array f (a function on 0..Len-1 given as
\* operator Cell(i)), limited to `lim` (the flushed offset the reader loaded)
IntactAt(cellAt(_), o, lim) ==
    /\ o < lim
    /\ cellAt(o).id # 0 /\ cellAt(o).k = 1
    /\ o + cellAt(o).n <= lim
    /\ \A j \in 0..(cellAt(o).n - 1) :
          /\ cellAt(o + j).id = cellAt(o).id
          /\ cellAt(o + j).k = j + 1
          /\ cellAt(o + j).n = cellAt(o).n

\* result classes of a read
Ok(cellAt(_), o) == [st |-> "ok", id |-> cellAt(o).id, n |-> cellAt(o).n,
                     hv |-> cellAt(o).hv, c |-> cellAt(o).c]
Fail == [st |-> "none"]          \* OutOfBounds / TruncationMarker / Crc mismatch

DiskCell(o) == disk[o]
RandomResult(o) ==
    IF IntactAt(DiskCell, o, flushed) THEN Ok(DiskCell, o) ELSE Fail

\* a sequential read is served from the read-ahead buffer when the requested range lies
\* inside it; the buffer only ever holds bytes that were below the flushed offset when it
\* was filled, and is dropped when the file was truncated below its end
CacheCovers(r, o) ==
    /\ cache[r].hi > cache[r].lo
    /\ o >= cache[r].lo /\ o < cache[r].hi
    /\ cache[r].hi <= flushed

\* the logical log: records intact on disk from 0 up to flushed
RECURSIVE LogFrom(_)
LogFrom(o) ==
    IF IntactAt(DiskCell, o, flushed)
    THEN <<[o |-> o, id |-> disk[o].id, n |-> disk[o].n, hv |-> disk[o].hv, c |-> disk[o].c]>>
         \o LogFrom(o + disk[o].n)
    ELSE << >>

Boundaries == {0} \cup {e.o + e.n : e \in {LogFrom(0)[i] : i \in DOMAIN LogFrom(0)}}

----------------------------------------------------------------------------
\* Writer

WAppend(n, c) ==
    /\ wofs + n <= Size /\ nextId <= MaxId
    /\ pend' = pend \o [k \in 1..n |-> Part(nextId, k, n, 1, c /\ comp)]
    /\ wofs' = wofs + n
    /\ nextId' = nextId + 1
    /\ dirty' = TRUE
    /\ starts' = starts \cup {wofs}
    /\ last' = [op |-> "append", n |-> n, c |-> c, id |-> nextId, at |-> wofs]
    /\ UNCHANGED <<disk, ppos, flushed, comp, cache>>

AppendFull(n) ==       \* SegmentFull: nothing changes
    /\ wofs + n > Size
    /\ last' = [op |-> "append_full", n |-> n]
    /\ UNCHANGED <<disk, pend, ppos, wofs, flushed, dirty, comp, nextId, starts, cache>>

Written == [o \in 0..(Size - 1) |->
              IF o >= ppos /\ o < ppos + Len(pend) THEN pend[o - ppos + 1] ELSE disk[o]]

FlushW ==
    /\ disk' = Written
    /\ ppos' = ppos + Len(pend)
    /\ pend' = << >>
    /\ last' = [op |-> "flush"]
    /\ UNCHANGED <<wofs, flushed, dirty, comp, nextId, starts, cache>>

Sync ==
    /\ IF dirty
       THEN /\ disk' = Written /\ ppos' = ppos + Len(pend) /\ pend' = << >>
            /\ flushed' = wofs /\ dirty' = FALSE
       ELSE UNCHANGED <<disk, ppos, pend, flushed, dirty>>
    /\ last' = [op |-> "sync", ret |-> wofs]
    /\ UNCHANGED <<wofs, comp, nextId, starts, cache>>

\* set_len(o): o a record boundary strictly below wofs.  Everything buffered is written
\* first (sync), then the log ends at o: marker at o, both offsets and the write position
\* move back to o.  The code only writes an 8-byte marker and leaves the truncated bytes
\* behind it; whether such leftovers line up again with later, differently sized records
\* depends on byte lengths this model does not have, so the truncated tail is modelled
\* (and, in the replay harness, made) all zeros.
SetLen(o) ==
    /\ o \in starts
    /\ disk' = [x \in 0..(Size - 1) |-> IF x >= o THEN Zero ELSE Written[x]]
    /\ pend' = << >> /\ ppos' = o /\ wofs' = o /\ flushed' = o /\ dirty' = FALSE
    /\ starts' = {x \in starts : x < o}
    /\ cache' = [r \in Reader |-> NoCache]   \* truncation invalidates every read-ahead buffer
    /\ last' = [op |-> "set_len", o |-> o]
    /\ UNCHANGED <<comp, nextId>>

Toggle ==
    /\ comp' = ~comp
    /\ last' = [op |-> "toggle", on |-> comp']
    /\ UNCHANGED <<disk, pend, ppos, wofs, flushed, dirty, nextId, starts, cache>>

\* drop the writer without sync (buffer reaches the OS: BufWriter flushes on drop), reopen:
\* scan from 0 to the last intact record (bounded by the file size)
RECURSIVE ScanEnd(_, _)
ScanEnd(d, o) ==
    IF o < Size /\ IntactAt(LAMBDA x : d[x], o, Size) THEN ScanEnd(d, o + d[o].n) ELSE o

Reopen ==
    /\ LET d == Written IN
       /\ disk' = d
       /\ wofs' = ScanEnd(d, 0) /\ flushed' = ScanEnd(d, 0) /\ ppos' = ScanEnd(d, 0)
    /\ pend' = << >> /\ dirty' = FALSE /\ comp' = FALSE
    /\ cache' = [r \in Reader |-> NoCache]      \* readers are reopened with the writer
    /\ starts' = {x \in starts : x < ScanEnd(Written, 0)}
    /\ last' = [op |-> "reopen", wofs |-> wofs']
    /\ UNCHANGED nextId

----------------------------------------------------------------------------
\* Readers

ReadRandom(r, o) ==
    /\ o \in Offsets
    /\ last' = [op |-> "read_random", r |-> r, o |-> o, res |-> RandomResult(o)]
    /\ UNCHANGED <<disk, pend, ppos, wofs, flushed, dirty, comp, nextId, starts, cache>>

\* sequential read: same observable result as a random read; side effect on the buffer
Fill(r, o) == [lo |-> 0, hi |-> flushed, snap |-> [i \in 1..flushed |-> disk[i - 1]]]
SeqResult(r, o) ==
    IF CacheCovers(r, o)
    THEN LET c == cache[r] IN
         IF IntactAt(LAMBDA x : c.snap[x - c.lo + 1], o, c.hi)
         THEN Ok(LAMBDA x : c.snap[x - c.lo + 1], o)
         ELSE RandomResult(o)       \* record extends past the buffer: refill
    ELSE RandomResult(o)

ReadSeq(r, o) ==
    /\ o \in Offsets
    /\ last' = [op |-> "read_seq", r |-> r, o |-> o, res |-> SeqResult(r, o)]
    /\ cache' = [cache EXCEPT ![r] =
                    IF o < flushed /\ ~(CacheCovers(r, o) /\ SeqResult(r, o).st = "ok")
                    THEN Fill(r, o) ELSE @]
    /\ UNCHANGED <<disk, pend, ppos, wofs, flushed, dirty, comp, nextId, starts>>

\* iteration from o: the records LogFrom(o) (ids), through the read-ahead buffer
Iter(r, o) ==
    /\ o \in Offsets
    /\ last' = [op |-> "iter", r |-> r, o |-> o,
                ids |-> [i \in DOMAIN LogFrom(o) |-> LogFrom(o)[i].id],
                hvs |-> [i \in DOMAIN LogFrom(o) |-> LogFrom(o)[i].hv]]
    /\ cache' = [cache EXCEPT ![r] = IF o < flushed THEN Fill(r, o) ELSE @]
    /\ UNCHANGED <<disk, pend, ppos, wofs, flushed, dirty, comp, nextId, starts>>

\* replace_header at o: only an intact, flushed record; the header version is bumped, the
\* replacing reader's own buffer is invalidated; other readers observe the new header
\* because their buffers are validated against the file's header epoch
Replace(r, o) ==
    /\ o \in Offsets
    /\ IF IntactAt(DiskCell, o, flushed)
       THEN /\ disk' = [disk EXCEPT ![o].hv = @ + 1]
            /\ cache' = [q \in Reader |-> NoCache]
            /\ last' = [op |-> "replace", r |-> r, o |-> o, ok |-> TRUE, id |-> disk[o].id,
                         hv |-> disk[o].hv + 1]
       ELSE /\ UNCHANGED <<disk, cache>>
            /\ last' = [op |-> "replace", r |-> r, o |-> o, ok |-> FALSE]
    /\ UNCHANGED <<pend, ppos, wofs, flushed, dirty, comp, nextId, starts>>

Next ==
    \/ \E n \in 1..MaxRec : \E c \in BOOLEAN : WAppend(n, c)
    \/ \E n \in 1..MaxRec : AppendFull(n)
    \/ FlushW \/ Sync \/ Toggle \/ Reopen
    \/ \E o \in Offsets : SetLen(o)
    \/ \E r \in Reader : \E o \in Offsets :
          ReadRandom(r, o) \/ ReadSeq(r, o) \/ Iter(r, o) \/ Replace(r, o)

Spec == Init /\ [][Next]_vars

----------------------------------------------------------------------------
(* C18 / C17 (round trip part) as invariants of the design                  *)

\* the writer's physical write position is where the log says the next record goes
CursorAtWofs == ppos + Len(pend) = wofs

\* everything below flushed is a gapless chain of intact records ending exactly at flushed
FlushedIsLog ==
    LET l == LogFrom(0) IN
    IF l = << >> THEN flushed = 0 ELSE l[Len(l)].o + l[Len(l)].n = flushed

\* a sequential read through any (possibly old) buffer returns exactly what is on disk
ReadBelowFlushedExact ==
    \A r \in Reader : \A o \in Boundaries :
        SeqResult(r, o) = RandomResult(o)

\* no read returns anything at or beyond the flushed offset
NoReadBeyondFlushed ==
    \A r \in Reader : \A o \in Offsets :
        (SeqResult(r, o).st = "ok") => (o + SeqResult(r, o).n <= flushed)

\* buffers never hold unflushed bytes
CacheBelowFlushedAtFill == \A r \in Reader : cache[r].hi >= cache[r].lo

TypeOK ==
    /\ wofs \in Offsets /\ flushed \in Offsets /\ flushed <= wofs
    /\ ppos \in Offsets
=============================================================================
