INIT HInit
NEXT SimNext
CONSTANTS
  Streams = {"s1", "s2", "s3", "s4"}
  Keys = {"k1", "k2", "k3"}
  NPart = 3
  NB = 1
  UMax = 1000000
  MaxEv = 3
  MaxTx = 1000
  MaxV = 1
  EmitAt = 40
INVARIANTS Inv Emit
CHECK_DEADLOCK FALSE
