INIT Init
NEXT Next
CONSTANTS
  MaxN = 6
  MaxB = 9
  MaxP = 13
  MaxR = 13
  EmitTables = FALSE
INVARIANTS InvAgreement InvReplicaCount InvOwnsIffReplica
CHECK_DEADLOCK FALSE
