INIT HInit
NEXT HNext
CONSTANTS
  Thread = {"t1", "t2"}
  MaxOps = 2
  Threshold = 2
  Timeout = 2
  MaxCalls = 1
  SuccThreshold = 1
  MaxClock = 5
  Saturating = TRUE
  CountTransition = TRUE
  ResetAtHalfOpen = FALSE

INVARIANTS NoUnderflow OpensOnlyAfterThreshold ProbesBoundedUnlessLateReset Emit
CHECK_DEADLOCK FALSE
