------------------------------- MODULE Space -------------------------------
(***************************************************************************)
(* Space accounting of the live segment (C19): writer_thread_pool.rs       *)
(* Worker::handle_append_events + seglog Writer::append.                   *)
(*                                                                         *)
(* A transaction has two sizes: the *estimate* e the writer thread         *)
(* computes from the uncompressed field lengths (events_size) and the      *)
(* *stored* size s of its records (after optional zstd compression: s < e  *)
(* for compressible payloads, s > e for incompressible ones >= 128 bytes,  *)
(* s = e otherwise).  Cap is the room of an empty segment (segment size    *)
(* minus the segment header).                                              *)
(*                                                                         *)
(* Code rule (one request):                                                *)
(*   1. e > Cap                      -> EventsExceedSegmentSize            *)
(*   2. used + e > Cap               -> rollover (used := 0)               *)
(*   3. write the records; a record that does not fit -> SegmentFull,      *)
(*      set_len back to the start offset                                   *)
(* The design keeps s <= e: seglog stores a record compressed only when    *)
(* that is smaller (GrowthAllowed = FALSE), so deciding the rollover on    *)
(* the estimate is sufficient.  GrowthAllowed = TRUE is the deviation (an  *)
(* incompressible record stored in its larger zstd frame): then step 2     *)
(* alone cannot guarantee that the records fit.                            *)
(***************************************************************************)
EXTENDS Naturals, TLC, Json
CONSTANTS Cap, GrowthAllowed

VARIABLES used, seg, last     \* last = [e, s, res] of the latest request
vars == <<used, seg, last>>
View == <<used, last>>      \* the segment counter only counts

Sizes == 1..(Cap + 1)

\* outcome of one request in a segment holding u bytes: [res, used, rolled]
Step(u, e, s) ==
    IF e > Cap THEN [res |-> "too_large", used |-> u, rolled |-> 0]
    ELSE
      LET r1 == IF u + e > Cap THEN 1 ELSE 0
          u1 == IF r1 = 1 THEN 0 ELSE u
      IN IF u1 + s <= Cap THEN [res |-> "ok", used |-> u1 + s, rolled |-> r1]
         ELSE [res |-> "full", used |-> u1, rolled |-> r1]

Init == used = 0 /\ seg = 0 /\ last = [e |-> 0, s |-> 0, res |-> "none"]

Request(e, s) ==
    LET r == Step(used, e, s) IN
    /\ GrowthAllowed \/ s <= e
    /\ used' = r.used
    /\ seg' = seg + r.rolled
    /\ last' = [e |-> e, s |-> s, res |-> r.res]

Next == \E e \in Sizes, s \in Sizes : Request(e, s)
Spec == Init /\ [][Next]_vars

(* C19: whatever the fill level, a transaction whose estimate and stored size fit an empty  *)
(* segment is accepted at the latest when it is retried once; it never fails forever.       *)
FitsEmpty(e, s) == e <= Cap /\ s <= Cap /\ (GrowthAllowed \/ s <= e)
AcceptedWithinOneRetry ==
    \A e \in Sizes, s \in Sizes :
        FitsEmpty(e, s) =>
            LET r1 == Step(used, e, s) IN
            r1.res = "ok" \/ Step(r1.used, e, s).res = "ok"
\* the stronger form the repaired writer gives: no retry needed at all
AcceptedAtOnce ==
    \A e \in Sizes, s \in Sizes : FitsEmpty(e, s) => Step(used, e, s).res = "ok"
\* the live segment never overflows
NoOverflow == used <= Cap
\* requests the admission rule turns away are exactly the ones with e > Cap
AdmissionByEstimate == (last.res = "too_large") <=> (last.e > Cap)

\* the table of fill classes the harness expands: relation of the free space to e and s
Class(u, e, s) ==
    LET free == Cap - u IN
    [est |-> IF e <= free THEN "fits" ELSE "over", sto |-> IF s <= free THEN "fits" ELSE "over",
     cmp |-> IF s < e THEN "shrinks" ELSE IF s > e THEN "grows" ELSE "same",
     res |-> Step(u, e, s).res, rolled |-> Step(u, e, s).rolled]
Emit == \A e \in Sizes, s \in Sizes :
          FitsEmpty(e, s) => PrintT(<<"TABLE", ToJson(Class(used, e, s))>>)
=============================================================================
