SPECIFICATION Spec
CONSTANTS
  Cap = 7
  GrowthAllowed = FALSE
INVARIANTS NoOverflow AcceptedWithinOneRetry AcceptedAtOnce AdmissionByEstimate Emit
VIEW View
CHECK_DEADLOCK FALSE
