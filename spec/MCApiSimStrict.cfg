INIT XInit
NEXT SimNext
CONSTANTS
  Streams = {"s1", "s2", "s3", "s4"}
  Keys = {"k1", "k2", "k3", "k4", "d1", "d2", "d3", "d4"}
  NPart = 4
  NB = 2
  UMax = 1000000
  KeyPart <- KeyPartDef
  DefKey <- DefKeyDef
  Invalids <- InvalidsDef
  Conns = {1, 2}
  Strict = TRUE
  MaxCmd = 1000
  EmitAt = 45
INVARIANTS ApiInv Emit
CHECK_DEADLOCK FALSE
