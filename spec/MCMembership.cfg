INIT HInit
NEXT HNext
CONSTANTS
  NP = 3
  NB = 3
  NPart = 3
  RF = 2
  MaxEpoch = 1
  MaxResp = 2
  MaxLen = 12
  EmitFrom = 10
VIEW View
CONSTRAINT HBound
INVARIANTS TypeOK SameViewSameReplicas SameOrder SelfKnown Emit
CHECK_DEADLOCK FALSE
