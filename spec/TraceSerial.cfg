SPECIFICATION SSpec
CONSTANTS
  Streams = {"s1"}
  Keys = {"k1"}
  NPart = 4
  NB = 2
  UMax = 1000000
INVARIANTS NotAllExplained ModelInv
CHECK_DEADLOCK FALSE
