------------------------------ MODULE Versions ------------------------------
(***************************************************************************)
(* Expected-version algebra of sierradb-protocol (ExpectedVersion,         *)
(* CurrentVersion, VersionGap) over an unsigned integer type whose largest *)
(* value is UMax (u64::MAX in the code).  Satisfied is the operator the    *)
(* event-store model's Append uses, so "accepted by the store iff          *)
(* satisfied" holds in the specification by construction (EventStore.tla). *)
(***************************************************************************)
EXTENDS Integers, Sequences
CONSTANT UMax

U == 0..UMax
\* expected versions
Any == [k |-> "any"]
Exists == [k |-> "exists"]
Empty == [k |-> "empty"]
Exact(v) == [k |-> "exact", v |-> v]
\* current versions
CEmpty == [k |-> "empty"]
Current(v) == [k |-> "current", v |-> v]

Sat(x) == IF x > UMax THEN UMax ELSE x

\* position on the number line: an empty stream sits one below version 0
Pos(cur) == IF cur.k = "empty" THEN 0 - 1 ELSE cur.v

GNone == [g |-> "none"]
Ahead(d) == [g |-> "ahead", d |-> d]
Behind(d) == [g |-> "behind", d |-> d]
Incompatible == [g |-> "incompatible"]

\* ExpectedVersion::gap_from: signed distance between the current position and the
\* expected one, saturating at UMax (the distance UMax+1 is not representable)
Gap(exp, cur) ==
    CASE exp.k = "any" -> GNone
      [] exp.k = "exists" -> IF cur.k = "empty" THEN Incompatible ELSE GNone
      [] exp.k = "empty" -> IF cur.k = "empty" THEN GNone ELSE Ahead(Sat(Pos(cur) + 1))
      [] exp.k = "exact" ->
            LET d == Pos(cur) - exp.v IN
            IF d = 0 THEN GNone ELSE IF d > 0 THEN Ahead(d) ELSE Behind(Sat(0 - d))

Satisfied(exp, cur) ==
    CASE exp.k = "any" -> TRUE
      [] exp.k = "exists" -> cur.k = "current"
      [] exp.k = "empty" -> cur.k = "empty"
      [] exp.k = "exact" -> cur.k = "current" /\ cur.v = exp.v

\* from_next_version / into_next_version
FromNext(v) == IF v = 0 THEN Empty ELSE Exact(v - 1)
NoneV == [some |-> FALSE]
SomeV(v) == [some |-> TRUE, v |-> v]
IntoNext(exp) ==     \* domain: Empty, Exact
    IF exp.k = "empty" THEN SomeV(0)
    ELSE IF exp.v = UMax THEN NoneV ELSE SomeV(exp.v + 1)

\* CurrentVersion::next, as_expected_version
NextOf(cur) == IF cur.k = "empty" THEN 0 ELSE cur.v + 1
AsExpected(cur) == IF cur.k = "empty" THEN Empty ELSE Exact(cur.v)

(***************************************************************************)
(* C25 on the algebra                                                      *)
(***************************************************************************)
GapAgreesWithSatisfied(exp, cur) == (Gap(exp, cur) = GNone) <=> Satisfied(exp, cur)
GapTotal(exp, cur) ==
    LET g == Gap(exp, cur) IN
    g.g \in {"ahead", "behind"} => (g.d \in U /\ g.d >= 1)
RoundTripNext(v) == IntoNext(FromNext(v)) = SomeV(v)
RoundTripExp(exp) ==
    (exp.k = "empty" \/ (exp.k = "exact" /\ exp.v < UMax)) =>
        FromNext(IntoNext(exp).v) = exp
CurrentSatisfiesOwn(cur) == Satisfied(AsExpected(cur), cur)
=============================================================================
