INIT Init
NEXT Next
CONSTANTS
  MaxTx = 3
  RF = 3
INVARIANTS GateIsPrefix UnconfirmedHidden StreamPrefix Emit
CHECK_DEADLOCK FALSE
