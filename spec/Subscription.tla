---------------------------- MODULE Subscription ----------------------------
(***************************************************************************)
(* One subscription on one partition (C09): sierradb-cluster               *)
(* subscription.rs (Subscription::run / read_*_history / send_record) and  *)
(* confirmation/actor.rs (broadcast of newly confirmed events).            *)
(*                                                                         *)
(* The partition holds events at sequences 0..N-1, grouped in transactions *)
(* (TxFirst[s] = first sequence of the transaction s belongs to); Match is *)
(* the set of sequences the subscription's matcher selects (all of them    *)
(* for a partition subscription, one stream's events for a stream          *)
(* subscription).  W is the confirmed watermark; the confirmation actor    *)
(* advances it and then broadcasts the newly confirmed events, in order,   *)
(* into a bounded ring each subscriber reads from.                         *)
(*                                                                         *)
(* The subscriber first reads history in batches of Batch matching         *)
(* commits, delivering commits whose first sequence is below W and         *)
(* stopping at the first one that is not; then it consumes the ring,       *)
(* skipping what it has already seen; when the ring overflowed (Lagged) it *)
(* re-reads history from where it stands.  Every delivery first waits      *)
(* until fewer than Window deliveries are unacknowledged.                  *)
(*                                                                         *)
(* StopAtUnconfirmed = TRUE is the design; FALSE is the deviation in which *)
(* the stop only leaves the current batch and the next batch is read on.   *)
(* BroadcastOnEveryAdvance = TRUE is the design; FALSE is the deviation in *)
(* which some watermark advances (those reported through                   *)
(* UpdateConfirmation) are not followed by a broadcast.                    *)
(***************************************************************************)
EXTENDS Naturals, Sequences, FiniteSets, TLC
CONSTANTS N, Match, TxFirst, Batch, RingCap, Window, StopAtUnconfirmed, BroadcastOnEveryAdvance

Seqs == 0..(N - 1)
VARIABLES W,          \* confirmed watermark (number of confirmed leading events)
          nb,         \* next sequence the confirmation actor will broadcast
          owed,       \* TRUE while the watermark is ahead of nb and no broadcast is scheduled
          ring,       \* broadcast events not yet consumed by the subscriber (sequences)
          lagged,     \* the ring overflowed since the subscriber last looked
          phase,      \* "hist" / "live"
          from,       \* matcher state: everything below this sequence has been seen
          iter,       \* history iterator: next sequence to read from the database; N+1 = closed
          batch,      \* commits (first sequences) of the batch being processed
          delivered,  \* sequences delivered, in order
          sent, lastAck,  \* deliveries made; highest acknowledged delivery count
          start       \* the subscription's start position (constant after Init)
vars == <<W, nb, owed, ring, lagged, phase, from, iter, batch, delivered, sent, lastAck, start>>

TxSeqs(f) == {s \in Seqs : TxFirst[s] = f}
MatchIn(f) == TxSeqs(f) \cap Match
CommitStarts == {TxFirst[s] : s \in Match}          \* transactions with at least one matching event
SetToSeq(S) == LET RECURSIVE F(_) F(T) == IF T = {} THEN << >> ELSE LET m == CHOOSE x \in T : \A y \in T : x <= y IN <<m>> \o F(T \ {m}) IN F(S)

Init ==
    /\ W \in 0..N /\ (W = N \/ W \in {TxFirst[s] : s \in Seqs})     \* whole transactions are confirmed
    /\ nb = 0 /\ owed = FALSE /\ ring = << >> /\ lagged = FALSE
    /\ phase = "hist" /\ from \in {0} \cup {TxFirst[s] : s \in Seqs} /\ iter = N + 1 /\ batch = << >>
    /\ delivered = << >> /\ sent = 0 /\ lastAck = 0 /\ start = from

\* ------------------------------------------------------------ confirmation actor
Confirm(broadcasts) ==       \* the next transaction reaches its quorum
    /\ W < N
    /\ W' = W + Cardinality(TxSeqs(W))
    /\ owed' = ~broadcasts
    /\ UNCHANGED <<nb, ring, lagged, phase, from, iter, batch, delivered, sent, lastAck, start>>
\* send the confirmed events nb .. W-1 to the ring (oldest dropped on overflow)
Broadcast ==
    /\ ~owed /\ nb < W
    /\ LET add == [i \in 1..(W - nb) |-> nb + i - 1]
           all == ring \o add
           over == Len(all) > RingCap
       IN /\ ring' = IF over THEN SubSeq(all, Len(all) - RingCap + 1, Len(all)) ELSE all
          /\ lagged' = (lagged \/ over)
    /\ nb' = W
    /\ UNCHANGED <<W, owed, phase, from, iter, batch, delivered, sent, lastAck, start>>

\* ------------------------------------------------------------ subscriber
CanSend == sent - lastAck < Window
HistOpen ==
    /\ phase = "hist" /\ iter = N + 1 /\ batch = << >>
    /\ iter' = from
    /\ UNCHANGED <<W, nb, owed, ring, lagged, phase, from, batch, delivered, sent, lastAck, start>>
\* next batch: the next Batch matching commits at or after the iterator position
HistBatch ==
    /\ phase = "hist" /\ iter <= N /\ batch = << >>
    /\ LET starts == SetToSeq({f \in CommitStarts : \E s \in MatchIn(f) : s >= iter})
           b == SubSeq(starts, 1, IF Len(starts) < Batch THEN Len(starts) ELSE Batch)
       IN IF b = << >>
          THEN phase' = "live" /\ iter' = N + 1 /\ batch' = << >>          \* iterator exhausted
          ELSE /\ batch' = b /\ phase' = phase
               /\ iter' = LET l == b[Len(b)] IN (CHOOSE m \in TxSeqs(l) : \A y \in TxSeqs(l) : y <= m) + 1
    /\ UNCHANGED <<W, nb, owed, ring, lagged, from, delivered, sent, lastAck, start>>
\* process the head commit of the batch
HistCommit ==
    /\ phase = "hist" /\ batch # << >>
    /\ LET f == Head(batch) IN
       IF f < W
       THEN \* deliver its matching events (one step per commit; the window is checked per event)
            /\ sent - lastAck + Cardinality({s \in MatchIn(f) : s >= from}) <= Window
            /\ delivered' = delivered \o SetToSeq({s \in MatchIn(f) : s >= from})
            /\ sent' = sent + Cardinality({s \in MatchIn(f) : s >= from})
            /\ from' = (CHOOSE m \in MatchIn(f) : \A y \in MatchIn(f) : y <= m) + 1
            /\ batch' = Tail(batch)
            /\ UNCHANGED <<phase, iter>>
       ELSE \* first unconfirmed commit
            /\ batch' = << >>
            /\ IF StopAtUnconfirmed THEN phase' = "live" /\ iter' = N + 1 ELSE UNCHANGED <<phase, iter>>
            /\ UNCHANGED <<delivered, sent, from>>
    /\ UNCHANGED <<W, nb, owed, ring, lagged, lastAck, start>>
LiveRecv ==
    /\ phase = "live" /\ ~lagged /\ ring # << >>
    /\ LET s == Head(ring) IN
       IF s \notin Match \/ s < from
       THEN UNCHANGED <<delivered, sent, from>>
       ELSE /\ CanSend
            /\ delivered' = Append(delivered, s) /\ sent' = sent + 1 /\ from' = s + 1
    /\ ring' = Tail(ring)
    /\ UNCHANGED <<W, nb, owed, lagged, phase, iter, batch, lastAck, start>>
Lagged ==
    /\ phase = "live" /\ lagged
    /\ lagged' = FALSE /\ phase' = "hist"
    /\ UNCHANGED <<W, nb, owed, ring, from, iter, batch, delivered, sent, lastAck, start>>
Ack(a) ==
    /\ a > lastAck /\ a <= sent /\ lastAck' = a
    /\ UNCHANGED <<W, nb, owed, ring, lagged, phase, from, iter, batch, delivered, sent, start>>

Next == (\E b \in (IF BroadcastOnEveryAdvance THEN {TRUE} ELSE BOOLEAN) : Confirm(b)) \/ Broadcast
        \/ HistOpen \/ HistBatch \/ HistCommit \/ LiveRecv \/ Lagged \/ (\E a \in 1..N : Ack(a))
Spec == Init /\ [][Next]_vars
FairSpec == Spec /\ WF_vars(Broadcast) /\ WF_vars(HistOpen) /\ WF_vars(HistBatch) /\ WF_vars(HistCommit)
                 /\ WF_vars(LiveRecv) /\ WF_vars(Lagged) /\ \A a \in 1..N : WF_vars(Ack(a))

----------------------------------------------------------------------------
(* C09 *)
\* in order, no gap, no duplicate: the k-th delivery is the k-th matching event at or after the start
MatchFrom(s0) == SetToSeq({s \in Match : s >= s0})
InOrderNoGapFrom(s0) == \A k \in 1..Len(delivered) : k <= Len(MatchFrom(s0)) /\ delivered[k] = MatchFrom(s0)[k]
\* nothing unconfirmed
OnlyConfirmed == \A k \in 1..Len(delivered) : delivered[k] < W
WindowRespected == sent - lastAck <= Window
\* at rest (nothing left to do, everything acknowledged) every confirmed matching event was delivered
Quiescent == /\ phase = "live" /\ ring = << >> /\ ~lagged /\ (nb = W \/ owed) /\ lastAck = sent
CompleteAtRestFrom(s0) == Quiescent => Len(delivered) = Cardinality({s \in Match : s >= s0 /\ s < W})
InOrderNoGap == InOrderNoGapFrom(start)
CompleteAtRest == CompleteAtRestFrom(start)
=============================================================================
