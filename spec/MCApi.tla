------------------------------- MODULE MCApi -------------------------------
(* Model-checking / behaviour-generation instance of Api.                     *)
(*  - XNext: every command over small bounds (exhaustive; ApiInv, PagingComplete). *)
(*  - SimNext: one randomly drawn command per step, biased so that logs grow   *)
(*    and most reads hit populated ranges; the recorded history (command and  *)
(*    prescribed reply per step) is what the harness sends over a real TCP     *)
(*    connection to a real single-node server.                                 *)
EXTENDS Api
CONSTANTS MaxCmd

KeyPartDef == [k \in Keys |->
    CASE k = "k1" -> 0 [] k = "k2" -> 1 [] k = "k3" -> 2 [] k = "k4" -> 0
      [] k = "d1" -> 0 [] k = "d2" -> 1 [] k = "d3" -> 3 [] k = "d4" -> 2 [] OTHER -> 0]
DefKeyDef == [s \in Streams |-> CASE s = "s1" -> "d1" [] s = "s2" -> "d2" [] s = "s3" -> "d3" [] OTHER -> "d4"]
InvalidsDef == {"unknown_command", "empty_array", "not_an_array", "eappend_no_name", "eappend_bad_event_id",
                "eappend_bad_partition_key", "eappend_dup_payload", "eappend_bad_expected", "eappend_ts_not_number",
                "eappend_clause_without_value", "emappend_no_events", "emappend_bad_key", "emappend_event_without_name",
                "eget_bad_uuid", "eget_no_arg", "eget_two_args", "escan_missing_end", "escan_bad_count",
                "escan_negative_start", "epscan_partition_out_of_range", "epscan_missing_range", "esver_extra_arg",
                "epseq_bad_selector", "eack_unknown_subscription", "eack_bad_cursor", "esub_window_zero",
                "epsub_bad_map", "nested_array_arg", "null_arg", "number_as_command", "hello_bad_version",
                "lowercase_unknown", "eappend_stream_id_empty", "eappend_stream_id_too_long",
                "eappend_event_id_of_other_partition", "emappend_event_id_of_other_partition", "emappend_dup_clause",
                "epscan_count_not_number", "ping_extra_args", "eack_no_args"}

Exps == {V!Any, V!Exists, V!Empty, V!Exact(0), V!Exact(1)}
XInit == ApiInit
XNext ==
    /\ n < MaxCmd
    /\ \E c \in Conns :
       \/ \E s \in Streams, uk \in BOOLEAN, k \in Keys, x \in Exps, ts \in {"none", "enc"} : EAppend(c, s, uk, k, x, ts)
       \/ \E k \in Keys, s1 \in Streams, s2 \in Streams, x1 \in Exps, x2 \in {V!Any, V!Exact(0)}, ts2 \in {"none", "enc"} :
             EMAppend(c, k, <<[s |-> s1, x |-> x1, ts |-> "none"], [s |-> s2, x |-> x2, ts |-> ts2]>>)
       \/ \E t \in 1..MaxCmd, i \in 1..2 : EGet(c, t, i)
       \/ \E s \in Streams, cnt \in {0, 1, 0 - 1} : EScan(c, s, FALSE, "k1", 0, 0 - 1, cnt)
       \/ \E p \in Parts, cnt \in {0, 1, 0 - 1}, st \in {0 - 1, 1}, e \in {0 - 1, 0} : EPScan(c, FALSE, "k1", p, st, e, cnt)
       \/ \E s \in Streams : ESVer(c, s, FALSE, "k1")
       \/ \E p \in Parts : EPSeq(c, FALSE, "k1", p)
       \/ Invalid(c, "unknown_command")
       \/ \E s \in Streams, f \in {[k |-> "none"], [k |-> "all", v |-> 0]}, w \in {0 - 1, 1} :
             Len(subs) < 1 /\ ESub(c, <<[s |-> s, key |-> "-"]>>, f, w)
       \/ \E f \in {[k |-> "latest"], [k |-> "all", v |-> 1]}, w \in {1, 2} :
             Len(subs) < 1 /\ EPSub(c, [k |-> "all"], f, w)
       \/ \E i \in 1..1, u \in 1..3 : EAck(c, i, u)
       \/ \E i \in 1..1 : EAckForeign(c, i)
       \/ Reconnect(c)
       \/ Hello(c) \/ Ping(c)

----------------------------------------------------------------------------
Rnd(S) == RandomElement({x \in S : n >= 0})
Pick(seq) == seq[Rnd(1..Len(seq))]
Hot == CHOOSE s \in Streams : TRUE
RealKeys == {k \in Keys : \A s \in Streams : DefKey[s] # k}

\* the expectation for an event of stream s under key k that leaves version `ant` behind
XPick(ant) ==
    LET right == IF ant < 0 THEN V!Empty ELSE V!Exact(ant) IN
    IF Rnd(1..20) <= 17 THEN (IF Strict /\ Rnd(1..10) <= 9 THEN right ELSE Pick(<<right, right, V!Any, V!Any>>))
    ELSE Pick(<<V!Exists, V!Empty, V!Exact(ant + 1), V!Exact(IF ant > 0 THEN ant - 1 ELSE 1), V!Exact(UMax)>>)
TsPick == Pick(<<"none", "none", "none", "ok", "ok", "zero", "maxok", "enc", "ovf">>)
\* a key for stream s: usually the one it is bound to somewhere, or a fresh one
KeyFor(s) ==
    LET bound == {k \in RealKeys : \E b \in 0..(NB - 1) : BoundKey(log, b, s) = k} IN
    IF bound # {} /\ Rnd(1..10) <= 8 THEN Rnd(bound) ELSE Rnd(RealKeys)

SimEAppend(c) ==
    \E s \in {IF Rnd(1..10) <= 3 THEN Hot ELSE Rnd(Streams)} :
    \E uk \in {LET bd == BoundKey(log, Bucket(KeyPart[DefKey[s]]), s) IN
                IF bd = DefKey[s] THEN Rnd(1..10) <= 2 ELSE IF bd = "none" THEN Rnd(1..10) <= 5 ELSE Rnd(1..10) <= 8} :
    \E k \in {KeyFor(s)} :
    \E x \in {XPick(VerOut(CurVer(log, Bucket(KeyPart[IF uk THEN k ELSE DefKey[s]]), s)))} :
    \E ts \in {TsPick} : EAppend(c, s, uk, k, x, ts)

SimEMAppend(c) ==
    \E k \in {LET good == {x \in RealKeys : \E t \in Streams : BoundKey(log, Bucket(KeyPart[x]), t) \in {"none", x}} IN
               IF good = {} \/ Rnd(1..10) = 1 THEN Rnd(RealKeys) ELSE Rnd(good)}, cnt \in {Pick(<<1, 2, 2, 3, 3, 4>>)} :
    \E pool \in {LET ok == {s \in Streams : BoundKey(log, Bucket(KeyPart[k]), s) \in {"none", k}} IN
                 IF ok = {} \/ Rnd(1..10) = 1 THEN Streams ELSE ok} :
    \E ss \in {[i \in 1..cnt |-> IF Hot \in pool /\ Rnd(1..10) <= 3 THEN Hot ELSE Rnd(pool)]} :
    \E evs \in {[i \in 1..cnt |->
                   LET cv == CurVer(log, Bucket(KeyPart[k]), ss[i])
                       before == Cardinality({j \in 1..(i - 1) : ss[j] = ss[i]})
                   IN [s |-> ss[i], x |-> XPick(VerOut(cv) + before),
                       ts |-> IF (i > 1 /\ Rnd(1..10) = 1) \/ Rnd(1..40) = 1 THEN Pick(<<"enc", "ovf">>)
                              ELSE Pick(<<"none", "none", "ok", "zero", "maxok">>)]]} :
       EMAppend(c, k, evs)

InLog == UNION {{log[p][q].tx : q \in 1..Len(log[p])} : p \in Parts}
SimEGet(c) == \E t \in {IF InLog # {} /\ Rnd(1..10) <= 7 THEN Rnd(InLog) ELSE Rnd(1..(n + 1))}, i \in {Pick(<<1, 1, 2, 3, 5>>)} : EGet(c, t, i)

Starts(len) == <<0 - 1, 0 - 1, 0 - 1, 0, 0, 1, IF len > 1 THEN len - 1 ELSE 0, len, len + 1, Rnd(0..len), Rnd(0..len), Rnd(0..len), UMax>>
Ends(len) == <<0 - 1, 0 - 1, 0 - 1, 0 - 1, 0 - 1, 0, IF len > 1 THEN len - 1 ELSE 1, len, Rnd(0..(len + 2)), Rnd(0..(len + 2)), UMax, UMax>>
Counts == <<0 - 1, 0 - 1, 0, 1, 1, 2, 3, 5, 50, UMax>>
SimEScan(c) ==
    \E s \in {IF Rnd(1..10) <= 4 THEN Hot ELSE Rnd(Streams)} :
    \* mostly a key whose partition holds the stream; now and then any key (another partition, possibly of the same bucket)
    \E uk \in {Rnd(1..10) <= 5 \/ (~ReadableBy(log, DefKey[s], s) /\ Rnd(1..5) # 1)} :
    \E k \in {LET ok == {x \in RealKeys : ReadableBy(log, x, s)} IN IF ok = {} \/ Rnd(1..5) = 1 THEN Rnd(RealKeys) ELSE
                 LET b == {x \in ok : BoundKey(log, Bucket(KeyPart[x]), s) = x} IN IF b # {} /\ Rnd(1..10) <= 7 THEN Rnd(b) ELSE Rnd(ok)} :
    \E len \in {VerOut(CurVer(log, Bucket(KeyPart[IF uk THEN k ELSE DefKey[s]]), s)) + 1} :
    \E st \in {Pick(Starts(len))}, e \in {Pick(Ends(len))}, cnt \in {Pick(Counts)} :
       EScan(c, s, uk, k, st, e, cnt)
SimEPScan(c) ==
    \E bk \in {Rnd(1..10) <= 3}, k \in {Rnd(RealKeys)} :
    \E p \in {LET ne == {q \in Parts : log[q] # << >>} IN IF ne = {} \/ Rnd(1..10) <= 2 THEN Rnd(Parts) ELSE Rnd(ne)} :
    \E len \in {Len(log[IF bk THEN KeyPart[k] ELSE p])} :
    \E st \in {Pick(Starts(len))}, e \in {Pick(Ends(len))}, cnt \in {Pick(Counts)} :
       EPScan(c, bk, k, p, st, e, cnt)
SimBadRange(c) ==
    \E w \in {Pick(<<"ESCAN", "EPSCAN">>)}, s \in {Rnd(Streams)}, p \in {Rnd(Parts)} :
    \E f \in {Pick(<<"plus_start", "minus_end", "plus_plus", "minus_minus">>)} : ScanBadRange(c, w, s, p, f)
SimESVer(c) ==
    \E s \in {Rnd(Streams)} :
    \E uk \in {Rnd(1..10) <= 4 \/ (~ReadableBy(log, DefKey[s], s) /\ Rnd(1..5) # 1)} :
    \E k \in {LET ok == {x \in RealKeys : ReadableBy(log, x, s)} IN IF ok = {} \/ Rnd(1..5) = 1 THEN Rnd(RealKeys) ELSE Rnd(ok)} :
       ESVer(c, s, uk, k)
SimEPSeq(c) == \E bk \in {Rnd(1..10) <= 3}, k \in {Rnd(RealKeys)}, p \in {Rnd(Parts)} : EPSeq(c, bk, k, p)
SimInvalid(c) == \E name \in {Rnd(Invalids)} : Invalid(c, name)

Wins == <<0 - 1, 0 - 1, 1, 2, 3, 1000>>
SimESub(c) ==
    /\ Len(subs) < 4
    /\ \E cnt \in {Pick(<<1, 1, 2, 2, 3>>)} :
       \E ss \in {Rnd({f \in [1..cnt -> Streams] : \A i, j \in 1..cnt : i # j => f[i] # f[j]})} :
       \E streams \in {[i \in 1..cnt |->
                          LET s == ss[i]
                              ok == {x \in RealKeys : SubKeyOk(log, x, s)}
                          IN [s |-> s, key |-> IF Rnd(1..6) = 1 THEN Rnd(RealKeys)          \* any key: possibly one the stream is not bound to
                                               ELSE IF ok = {} \/ (Rnd(1..10) <= 4 /\ SubKeyOk(log, DefKey[s], s)) THEN "-" ELSE Rnd(ok)]]} :
       \* random draws are bound here, once: a function constructor nested in a larger value is evaluated lazily by TLC
       \E vs \in {[i \in 1..3 |-> Rnd(0..2)]} :
       \E from \in {IF cnt = 1 THEN Pick(<<[k |-> "none"], [k |-> "all", v |-> 0], [k |-> "all", v |-> 0], [k |-> "all", v |-> 1], [k |-> "all", v |-> Rnd(0..4)]>>)
                    ELSE Pick(<<[k |-> "none"], [k |-> "latest"], [k |-> "all", v |-> 0], [k |-> "all", v |-> Rnd(0..3)],
                                [k |-> "map", m |-> <<[s |-> streams[1].s, v |-> vs[1]]>>],
                                [k |-> "map", m |-> [i \in 1..cnt |-> [s |-> streams[i].s, v |-> vs[i]]]]>>)} :
       \E w \in {Pick(Wins)} : ESub(c, streams, from, w)
SimEPSub(c) ==
    /\ Len(subs) < 4
    /\ \E sel \in {Pick(<<[k |-> "all"], [k |-> "one", p |-> Rnd(Parts)], [k |-> "one", p |-> Rnd(Parts)],
                          [k |-> "list", ps |-> <<0, 2>>], [k |-> "list", ps |-> <<3, 1, 0>>], [k |-> "range", a |-> 1, b |-> 2],
                          [k |-> "range", a |-> 0, b |-> NPart - 1], [k |-> "key", key |-> Rnd(RealKeys)]>>)} :
       \E from \in {IF sel.k \in {"one", "key"}
                    THEN Pick(<<[k |-> "none"], [k |-> "all", v |-> 0], [k |-> "all", v |-> Rnd(0..4)]>>)
                    ELSE Pick(<<[k |-> "none"], [k |-> "latest"], [k |-> "all", v |-> 0], [k |-> "all", v |-> Rnd(0..3)],
                                [k |-> "map", m |-> <<[p |-> Rnd(SelParts(sel)), v |-> Rnd(0..2)]>>, d |-> 0 - 1],
                                [k |-> "map", m |-> <<[p |-> Rnd(SelParts(sel)), v |-> Rnd(0..2)]>>, d |-> Rnd(0..2)]>>)} :
       \E w \in {Pick(Wins)} : EPSub(c, sel, from, w)
Ackable == {j \in 1..Len(subs) : subs[j].open /\ Delivered(log, subs[j]) > subs[j].ack}
CanAck == Ackable # {}
SimEAck(c) ==
    /\ CanAck
    /\ \E i \in {Rnd(Ackable)} :
       \E u \in {IF Rnd(1..2) = 1 THEN Delivered(log, subs[i]) ELSE Rnd((subs[i].ack + 1)..Delivered(log, subs[i]))} :
          EAck(subs[i].conn, i, u)
SimEAckForeign(c) ==
    LET F == {j \in 1..Len(subs) : subs[j].conn # c \/ ~subs[j].open} IN
    IF F = {} THEN Invalid(c, "eack_unknown_subscription") ELSE \E i \in {Rnd(F)} : EAckForeign(c, i)

SimNext ==
    \E c \in {Rnd(Conns)} :
    \E c0 \in {Pick(<<"app", "app", "app", "app", "app", "mapp", "mapp", "mapp", "mapp", "get", "get", "scan", "scan", "scan",
                      "pscan", "pscan", "pscan", "range", "sver", "pseq", "inv", "inv", "sub", "psub", "ack", "ack", "ack",
                      "fack", "reconnect", "hello", "ping">>)} :
    \E k \in {IF c0 = "ack" /\ ~CanAck THEN "app" ELSE IF c0 \in {"sub", "psub"} /\ Len(subs) >= 4 THEN "mapp"
               ELSE IF c0 = "reconnect" /\ Rnd(1..3) # 1 THEN "scan" ELSE c0} :
       \/ k = "app" /\ SimEAppend(c)
       \/ k = "mapp" /\ SimEMAppend(c)
       \/ k = "get" /\ SimEGet(c)
       \/ k = "scan" /\ SimEScan(c)
       \/ k = "pscan" /\ SimEPScan(c)
       \/ k = "range" /\ SimBadRange(c)
       \/ k = "sver" /\ SimESVer(c)
       \/ k = "pseq" /\ SimEPSeq(c)
       \/ k = "inv" /\ SimInvalid(c)
       \/ k = "sub" /\ SimESub(c)
       \/ k = "psub" /\ SimEPSub(c)
       \/ k = "ack" /\ SimEAck(c)
       \/ k = "fack" /\ SimEAckForeign(c)
       \/ k = "reconnect" /\ Reconnect(c)
       \/ k = "hello" /\ Hello(c)
       \/ k = "ping" /\ Ping(c)

View == <<log, n, subs>>
XBound == n <= MaxCmd
Emit == (n = EmitAt) => PrintT(<<"REPLAY", ToJson([steps |-> h, keypart |-> KeyPart, defkey |-> DefKey, strict |-> Strict,
                                                        npart |-> NPart, nb |-> NB, umax |-> UMax])>>)
=============================================================================
