INIT XInit
NEXT XNext
CONSTANTS
  Streams = {"s1", "s2"}
  Keys = {"k1", "k2", "d1", "d2"}
  NPart = 2
  NB = 1
  UMax = 1000000
  KeyPart <- KeyPartDef
  DefKey <- DefKeyDef
  Invalids <- InvalidsDef
  Conns = {1}
  Strict = FALSE
  MaxCmd = 3
  EmitAt = 99
INVARIANTS ApiInv PagingComplete
VIEW View
CONSTRAINT XBound
CHECK_DEADLOCK FALSE
