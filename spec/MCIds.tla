------------------------------- MODULE MCIds -------------------------------
EXTENDS Ids, TLC, Json
VARIABLE h
Fill(b, w) == [i \in 1..w |-> b]
Alt(w, s) == [i \in 1..w |-> (i + s) % 2]
Fields == {<<Fill(0, 48), Fill(0, 12), Fill(0, 46)>>, <<Fill(1, 48), Fill(1, 12), Fill(1, 46)>>,
           <<Alt(48, 0), Alt(12, 1), Alt(46, 0)>>, <<Alt(48, 1), Alt(12, 0), Alt(46, 1)>>}
Init == h \in 0..65535
Next == UNCHANGED h
Inv == \A f \in Fields :
          /\ EmbedsHash(f[1], f[2], h, f[3])
          /\ \A fl \in BOOLEAN : FlagPreserves(Compose(f[1], f[2], h, f[3]), fl)
Emit == (h % 4099 = 0 \/ h = 65535) =>
          PrintT(<<"TABLE", ToJson([h |-> h, ids |-> {[bits |-> Compose(f[1], f[2], h, f[3]),
                   set |-> SetFlag(Compose(f[1], f[2], h, f[3]), TRUE),
                   clr |-> SetFlag(Compose(f[1], f[2], h, f[3]), FALSE)] : f \in Fields}])>>)
=============================================================================
