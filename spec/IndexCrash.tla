----------------------------- MODULE IndexCrash -----------------------------
(***************************************************************************)
(* Crash between a segment rollover and the background flush of the sealed *)
(* segment's three index files (C06): writer_thread_pool.rs rollover,      *)
(* Open*Index::close (flush on a background pool, no fsync),               *)
(* DatabaseBuilder::open (Closed*Index::open for every sealed segment).    *)
(*                                                                         *)
(* Each index file is a sequence of sections written front to back:        *)
(*   magic, counts (number of keys, MPHF length), MPHF, [bloom filter,     *)
(*   stream index only], records.                                          *)
(* A crash leaves every file independently empty, cut inside any section,  *)
(* or complete.  The sealed segment's data file is complete and fsynced    *)
(* (the rollover starts with a sync), so everything the indexes contain    *)
(* can be recomputed from it.                                              *)
(*                                                                         *)
(* Required behaviour (the property): reopening succeeds and every         *)
(* acknowledged event of the sealed segment is found by id, stream and     *)
(* partition.  RebuildInvalid = TRUE is that design (an index file that is *)
(* not complete is rebuilt from the segment); FALSE is the code as it is   *)
(* (files are opened as they are found), kept to show the difference.      *)
(***************************************************************************)
EXTENDS Naturals, Sequences, FiniteSets, TLC, Json
CONSTANTS RebuildInvalid

Files == {"eidx", "pidx", "sidx"}
Sections(f) == IF f = "sidx" THEN <<"magic", "counts", "mphf", "bloom", "records">>
               ELSE <<"magic", "counts", "mphf", "records">>
\* state of one file after the crash: "empty", the name of the section it is cut in, "complete"
Cuts(f) == {"empty", "complete"} \cup {Sections(f)[i] : i \in 1..Len(Sections(f))}

VARIABLE st            \* st[f] \in Cuts(f)
Init == st \in {x \in [Files -> UNION {Cuts(f) : f \in Files}] : \A f \in Files : x[f] \in Cuts(f)}
Next == UNCHANGED st

Valid(f) == st[f] = "complete"
\* opening a file as found: the header sections must be there
OpensAsFound(f) == st[f] \in {"complete", "records"}
\* a lookup through a file opened as found reaches a record that is there
LooksUpAsFound(f) == st[f] = "complete"

ReopenOK == RebuildInvalid \/ \A f \in Files : OpensAsFound(f)
LookupOK(f) == RebuildInvalid \/ LooksUpAsFound(f)

(* C06 *)
Recovers == ReopenOK /\ \A f \in Files : LookupOK(f)

Class == st
Emit == PrintT(<<"TABLE", ToJson([eidx |-> Class["eidx"], pidx |-> Class["pidx"], sidx |-> Class["sidx"],
                                  reopen |-> TRUE, lookups |-> TRUE])>>)
=============================================================================
