SPECIFICATION Spec
CONSTANTS
  Cap = 7
  GrowthAllowed = TRUE
INVARIANTS NoOverflow AcceptedWithinOneRetry
VIEW View
CHECK_DEADLOCK FALSE
