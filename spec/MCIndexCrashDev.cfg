INIT Init
NEXT Next
CONSTANTS
  RebuildInvalid = FALSE
INVARIANTS Recovers
CHECK_DEADLOCK FALSE
