INIT HInit
NEXT HNext
CONSTANTS
  NP = 3
  NB = 3
  NPart = 3
  RF = 2
  MaxEpoch = 3
  MaxResp = 100
  MaxLen = 28
  EmitFrom = 28
CONSTRAINT HBound
INVARIANTS TypeOK SameViewSameReplicas SameOrder SelfKnown Emit
CHECK_DEADLOCK FALSE
