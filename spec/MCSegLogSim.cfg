INIT HInit
NEXT HNext
CONSTANTS
  Size = 9
  MaxRec = 2
  Reader = {1, 2}
  MaxId = 30
  MaxLen = 40
  EmitFrom = 40
CONSTRAINT HBound
INVARIANTS TypeOK CursorAtWofs FlushedIsLog ReadBelowFlushedExact NoReadBeyondFlushed Emit
CHECK_DEADLOCK FALSE
