----------------------------- MODULE Topology -----------------------------
(***************************************************************************)
(* Placement rules of SierraDB, transcribed from the code.                 *)
(*                                                                         *)
(*  ConfigBuckets   sierradb-server  AppConfig::assigned_buckets           *)
(*  ConfigPartitions                 AppConfig::assigned_partitions        *)
(*  TopoBuckets /   sierradb-topology TopologyManager::                    *)
(*  TopoPartitions                   calculate_assigned_partitions         *)
(*  ReplicaIdx                       calculate_partition_replicas          *)
(*  Distribute      sierradb-topology distribute_partition                 *)
(*                                                                         *)
(* Node indices, buckets and partitions are 0-based naturals as in the     *)
(* code.  Properties C13, C14 (static part) and C24 are stated at the end. *)
(***************************************************************************)
EXTENDS Naturals, Sequences, FiniteSets

Min(a, b) == IF a <= b THEN a ELSE b

MaxRF == 12                 \* sierradb::MAX_REPLICATION_FACTOR

\* effective replication factor: min(rf, N) computed without narrowing
EffRF(rf, N) == Min(rf, N)

(***************************************************************************)
(* Topology rule: bucket b has primary node b % N and replicas on the next *)
(* EffRF-1 node indices (wrapping).                                        *)
(***************************************************************************)
ReplicaIdxOfBucket(b, N, rf) ==
    [k \in 1..EffRF(rf, N) |-> ((b % N) + (k - 1)) % N]

ReplicaIdx(p, N, B, rf) == ReplicaIdxOfBucket(p % B, N, rf)

Range(s) == {s[k] : k \in DOMAIN s}

TopoBuckets(i, N, B, rf) ==
    {b \in 0..(B - 1) : i \in Range(ReplicaIdxOfBucket(b, N, rf))}

TopoPartitions(i, N, B, P, rf) ==
    {p \in 0..(P - 1) : (p % B) \in TopoBuckets(i, N, B, rf)}

(***************************************************************************)
(* Server configuration rule (AppConfig::assigned_buckets).  A node stores *)
(* bucket b iff it is one of the EffRF replicas of b's primary node, the   *)
(* primary of bucket b being b % N -- the same rule the topology routes    *)
(* by.                                                                     *)
(***************************************************************************)
ConfigBuckets(i, N, B, rf) ==
    {b \in 0..(B - 1) :
        \E off \in 0..(EffRF(rf, N) - 1) : ((i + N) - off) % N = b % N}

ConfigPartitions(i, N, B, P, rf) ==
    {p \in 0..(P - 1) : (p % B) \in ConfigBuckets(i, N, B, rf)}

\* AppConfig::validate, the part that concerns placement
Validated(N, i, B, P, rf) ==
    /\ N >= 1 /\ i < N /\ B >= 1 /\ P >= 1
    /\ rf >= 1 /\ rf <= N
    /\ P >= N /\ P >= B

(***************************************************************************)
(* C13  storage placement agrees with cluster routing                      *)
(***************************************************************************)
Agreement(N, i, B, P, rf) ==
    /\ {p % B : p \in TopoPartitions(i, N, B, P, rf)} = ConfigBuckets(i, N, B, rf)
    /\ ConfigPartitions(i, N, B, P, rf) = TopoPartitions(i, N, B, P, rf)
    /\ \A p \in 0..(P - 1) :
          i \in Range(ReplicaIdx(p, N, B, rf)) => (p % B) \in ConfigBuckets(i, N, B, rf)

(***************************************************************************)
(* C14 (static)  exactly min(rf,N) distinct replicas; owns iff replica     *)
(***************************************************************************)
ReplicaCount(N, B, P, rf) ==
    \A p \in 0..(P - 1) :
        LET r == ReplicaIdx(p, N, B, rf) IN
        /\ Len(r) = Min(rf, N)
        /\ Cardinality(Range(r)) = Min(rf, N)
        /\ Range(r) \subseteq 0..(N - 1)

OwnsIffReplica(N, B, P, rf) ==
    \A i \in 0..(N - 1) : \A p \in 0..(P - 1) :
        (p \in TopoPartitions(i, N, B, P, rf)) <=> (i \in Range(ReplicaIdx(p, N, B, rf)))

(***************************************************************************)
(* distribute_partition as a closed form.                                  *)
(***************************************************************************)
Jump(n) ==
    IF n <= 2 THEN 1
    ELSE LET c == (n \div 2) + 1 IN
         IF n % 2 = 0 /\ c % 2 = 0 THEN c + 1 ELSE c

DistLen(n, rf) == Min(rf, Min(n, MaxRF))

Distribute(h, n, rf) ==
    IF n = 0 \/ rf = 0 THEN << >>
    ELSE [k \in 1..DistLen(n, rf) |-> ((h % n) + (k - 1) * Jump(n)) % n]

\* C24 on the closed form
DistinctWalk(n) ==          \* does not depend on the start point
    \A d \in 1..(Min(n, MaxRF) - 1) : (d * Jump(n)) % n # 0

DistributeOK(h, n, rf) ==
    LET r == Distribute(h, n, rf) IN
    /\ Len(r) = (IF n = 0 \/ rf = 0 THEN 0 ELSE Min(rf, Min(n, MaxRF)))
    /\ Cardinality(Range(r)) = Len(r)
    /\ \A k \in DOMAIN r : r[k] < n
    /\ Len(r) > 0 => r[1] = h % n
    /\ \A rf2 \in 0..rf : \A k \in DOMAIN Distribute(h, n, rf2) :
           Distribute(h, n, rf2)[k] = r[k]
=============================================================================
