SPECIFICATION Spec
CONSTANTS
  Tx = {t1, t2, t3}
  Cap = 2
  MaxSeg = 1
  WatchPerSegment = TRUE
  SwapInstallsOld = TRUE
  ResetOnRoll = FALSE
  Reader = {r1}
INVARIANTS TypeOK ReaderNeverMisses EmitSched
PROPERTY PublishedMonotone
CHECK_DEADLOCK FALSE
