--------------------------- MODULE MCReplication ---------------------------
EXTENDS Replication
TxDef2 == (10 :> 1) @@ (11 :> 2)
TxDef3 == (10 :> 1) @@ (11 :> 2) @@ (12 :> 1)
TxDefP == (10 :> 1) @@ (11 :> 1) @@ (12 :> 1)
HoldDef == {<<2, 0>>}
StreamDef == (10 :> "a") @@ (11 :> "b") @@ (12 :> "a")
Bound == Len(h) <= 60
AllQuiet == {m \in msgs : ~(m.kind = "rep" /\ <<m.to, m.k>> \in HoldBack)} = {} /\ \A t \in TxId : coord[t].phase # "replicating"
Emit == (AllQuiet /\ \A t \in TxId : coord[t].phase # "none") =>
           PrintT(<<"REPLAY", ToJson([steps |-> h, rf |-> RF, streams |-> [t \in TxId |-> TxStream[t]],
                                      logs |-> [n \in Node |-> log[n]], cnts |-> [n \in Node |-> cnt[n]],
                                      acked |-> acked])>>)
----------------------------------------------------------------------------
(* Coordinator slice: the behaviours in which the REAL coordinator code can be run in the harness (one ClusterActor per   *)
(* process = one real replica).  Node 1 leads first: it coordinates the old transactions, whose messages are delivered, *)
(* lost or answered in any order; then it dies.  Nodes 2 and 3 learn it (views {2, 3}), node 3 restarts (its replicator *)
(* starts from its log), and node 2 - the next leader - coordinates NewTx with node 3 as the only reachable replica.      *)
NewTx == 12
OldTx == TxId \ {NewTx}
NoneInFlight == msgs = {}
SliceNext ==
    \/ up[1] /\ coord[NewTx].phase = "none" /\ \E t \in OldTx : ClientWriteC(t, 1)
    \/ up[1] /\ \E m \in msgs : RecvReplicateC(m, FALSE) \/ RecvReplyC(m) \/ RecvConfirmC(m, FALSE) \/ LoseC(m)
    \/ up[1] /\ NoneInFlight /\ \E t \in OldTx : GiveUpC(t)
    \/ up[1] /\ NoneInFlight /\ (\A t \in OldTx : coord[t].phase # "replicating") /\ CrashC(1)
    \/ ~up[1] /\ view[2] = Node /\ ViewChangeC(2, {2, 3})
    \/ ~up[1] /\ view[2] = {2, 3} /\ view[3] = Node /\ ViewChangeC(3, {2, 3})
    \/ ~up[1] /\ view[3] = {2, 3} /\ ncrash = 1 /\ CrashC(3)
    \/ ~up[1] /\ ~up[3] /\ RestartC(3)
    \/ ~up[1] /\ ncrash = 2 /\ up[3] /\ coord[NewTx].phase = "none" /\ ClientWriteC(NewTx, 2)
    \/ coord[NewTx].phase # "none" /\ \E m \in msgs : RecvReplicateC(m, FALSE) \/ RecvReplyC(m) \/ RecvConfirmC(m, FALSE)
    \/ coord[NewTx].phase = "replicating" /\ NoneInFlight /\ GiveUpC(NewTx)
SliceSpec == Init /\ [][SliceNext]_vars
EmitSlice == (coord[NewTx].phase \in {"acked", "failed"} /\ NoneInFlight) =>
           PrintT(<<"REPLAY", ToJson([steps |-> h, rf |-> RF, streams |-> [t \in TxId |-> TxStream[t]], real_coordinator |-> NewTx,
                                      logs |-> [n \in Node |-> log[n]], cnts |-> [n \in Node |-> cnt[n]],
                                      acked |-> acked])>>)

\* quiescent behaviours that contain a catch-up attempt
EmitCU == (AllQuiet /\ cu # "none" /\ \A t \in TxId : coord[t].phase # "none") =>
           PrintT(<<"REPLAY", ToJson([steps |-> h, rf |-> RF, streams |-> [t \in TxId |-> TxStream[t]],
                                      logs |-> [n \in Node |-> log[n]], cnts |-> [n \in Node |-> cnt[n]],
                                      acked |-> acked])>>)
\* a behaviour that ends in two transactions confirmed at one sequence, for replay (used with the PinSeq = FALSE deviation)
EmitViolation == (~OneConfirmedPerSeq) =>
           PrintT(<<"REPLAY", ToJson([steps |-> h, rf |-> RF, streams |-> [t \in TxId |-> TxStream[t]],
                                      logs |-> [n \in Node |-> log[n]], cnts |-> [n \in Node |-> cnt[n]],
                                      acked |-> acked])>>)
=============================================================================
