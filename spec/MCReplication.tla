--------------------------- MODULE MCReplication ---------------------------
EXTENDS Replication
TxDef2 == (10 :> 1) @@ (11 :> 2)
TxDef3 == (10 :> 1) @@ (11 :> 2) @@ (12 :> 1)
Bound == Len(h) <= 60
AllQuiet == msgs = {} /\ \A t \in TxId : coord[t].phase # "replicating"
Emit == (AllQuiet /\ \A t \in TxId : coord[t].phase # "none") =>
           PrintT(<<"REPLAY", ToJson([steps |-> h, rf |-> RF,
                                      logs |-> [n \in Node |-> log[n]], cnts |-> [n \in Node |-> cnt[n]],
                                      acked |-> acked])>>)
=============================================================================
