SPECIFICATION Spec
CONSTANTS
  Tx = {t1, t2, t3}
  Cap = 2
  MaxSeg = 2
  WatchPerSegment = TRUE
  SwapInstallsOld = FALSE
  ResetOnRoll = FALSE
  Reader = {r1, r2}
INVARIANTS TypeOK AckedDurable AckedPublished PublishedFindable ReaderNeverMisses
PROPERTY PublishedMonotone
VIEW ViewNoHist
CHECK_DEADLOCK FALSE
