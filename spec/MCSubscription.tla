--------------------------- MODULE MCSubscription ---------------------------
EXTENDS Subscription
\* five events: a single-event transaction, a two-event one (sequences 1-2), two single-event ones
TxFirst5 == [s \in 0..4 |-> IF s = 2 THEN 1 ELSE s]
MatchAll == 0..4
MatchStream == {0, 2, 4}          \* one stream's events (the two-event transaction spans two streams)
=============================================================================
