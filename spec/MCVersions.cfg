INIT Init
NEXT Next
CONSTANT UMax = 1000
INVARIANTS Inv Emit
CHECK_DEADLOCK FALSE
