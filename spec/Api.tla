-------------------------------- MODULE Api --------------------------------
(***************************************************************************)
(* The RESP API of one node (C22): sierradb-server request handlers        *)
(* (request/*.rs, server.rs Conn::run) on top of a single-node cluster     *)
(* (replication factor 1: an acknowledged append is confirmed).            *)
(*                                                                         *)
(* The state is the reference event store (EventStore.tla) plus the        *)
(* subscriptions of the connection.  Every command is one action that      *)
(* records the command and the reply the model prescribes:                 *)
(*                                                                         *)
(*   EAPPEND / EMAPPEND   the append rule of EventStore (Evaluate); the    *)
(*                        partition is the partition of the key (KeyPart), *)
(*                        the key of EAPPEND without PARTITION_KEY is the  *)
(*                        stream's default key (DefKey); the reply carries *)
(*                        the first sequence and the version of each event *)
(*   EGET                 the event with that id, or null                  *)
(*   ESCAN / EPSCAN       the events of the range, at most COUNT; has_more *)
(*                        must be true when events of the range were left  *)
(*                        out, false when nothing lies at or after the     *)
(*                        position the scan stopped at                     *)
(*   ESVER / EPSEQ        latest version / sequence, or null               *)
(*   ESUB / EPSUB / EACK  a subscription owes, per partition in order, the *)
(*                        matching events at or after its start position;  *)
(*                        at most (acknowledged + window) are delivered    *)
(*   RECONNECT            the client closes the connection and opens a new  *)
(*                        one: the old connection's subscriptions end       *)
(*   invalid requests     an error reply, the state unchanged, the         *)
(*                        connection alive                                 *)
(*                                                                         *)
(* Streams are identified per bucket for appends (EventStore: one key per   *)
(* stream and bucket, versions counted per bucket).  A read or             *)
(* subscription through a key is addressed to the partition of that key: a *)
(* stream that lives in another partition of the same bucket has no events *)
(* there; a subscription matches on the key as well.                        *)
(***************************************************************************)
EXTENDS EventStore, Json
CONSTANTS KeyPart,      \* Keys -> Parts : the partition a partition key hashes to
          DefKey,       \* Streams -> Keys : the key derived from the stream id
          Invalids,     \* names of invalid requests (bytes are in the harness)
          Conns,        \* client connections (a subscription belongs to the connection it was opened on)
          Strict,       \* append.strict_versioning: expectations "any" / "exists" (and a missing clause) are refused
          EmitAt
VARIABLES h, n, subs

ApiInit == ESInit /\ h = << >> /\ n = 0 /\ subs = << >>

MinOf(a, b) == IF a < b THEN a ELSE b
AscSeq(S) == LET RECURSIVE F(_) F(T) == IF T = {} THEN << >> ELSE LET m == CHOOSE x \in T : \A y \in T : x <= y IN <<m>> \o F(T \ {m}) IN F(S)
VerOut(cv) == IF cv.k = "empty" THEN 0 - 1 ELSE cv.v

----------------------------------------------------------------------------
(* read operators: replies are positions <<p, q>> (q = partition sequence)  *)
PScan(L, p, start, end, count) ==        \* end < 0: open
    LET inr == AscSeq({q \in 0..(Len(L[p]) - 1) : q >= start /\ (end < 0 \/ q <= end)})
        ret == SubSeq(inr, 1, MinOf(count, Len(inr)))
        next == IF ret = << >> THEN start ELSE ret[Len(ret)] + 1
    IN [events |-> [i \in 1..Len(ret) |-> <<p, ret[i]>>],
        must_more |-> Len(inr) > Len(ret),
        must_not_more |-> ~\E q \in 0..(Len(L[p]) - 1) : q >= next]

\* the events of stream s that a read addressed to partition p sees, as <<ver, p, q>>: the stream index is per bucket, but
\* a stream lives in the partition of the key it is bound to; addressed to another partition of the bucket it has no events
SEv(L, p, s) == {<<L[e[1]][e[2]].ver, e[1], e[2] - 1>> : e \in {x \in StreamEvents(L, Bucket(p), s) : x[1] = p}}
SScan(L, p, s, start, end, count) ==
    LET all == SEv(L, p, s)
        vs == AscSeq({t[1] : t \in {x \in all : x[1] >= start /\ (end < 0 \/ x[1] <= end)}})
        ret == SubSeq(vs, 1, MinOf(count, Len(vs)))
        next == IF ret = << >> THEN start ELSE ret[Len(ret)] + 1
        At(v) == CHOOSE t \in all : t[1] = v
    IN [events |-> [i \in 1..Len(ret) |-> <<At(ret[i])[2], At(ret[i])[3]>>],
        must_more |-> Len(vs) > Len(ret),
        must_not_more |-> ~\E t \in all : t[1] >= next]
SVer(L, p, s) == LET all == SEv(L, p, s) IN
                 IF all = {} THEN 0 - 1 ELSE CHOOSE v \in {t[1] : t \in all} : \A t \in all : t[1] <= v

\* the key may be used to subscribe to stream s: the stream is unbound in the key's bucket or bound to this very key
\* (history is read by stream id, live events are matched by key and stream id)
SubKeyOk(L, k, s) == BoundKey(L, Bucket(KeyPart[k]), s) \in {"none", k}
\* the key may be used to read stream s: the stream is unbound in the key's bucket or lives in the key's partition
ReadableBy(L, k, s) ==
    LET bk == BoundKey(L, Bucket(KeyPart[k]), s) IN IF bk = "none" THEN TRUE ELSE KeyPart[bk] = KeyPart[k]

----------------------------------------------------------------------------
(* subscriptions *)
\* sub = [kind : "P"/"S", units, from : units -> Nat, win, ack]
Due(L, sub) ==
    IF sub.kind = "P"
    THEN UNION {{<<p, q>> : q \in (sub.from[p])..(Len(L[p]) - 1)} : p \in sub.units}
    ELSE UNION {{<<KeyPart[u[1]], q>> : q \in {i - 1 : i \in {j \in 1..Len(L[KeyPart[u[1]]]) :
                       /\ L[KeyPart[u[1]]][j].s = u[2] /\ L[KeyPart[u[1]]][j].key = u[1]
                       /\ L[KeyPart[u[1]]][j].ver >= sub.from[u]}}} : u \in sub.units}
\* what a subscription owes, per unit (partition, or (key, stream)) in the unit's order: history is read unit by unit,
\* so the order between units is free
UnitDue(L, sub, u) ==
    IF sub.kind = "P" THEN [i \in 1..(IF Len(L[u]) > sub.from[u] THEN Len(L[u]) - sub.from[u] ELSE 0) |-> <<u, sub.from[u] + i - 1>>]
    ELSE LET p == KeyPart[u[1]]
             qs == AscSeq({j - 1 : j \in {i \in 1..Len(L[p]) : L[p][i].s = u[2] /\ L[p][i].key = u[1] /\ L[p][i].ver >= sub.from[u]}})
         IN [i \in 1..Len(qs) |-> <<p, qs[i]>>]
UnitSeq(sub) == LET RECURSIVE F(_) F(T) == IF T = {} THEN << >> ELSE LET m == CHOOSE x \in T : TRUE IN <<m>> \o F(T \ {m}) IN F(sub.units)
DueOut(L, sub) == LET us == UnitSeq(sub) IN [i \in 1..Len(us) |-> UnitDue(L, sub, us[i])]
SubsOut(L, S) == [i \in 1..Len(S) |-> [due |-> DueOut(L, S[i]), cap |-> S[i].ack + S[i].win, open |-> S[i].open, conn |-> S[i].conn]]
Delivered(L, sub) == MinOf(Cardinality(Due(L, sub)), sub.ack + sub.win)

NextVer(L, k, s) ==     \* next version of (k, s) in the key's partition
    Cardinality({j \in 1..Len(L[KeyPart[k]]) : L[KeyPart[k]][j].s = s /\ L[KeyPart[k]][j].key = k})

----------------------------------------------------------------------------
\* c: the connection the command is sent on
Step(c, entry) == /\ h' = Append(h, entry @@ [conn |-> c, subs |-> SubsOut(log', subs')])
                  /\ n' = n + 1

\* EAPPEND <s> <name> [PARTITION_KEY k] [EXPECTED_VERSION x] [TIMESTAMP ts]
\* ts: "none" (server clock), "ok", "zero", "maxok" (largest encodable), "enc" (not encodable: >= 2^63 ns),
\*     "ovf" (milliseconds * 10^6 overflows 64 bits)
StrictRefuses(xs) == Strict /\ \E i \in 1..Len(xs) : xs[i].k \in {"any", "exists"}
Outcome(tx) == IF StrictRefuses([i \in 1..Len(tx.evs) |-> tx.evs[i].x]) THEN [ok |-> FALSE, class |-> "strict"] ELSE Evaluate(log, tx)
EAppend(c, s, usekey, k, x, ts) ==
    LET key == IF usekey THEN k ELSE DefKey[s]
        tx == [id |-> n + 1, key |-> key, p |-> KeyPart[key], xs |-> V!Any,
               evs |-> <<[s |-> s, x |-> x, badts |-> ts \in {"enc", "ovf"}]>>, oversize |-> FALSE]
    IN /\ IF Outcome(tx).ok THEN AppendTx(tx) ELSE UNCHANGED log
       /\ UNCHANGED subs
       /\ Step(c, [cmd |-> "EAPPEND", s |-> s, key |-> IF usekey THEN k ELSE "-", x |-> x, ts |-> ts,
                p |-> KeyPart[key], res |-> Outcome(tx)])

\* EMAPPEND <k> (<s> <name> [EXPECTED_VERSION x] [TIMESTAMP ts])+
EMAppend(c, k, evs) ==      \* evs : Seq([s, x, ts])
    LET tx == [id |-> n + 1, key |-> k, p |-> KeyPart[k], xs |-> V!Any,
               evs |-> [i \in 1..Len(evs) |-> [s |-> evs[i].s, x |-> evs[i].x, badts |-> evs[i].ts \in {"enc", "ovf"}]],
               oversize |-> FALSE]
    IN /\ IF Outcome(tx).ok THEN AppendTx(tx) ELSE UNCHANGED log
       /\ UNCHANGED subs
       /\ Step(c, [cmd |-> "EMAPPEND", key |-> k, evs |-> evs, p |-> KeyPart[k], res |-> Outcome(tx)])

\* EGET <event id>: the event is named by (transaction, index); unknown ids and ids of rejected transactions give null
EGet(c, t, i) ==
    LET hits == {pq \in UNION {{<<p, q>> : q \in 1..Len(log[p])} : p \in Parts} : log[pq[1]][pq[2]].tx = t}
        first == IF hits = {} THEN 0 ELSE (CHOOSE m \in {x[2] : x \in hits} : \A y \in hits : m <= y[2])
        p == IF hits = {} THEN 0 ELSE (CHOOSE x \in hits : TRUE)[1]
        found == hits # {} /\ first + i - 1 \in {x[2] : x \in hits}
    IN /\ UNCHANGED <<log, subs>>
       /\ Step(c, [cmd |-> "EGET", tx |-> t, i |-> i,
                res |-> IF found THEN [found |-> TRUE, p |-> p, q |-> first + i - 2] ELSE [found |-> FALSE]])

\* ESCAN <s> <start> <end> [PARTITION_KEY k] [COUNT c]    start: -1 ("-") or n; end: -1 ("+") or n; count: -1 (absent: 100) or n
\* (the value UMax stands for the largest 64-bit number)
Num(x, dflt) == IF x < 0 THEN dflt ELSE x
EScan(c, s, usekey, k, start, end, count) ==
    LET key == IF usekey THEN k ELSE DefKey[s] IN
    /\ UNCHANGED <<log, subs>>
    /\ Step(c, [cmd |-> "ESCAN", s |-> s, key |-> IF usekey THEN k ELSE "-", start |-> start, end |-> end, count |-> count,
             res |-> SScan(log, KeyPart[key], s, Num(start, 0), Num(end, 0 - 1), Num(count, 100))])
\* EPSCAN <p | key> <start> <end> [COUNT c]
EPScan(c, bykey, k, p, start, end, count) ==
    LET pp == IF bykey THEN KeyPart[k] ELSE p IN
    /\ UNCHANGED <<log, subs>>
    /\ Step(c, [cmd |-> "EPSCAN", sel |-> IF bykey THEN k ELSE p, start |-> start, end |-> end, count |-> count,
             res |-> PScan(log, pp, Num(start, 0), Num(end, 0 - 1), Num(count, 100))])
\* scans with '+' as start or '-' as end are errors   (form: "plus_start", "minus_end", "plus_plus", "minus_minus")
ScanBadRange(c, which, s, p, form) ==
    /\ UNCHANGED <<log, subs>>
    /\ Step(c, [cmd |-> which, s |-> s, key |-> "-", sel |-> p, bad_range |-> form, res |-> [error |-> TRUE]])

ESVer(c, s, usekey, k) ==
    LET key == IF usekey THEN k ELSE DefKey[s] IN
    /\ UNCHANGED <<log, subs>>
    /\ Step(c, [cmd |-> "ESVER", s |-> s, key |-> IF usekey THEN k ELSE "-",
             res |-> SVer(log, KeyPart[key], s)])
EPSeq(c, bykey, k, p) ==
    /\ UNCHANGED <<log, subs>>
    /\ Step(c, [cmd |-> "EPSEQ", sel |-> IF bykey THEN k ELSE p,
             res |-> VerOut(CurSeq(log, IF bykey THEN KeyPart[k] ELSE p))])

\* an invalid request: error reply, nothing changes
Invalid(c, name) ==
    /\ name \in Invalids
    /\ UNCHANGED <<log, subs>>
    /\ Step(c, [cmd |-> "INVALID", name |-> name, res |-> [error |-> TRUE]])

\* ESUB <s> [PARTITION_KEY k] ... [FROM LATEST | FROM v | FROM MAP s=v ...] [WINDOW w]
\*   streams : Seq([s, key ("-": default)]), distinct stream ids;  from : [k : none/latest/all/map ...]
WinOf(w) == IF w < 0 THEN 1000 ELSE w      \* -1: no WINDOW clause
ESub(c, streams, from, w) ==
    LET KeyOf(i) == IF streams[i].key = "-" THEN DefKey[streams[i].s] ELSE streams[i].key
        units == {<<KeyOf(i), streams[i].s>> : i \in 1..Len(streams)}
        mapped(u) == from.k = "map" /\ \E j \in 1..Len(from.m) : from.m[j].s = u[2]
        start(u) == IF from.k = "all" THEN from.v
                    ELSE IF mapped(u) THEN (CHOOSE e \in {from.m[j] : j \in 1..Len(from.m)} : e.s = u[2]).v
                    ELSE NextVer(log, u[1], u[2])
    IN /\ subs' = Append(subs, [kind |-> "S", units |-> units, from |-> [u \in units |-> start(u)], win |-> WinOf(w), ack |-> 0,
                                 conn |-> c, open |-> TRUE])
       /\ UNCHANGED log
       /\ Step(c, [cmd |-> "ESUB", streams |-> streams, from |-> from, win |-> w, res |-> [sub |-> Len(subs) + 1]])
\* EPSUB * | p | p1,p2 | a-b | key  [FROM LATEST | FROM n | FROM MAP p=n ... [DEFAULT d]] [WINDOW w]
\*   sel : [k : all/one/list/range/key ...]
SelParts(sel) ==
    CASE sel.k = "all" -> Parts
      [] sel.k = "one" -> {sel.p}
      [] sel.k = "list" -> {sel.ps[i] : i \in 1..Len(sel.ps)}
      [] sel.k = "range" -> sel.a..sel.b
      [] sel.k = "key" -> {KeyPart[sel.key]}
EPSub(c, sel, from, w) ==
    LET units == SelParts(sel)
        mapped(p) == from.k = "map" /\ \E j \in 1..Len(from.m) : from.m[j].p = p
        start(p) == IF from.k = "all" THEN from.v
                    ELSE IF mapped(p) THEN (CHOOSE e \in {from.m[j] : j \in 1..Len(from.m)} : e.p = p).v
                    ELSE IF from.k = "map" /\ from.d >= 0 THEN from.d
                    ELSE Len(log[p])
    IN /\ subs' = Append(subs, [kind |-> "P", units |-> units, from |-> [p \in units |-> start(p)], win |-> WinOf(w), ack |-> 0,
                                 conn |-> c, open |-> TRUE])
       /\ UNCHANGED log
       /\ Step(c, [cmd |-> "EPSUB", sel |-> sel, from |-> from, win |-> w, res |-> [sub |-> Len(subs) + 1]])
\* EACK <subscription> <cursor>: acknowledges the first c deliveries (cursor c - 1)
EAck(c, i, upto) ==
    /\ i \in 1..Len(subs) /\ subs[i].open /\ subs[i].conn = c
    /\ upto > subs[i].ack /\ upto <= Delivered(log, subs[i])
    /\ subs' = [subs EXCEPT ![i].ack = upto]
    /\ UNCHANGED log
    /\ Step(c, [cmd |-> "EACK", sub |-> i, upto |-> upto, res |-> [ok |-> TRUE]])
\* EACK for a subscription of another connection (or a closed one): not found, nothing changes
EAckForeign(c, i) ==
    /\ i \in 1..Len(subs) /\ (subs[i].conn # c \/ ~subs[i].open)
    /\ UNCHANGED <<log, subs>>
    /\ Step(c, [cmd |-> "EACK_FOREIGN", sub |-> i, res |-> [error |-> TRUE]])
\* the client closes the connection and opens a new one: the subscriptions of the old one end
Reconnect(c) ==
    /\ subs' = [i \in 1..Len(subs) |-> IF subs[i].conn = c THEN [subs[i] EXCEPT !.open = FALSE] ELSE subs[i]]
    /\ UNCHANGED log
    /\ Step(c, [cmd |-> "RECONNECT", res |-> [ok |-> TRUE]])
\* HELLO 3 and PING
Hello(c) == UNCHANGED <<log, subs>> /\ Step(c, [cmd |-> "HELLO", res |-> [server |-> "sierradb", num_partitions |-> NPart]])
Ping(c) == UNCHANGED <<log, subs>> /\ Step(c, [cmd |-> "PING", res |-> "PONG"])

----------------------------------------------------------------------------
(* properties of the prescribed replies *)
\* an accepted append reports the versions its events are stored with, contiguously from the reported first sequence
LastStep == h[Len(h)]
AppendReplyMatchesLog ==
    (h # << >> /\ LastStep.cmd \in {"EAPPEND", "EMAPPEND"} /\ LastStep.res.ok) =>
        LET r == LastStep.res
            p == LastStep.p
        IN /\ Len(log[p]) = r.first + Len(r.vers)
           /\ \A i \in 1..Len(r.vers) : log[p][r.first + i].ver = r.vers[i] /\ log[p][r.first + i].tx = n
\* paging through a scan with has_more = must_more reaches every event of the range exactly once
RECURSIVE PageAll(_, _, _, _, _)
PageAll(L, p, start, end, count) ==
    LET r == PScan(L, p, start, end, count) IN
    IF ~r.must_more \/ r.events = << >> THEN r.events
    ELSE r.events \o PageAll(L, p, r.events[Len(r.events)][2] + 1, end, count)
PagingComplete ==
    \A p \in Parts : \A start \in 0..2 : \A end \in {0 - 1, 1, 3} : \A count \in 1..2 :
        PageAll(log, p, start, end, count) = PScan(log, p, start, end, 1000).events
\* must_more and must_not_more never contradict each other
FlagsConsistent ==
    \A p \in Parts : \A start \in 0..3 : \A end \in {0 - 1, 0, 2} : \A count \in 0..3 :
        LET r == PScan(log, p, start, end, count) IN ~(r.must_more /\ r.must_not_more)
\* deliveries never exceed acknowledged + window
WindowBound == \A i \in 1..Len(subs) : Delivered(log, subs[i]) <= subs[i].ack + subs[i].win
\* only the owning connection acknowledges
LastAckOwned == (h # << >> /\ LastStep.cmd = "EACK") => subs[LastStep.sub].conn = LastStep.conn
ApiInv == AppendReplyMatchesLog /\ FlagsConsistent /\ WindowBound /\ LastAckOwned /\ StreamGapless /\ OneKeyPerStream /\ TxContiguous
=============================================================================
