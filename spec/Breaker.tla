------------------------------ MODULE Breaker ------------------------------
(***************************************************************************)
(* The write circuit breaker (sierradb-cluster circuit_breaker.rs) at the  *)
(* grain of its atomic operations (C26).  Every load / store / fetch_add / *)
(* compare_exchange and every clock reading is one step of a thread; the   *)
(* clock advances independently.  The labels are the names of the          *)
(* cfg-gated hook points placed in front of the same operations in the     *)
(* code, so that a behaviour of this module is a schedule the harness can  *)
(* force on real threads.                                                  *)
(*                                                                         *)
(* Three switches describe code variants (the design is the first value):  *)
(*   Saturating       TRUE:  now - last_failure saturates at 0             *)
(*                    FALSE: plain subtraction (underflows when a          *)
(*                           concurrent failure report is newer than now)  *)
(*   CountTransition  TRUE:  the request that moves Open -> HalfOpen counts*)
(*                           itself against half_open_max_calls            *)
(*                    FALSE: it is admitted without being counted          *)
(*   ResetAtHalfOpen  FALSE: half-open counters are reset when the circuit *)
(*                           opens / closes only                           *)
(*                    TRUE:  transition_to_half_open resets them again,    *)
(*                           whether or not its compare_exchange succeeded *)
(***************************************************************************)
EXTENDS Naturals, Sequences, FiniteSets, TLC
CONSTANTS Thread, MaxOps, Threshold, Timeout, MaxCalls, SuccThreshold, MaxClock,
          Saturating, CountTransition, ResetAtHalfOpen

VARIABLES state, fc, lft, hocc, hosc,      \* the breaker's atomics
          clock,
          pc, op, loc, nops, ret,          \* per thread: label, operation, locals, ops done, last result
          probes,                          \* ghost: requests admitted as probes since the last Open -> HalfOpen
          incs,                            \* ghost: failure increments since the failure count was last reset
          underflow,                       \* ghost: a subtraction underflowed (a panic in the code)
          openedEarly,                     \* ghost: the circuit opened from Closed below the threshold
          lateReset                        \* ghost: a thread that opened / closed the circuit reset the half-open
                                           \* call counter only after a new half-open episode had begun
vars == <<state, fc, lft, hocc, hosc, clock, pc, op, loc, nops, ret, probes, incs, underflow, openedEarly,
          lateReset>>

OpKinds == {"allow", "succ", "fail", "est"}
NoLoc == [now |-> 0, cont |-> "done"]

Init ==
    /\ state = "closed" /\ fc = 0 /\ lft = 0 /\ hocc = 0 /\ hosc = 0 /\ clock = 1
    /\ pc = [t \in Thread |-> "idle"] /\ op = [t \in Thread |-> "none"]
    /\ loc = [t \in Thread |-> NoLoc] /\ nops = [t \in Thread |-> 0]
    /\ ret = [t \in Thread |-> "none"]
    /\ probes = 0 /\ incs = 0 /\ underflow = FALSE /\ openedEarly = FALSE /\ lateReset = FALSE

Unch(S) == UNCHANGED S
Goto(t, l) == pc' = [pc EXCEPT ![t] = l]
Done(t, r) == pc' = [pc EXCEPT ![t] = "idle"] /\ ret' = [ret EXCEPT ![t] = r]

Start(t, k) ==
    /\ pc[t] = "idle" /\ nops[t] < MaxOps
    /\ op' = [op EXCEPT ![t] = k] /\ nops' = [nops EXCEPT ![t] = @ + 1]
    /\ loc' = [loc EXCEPT ![t] = NoLoc]
    /\ Goto(t, CASE k = "allow" -> "cb.allow.load_state" [] k = "succ" -> "cb.succ.store_lst"
                 [] k = "fail" -> "cb.fail.store_lft" [] k = "est" -> "cb.est.load_state")
    /\ Unch(<<state, fc, lft, hocc, hosc, clock, ret, probes, incs, underflow, openedEarly, lateReset>>)

Tick(d) == clock + d <= MaxClock /\ clock' = clock + d
           /\ Unch(<<state, fc, lft, hocc, hosc, pc, op, loc, nops, ret, probes, incs, underflow, openedEarly, lateReset>>)

Sub(a, b) == IF a >= b THEN a - b ELSE 0

\* ---------------------------------------------------------------- should_allow_request
AllowLoadState(t) ==
    /\ pc[t] = "cb.allow.load_state"
    /\ CASE state = "closed" -> Done(t, "true") /\ Unch(<<loc>>)
         [] state = "open" -> Goto(t, "cb.allow.clock") /\ Unch(<<ret, loc>>)
         [] state = "half" -> Goto(t, "cb.allow.inc_calls") /\ Unch(<<ret, loc>>)
    /\ Unch(<<state, fc, lft, hocc, hosc, clock, op, nops, probes, incs, underflow, openedEarly, lateReset>>)

AllowClock(t) ==
    /\ pc[t] = "cb.allow.clock"
    /\ loc' = [loc EXCEPT ![t].now = clock] /\ Goto(t, "cb.allow.load_lft")
    /\ Unch(<<state, fc, lft, hocc, hosc, clock, op, nops, ret, probes, incs, underflow, openedEarly, lateReset>>)

AllowLoadLft(t) ==
    /\ pc[t] = "cb.allow.load_lft"
    /\ IF loc[t].now < lft /\ ~Saturating
       THEN underflow' = TRUE /\ Done(t, "panic") /\ Unch(<<loc>>)
       ELSE /\ Unch(<<underflow>>)
            /\ IF Sub(loc[t].now, lft) >= Timeout
               THEN Goto(t, "cb.tho.cas") /\ loc' = [loc EXCEPT ![t].cont = "allow"] /\ Unch(<<ret>>)
               ELSE Done(t, "false") /\ Unch(<<loc>>)
    /\ Unch(<<state, fc, lft, hocc, hosc, clock, op, nops, probes, incs, openedEarly, lateReset>>)

\* the tail of should_allow_request after transition_to_half_open returned
AfterTho(t) ==
    IF loc[t].cont = "allow"
    THEN IF CountTransition THEN Goto(t, "cb.allow.inc_calls") /\ Unch(<<ret, probes>>)
         ELSE Done(t, "true") /\ probes' = probes + 1
    ELSE Done(t, "unit") /\ Unch(<<probes>>)

AllowIncCalls(t) ==
    /\ pc[t] = "cb.allow.inc_calls"
    /\ hocc' = hocc + 1
    /\ IF hocc < MaxCalls THEN Done(t, "true") /\ probes' = probes + 1
       ELSE Done(t, "false") /\ Unch(<<probes>>)
    /\ Unch(<<state, fc, lft, hosc, clock, op, loc, nops, incs, underflow, openedEarly, lateReset>>)

\* ---------------------------------------------------------------- transition_to_half_open
ThoCas(t) ==
    /\ pc[t] = "cb.tho.cas"
    /\ IF state = "open" THEN state' = "half" ELSE Unch(<<state>>)
    /\ IF ResetAtHalfOpen
       THEN Goto(t, "cb.tho.calls") /\ Unch(<<ret>>) /\ probes' = IF state = "open" THEN 0 ELSE probes
       ELSE /\ LET p == IF state = "open" THEN 0 ELSE probes IN
               IF loc[t].cont = "allow"
               THEN IF CountTransition THEN Goto(t, "cb.allow.inc_calls") /\ Unch(<<ret>>) /\ probes' = p
                    ELSE Done(t, "true") /\ probes' = p + 1
               ELSE Done(t, "unit") /\ probes' = p
    /\ Unch(<<fc, lft, hocc, hosc, clock, op, loc, nops, incs, underflow, openedEarly, lateReset>>)

ThoCalls(t) ==
    /\ pc[t] = "cb.tho.calls" /\ hocc' = 0 /\ Goto(t, "cb.tho.succ")
    /\ Unch(<<state, fc, lft, hosc, clock, op, loc, nops, ret, probes, incs, underflow, openedEarly, lateReset>>)
ThoSucc(t) ==
    /\ pc[t] = "cb.tho.succ" /\ hosc' = 0 /\ AfterTho(t)
    /\ Unch(<<state, fc, lft, hocc, clock, op, loc, nops, incs, underflow, openedEarly, lateReset>>)

\* ---------------------------------------------------------------- record_success
SuccStoreLst(t) ==
    /\ pc[t] = "cb.succ.store_lst" /\ Goto(t, "cb.succ.load_state")
    /\ Unch(<<state, fc, lft, hocc, hosc, clock, op, loc, nops, ret, probes, incs, underflow, openedEarly, lateReset>>)
SuccLoadState(t) ==
    /\ pc[t] = "cb.succ.load_state"
    /\ CASE state = "closed" -> Goto(t, "cb.succ.reset_fc") /\ Unch(<<loc>>)
         [] state = "half" -> Goto(t, "cb.succ.inc_succ") /\ Unch(<<loc>>)
         [] state = "open" -> Goto(t, "cb.tho.cas") /\ loc' = [loc EXCEPT ![t].cont = "succ"]
    /\ Unch(<<state, fc, lft, hocc, hosc, clock, op, nops, ret, probes, incs, underflow, openedEarly, lateReset>>)
SuccResetFc(t) ==
    /\ pc[t] = "cb.succ.reset_fc" /\ fc' = 0 /\ incs' = 0 /\ Done(t, "unit")
    /\ Unch(<<state, lft, hocc, hosc, clock, op, loc, nops, probes, underflow, openedEarly, lateReset>>)
SuccIncSucc(t) ==
    /\ pc[t] = "cb.succ.inc_succ" /\ hosc' = hosc + 1
    /\ IF hosc + 1 >= SuccThreshold THEN Goto(t, "cb.tc.state") /\ Unch(<<ret>>) ELSE Done(t, "unit")
    /\ Unch(<<state, fc, lft, hocc, clock, op, loc, nops, probes, incs, underflow, openedEarly, lateReset>>)
TcState(t) ==
    /\ pc[t] = "cb.tc.state" /\ state' = "closed" /\ Goto(t, "cb.tc.fc")
    /\ Unch(<<fc, lft, hocc, hosc, clock, op, loc, nops, ret, probes, incs, underflow, openedEarly, lateReset>>)
TcFc(t) ==
    /\ pc[t] = "cb.tc.fc" /\ fc' = 0 /\ incs' = 0 /\ Goto(t, "cb.tc.calls")
    /\ Unch(<<state, lft, hocc, hosc, clock, op, loc, nops, ret, probes, underflow, openedEarly, lateReset>>)
TcCalls(t) ==
    /\ pc[t] = "cb.tc.calls" /\ hocc' = 0 /\ Goto(t, "cb.tc.succ")
    /\ lateReset' = (lateReset \/ state = "half")
    /\ Unch(<<state, fc, lft, hosc, clock, op, loc, nops, ret, probes, incs, underflow, openedEarly>>)
TcSucc(t) ==
    /\ pc[t] = "cb.tc.succ" /\ hosc' = 0 /\ Done(t, "unit")
    /\ Unch(<<state, fc, lft, hocc, clock, op, loc, nops, probes, incs, underflow, openedEarly, lateReset>>)

\* ---------------------------------------------------------------- record_failure
FailStoreLft(t) ==
    /\ pc[t] = "cb.fail.store_lft" /\ lft' = clock /\ Goto(t, "cb.fail.load_state")
    /\ Unch(<<state, fc, hocc, hosc, clock, op, loc, nops, ret, probes, incs, underflow, openedEarly, lateReset>>)
FailLoadState(t) ==
    /\ pc[t] = "cb.fail.load_state"
    /\ CASE state = "closed" -> Goto(t, "cb.fail.inc_fc") /\ Unch(<<ret>>)
         [] state = "half" -> Goto(t, "cb.to.state") /\ Unch(<<ret>>)
         [] state = "open" -> Done(t, "unit")
    /\ Unch(<<state, fc, lft, hocc, hosc, clock, op, loc, nops, probes, incs, underflow, openedEarly, lateReset>>)
FailIncFc(t) ==
    /\ pc[t] = "cb.fail.inc_fc" /\ fc' = fc + 1 /\ incs' = incs + 1
    /\ IF fc + 1 >= Threshold
       THEN Goto(t, "cb.to.state") /\ Unch(<<ret>>) /\ openedEarly' = (openedEarly \/ incs + 1 < Threshold)
       ELSE Done(t, "unit") /\ Unch(<<openedEarly, lateReset>>)
    /\ Unch(<<state, lft, hocc, hosc, clock, op, loc, nops, probes, underflow, lateReset>>)
ToState(t) ==
    /\ pc[t] = "cb.to.state" /\ state' = "open" /\ Goto(t, "cb.to.calls")
    /\ Unch(<<fc, lft, hocc, hosc, clock, op, loc, nops, ret, probes, incs, underflow, openedEarly, lateReset>>)
ToCalls(t) ==
    /\ pc[t] = "cb.to.calls" /\ hocc' = 0 /\ Goto(t, "cb.to.succ")
    /\ lateReset' = (lateReset \/ state = "half")
    /\ Unch(<<state, fc, lft, hosc, clock, op, loc, nops, ret, probes, incs, underflow, openedEarly>>)
ToSucc(t) ==
    /\ pc[t] = "cb.to.succ" /\ hosc' = 0 /\ Done(t, "unit")
    /\ Unch(<<state, fc, lft, hocc, clock, op, loc, nops, probes, incs, underflow, openedEarly, lateReset>>)

\* ---------------------------------------------------------------- estimated_recovery_time
EstLoadState(t) ==
    /\ pc[t] = "cb.est.load_state"
    /\ CASE state = "open" -> Goto(t, "cb.est.clock") /\ Unch(<<ret>>)
         [] state = "half" -> Done(t, "zero")
         [] state = "closed" -> Done(t, "none")
    /\ Unch(<<state, fc, lft, hocc, hosc, clock, op, loc, nops, probes, incs, underflow, openedEarly, lateReset>>)
EstClock(t) ==
    /\ pc[t] = "cb.est.clock" /\ loc' = [loc EXCEPT ![t].now = clock] /\ Goto(t, "cb.est.load_lft")
    /\ Unch(<<state, fc, lft, hocc, hosc, clock, op, nops, ret, probes, incs, underflow, openedEarly, lateReset>>)
EstLoadLft(t) ==
    /\ pc[t] = "cb.est.load_lft"
    /\ IF loc[t].now < lft /\ ~Saturating
       THEN underflow' = TRUE /\ Done(t, "panic")
       ELSE Unch(<<underflow>>) /\
            Done(t, IF Sub(loc[t].now, lft) >= Timeout THEN "zero" ELSE "wait")
    /\ Unch(<<state, fc, lft, hocc, hosc, clock, op, loc, nops, probes, incs, openedEarly, lateReset>>)

Step(t) ==
    \/ \E k \in OpKinds : Start(t, k)
    \/ AllowLoadState(t) \/ AllowClock(t) \/ AllowLoadLft(t) \/ AllowIncCalls(t)
    \/ ThoCas(t) \/ ThoCalls(t) \/ ThoSucc(t)
    \/ SuccStoreLst(t) \/ SuccLoadState(t) \/ SuccResetFc(t) \/ SuccIncSucc(t)
    \/ TcState(t) \/ TcFc(t) \/ TcCalls(t) \/ TcSucc(t)
    \/ FailStoreLft(t) \/ FailLoadState(t) \/ FailIncFc(t) \/ ToState(t) \/ ToCalls(t) \/ ToSucc(t)
    \/ EstLoadState(t) \/ EstClock(t) \/ EstLoadLft(t)

Next == (\E t \in Thread : Step(t)) \/ (\E d \in {1, Timeout} : Tick(d))
Spec == Init /\ [][Next]_vars

----------------------------------------------------------------------------
(* C26 *)
NoUnderflow == ~underflow
OpensOnlyAfterThreshold == ~openedEarly
ProbesBounded == probes <= MaxCalls
\* ... which the two-variable design (state and call counter are separate atomics) can only
\* guarantee as long as the thread that opened or closed the circuit has also finished resetting
\* the counter before the next half-open episode begins (recorded finding)
ProbesBoundedUnlessLateReset == lateReset \/ probes <= MaxCalls
=============================================================================
