-------------------------------- MODULE Ids --------------------------------
(***************************************************************************)
(* Layout of SierraDB event ids (sierradb/src/id.rs).  A UUID is a         *)
(* sequence of 128 bits, index 1 = most significant bit (bit 127).         *)
(*   [timestamp:48][rand12:12][version:4 = 0111][variant:2 = 10]           *)
(*   [partition hash:16][rand46:46]                                        *)
(* The single-event-transaction flag is the most significant bit of byte 8,*)
(* i.e. bit 63 = index 65.                                                 *)
(***************************************************************************)
EXTENDS Naturals, Sequences

Bit == {0, 1}
\* big-endian bit string of width w for value v
RECURSIVE ToBits(_, _)
ToBits(v, w) == IF w = 0 THEN << >> ELSE ToBits(v \div 2, w - 1) \o <<v % 2>>
RECURSIVE FromBits(_)
FromBits(b) == IF b = << >> THEN 0 ELSE 2 * FromBits(SubSeq(b, 1, Len(b) - 1)) + b[Len(b)]

\* ts, r12, r46 are given as bit strings (they do not fit TLC integers)
Compose(ts48, r12, h, r46) ==
    ts48 \o r12 \o <<0, 1, 1, 1>> \o <<1, 0>> \o ToBits(h, 16) \o r46

HashOf(u) == FromBits(SubSeq(u, 67, 82))        \* bits 61..46
FlagIndex == 65                                  \* bit 63
GetFlag(u) == u[FlagIndex] = 1
SetFlag(u, f) == [u EXCEPT ![FlagIndex] = IF f THEN 1 ELSE 0]
Validate(u, h) == HashOf(u) = h

WellFormed(u, h) ==
    /\ Len(u) = 128
    /\ SubSeq(u, 61, 64) = <<0, 1, 1, 1>>
    /\ SubSeq(u, 65, 66) = <<1, 0>>
    /\ HashOf(u) = h

\* C23 on the layout
EmbedsHash(ts48, r12, h, r46) ==
    LET u == Compose(ts48, r12, h, r46) IN WellFormed(u, h) /\ Validate(u, h)
FlagPreserves(u, f) ==
    LET v == SetFlag(u, f) IN
    /\ GetFlag(v) = f
    /\ HashOf(v) = HashOf(u)
    /\ \A i \in 1..128 : i # FlagIndex => v[i] = u[i]
    /\ SetFlag(v, GetFlag(u)) = u

\* routing: partition and bucket as the system derives them
PartitionOf(h, P) == h % P
BucketOf(p, B) == p % B
=============================================================================
