---------------------------- MODULE MCEventStore ----------------------------
(* Model-checking / behaviour-generation instance of EventStore.              *)
(*  - HNext: every transaction shape within small bounds (exhaustive).        *)
(*  - SimNext: one randomly drawn transaction per step (simulation; biased    *)
(*    towards acceptable expectations so that logs grow), used to generate    *)
(*    the behaviours that are replayed on the real Database.                  *)
EXTENDS EventStore, Json
CONSTANTS MaxEv, MaxTx, MaxV, EmitAt
VARIABLES h, ntx

Exps == {V!Any, V!Exists, V!Empty} \cup {V!Exact(v) : v \in 0..MaxV}

HInit == ESInit /\ h = << >> /\ ntx = 0

\* observable projection after a step
VerOut(cv) == IF cv.k = "empty" THEN 0 - 1 ELSE cv.v
Proj(L) == [lv |-> [b \in 1..NB |-> [s \in Streams |-> VerOut(CurVer(L, b - 1, s))]],
            ls |-> [p \in 1..NPart |-> VerOut(CurSeq(L, p - 1))]]
LogOut(L) == [p \in 1..NPart |-> [i \in 1..Len(L[p - 1]) |->
                 [tx |-> L[p - 1][i].tx, s |-> L[p - 1][i].s, ver |-> L[p - 1][i].ver,
                  key |-> L[p - 1][i].key]]]

Do(tx) ==
    /\ AppendTx(tx)
    /\ ntx' = ntx + 1
    /\ h' = Append(h, [op |-> "append", tx |-> tx, res |-> Evaluate(log, tx), post |-> Proj(log')])

HAppend ==
    /\ ntx < MaxTx
    /\ \E k \in Keys, p \in Parts, n \in 1..MaxEv, xs \in Exps :
       \E evs \in [1..n -> [s : Streams, x : Exps, badts : {FALSE}]] :
          Do([id |-> ntx + 1, key |-> k, p |-> p, xs |-> xs, evs |-> evs, oversize |-> FALSE])
HAppendBad ==    \* encoding failures: one bad timestamp position or an oversized payload
    /\ ntx < MaxTx
    /\ \E k \in Keys, p \in Parts, n \in 1..MaxEv, bad \in 0..MaxEv, s \in Streams :
          bad <= n /\
          Do([id |-> ntx + 1, key |-> k, p |-> p, xs |-> V!Any,
              evs |-> [i \in 1..n |-> [s |-> s, x |-> V!Any, badts |-> (i = bad)]],
              oversize |-> (bad = 0)])
HNext == HAppend \/ HAppendBad

----------------------------------------------------------------------------
Pick(seq) == seq[RandomElement(1..Len(seq))]
\* expectations likely to be right, wrong by one, or generic
XFor(cv) ==
    IF cv.k = "empty"
    THEN <<V!Any, V!Empty, V!Empty, V!Exists, V!Exact(0)>>
    ELSE <<V!Any, V!Exists, V!Exact(cv.v), V!Exact(cv.v), V!Exact(cv.v), V!Exact(cv.v + 1),
           V!Empty, IF cv.v > 0 THEN V!Exact(cv.v - 1) ELSE V!Exact(1)>>

SimAppend ==
    \E p \in {RandomElement(Parts)}, n \in {Pick(<<1, 1, 1, 2, 2, 3>>)} :
    \E ss \in {[i \in 1..n |-> RandomElement(Streams)]} :
    \E k \in {LET bk == BoundKey(log, Bucket(p), ss[1]) IN
              IF bk # "none" /\ RandomElement(1..10) > 1 THEN bk ELSE RandomElement(Keys)} :
    \E evs \in {[i \in 1..n |->
                   [s |-> ss[i],
                    \* in-transaction bumps are not anticipated here: later events of a repeated
                    \* stream therefore often carry a stale exact expectation, which is the point
                    x |-> IF RandomElement(1..3) = 1 /\ i > 1 /\ \E j \in 1..(i - 1) : ss[j] = ss[i]
                          THEN Pick(<<V!Any, V!Exists, V!Empty,
                                      V!Exact(V!NextOf(CurVer(log, Bucket(p), ss[i]))),
                                      V!Exact(V!NextOf(CurVer(log, Bucket(p), ss[i])) + 1)>>)
                          ELSE Pick(XFor(CurVer(log, Bucket(p), ss[i]))),
                    badts |-> RandomElement(1..25) = 1]]} :
    \E xs \in {Pick(<<V!Any, V!Any, V!Any>> \o XFor(CurSeq(log, p)))} :
       Do([id |-> ntx + 1, key |-> k, p |-> p, xs |-> xs, evs |-> evs,
           oversize |-> RandomElement(1..40) = 1])

SimNext == SimAppend

View == <<log, ntx>>
HBound == ntx <= MaxTx
Emit == (ntx = EmitAt) => PrintT(<<"REPLAY", ToJson([steps |-> h, log |-> LogOut(log)])>>)

\* the model's own C02 invariants
Inv == StreamGapless /\ OneKeyPerStream /\ TxContiguous
=============================================================================
