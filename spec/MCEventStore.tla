---------------------------- MODULE MCEventStore ----------------------------
(* Model-checking / behaviour-generation instance of EventStore.              *)
(*  - HNext: every transaction shape within small bounds (exhaustive).        *)
(*  - SimNext: one randomly drawn transaction per step (simulation; biased    *)
(*    towards acceptable expectations so that logs grow), used to generate    *)
(*    the behaviours that are replayed on the real Database.                  *)
EXTENDS EventStore, Json
CONSTANTS MaxEv, MaxTx, MaxV, EmitAt
VARIABLES h, ntx

Exps == {V!Any, V!Exists, V!Empty} \cup {V!Exact(v) : v \in 0..MaxV}

HInit == ESInit /\ h = << >> /\ ntx = 0

\* observable projection after a step
VerOut(cv) == IF cv.k = "empty" THEN 0 - 1 ELSE cv.v
Proj(L) == [lv |-> [b \in 1..NB |-> [s \in Streams |-> VerOut(CurVer(L, b - 1, s))]],
            ls |-> [p \in 1..NPart |-> VerOut(CurSeq(L, p - 1))]]
LogOut(L) == [p \in 1..NPart |-> [i \in 1..Len(L[p - 1]) |->
                 [tx |-> L[p - 1][i].tx, s |-> L[p - 1][i].s, ver |-> L[p - 1][i].ver,
                  key |-> L[p - 1][i].key]]]

Do(tx) ==
    /\ AppendTx(tx)
    /\ ntx' = ntx + 1
    /\ h' = Append(h, [op |-> "append", tx |-> tx, res |-> Evaluate(log, tx), post |-> Proj(log')])

HAppend ==
    /\ ntx < MaxTx
    /\ \E k \in Keys, p \in Parts, n \in 1..MaxEv, xs \in Exps :
       \E evs \in [1..n -> [s : Streams, x : Exps, badts : {FALSE}]] :
          Do([id |-> ntx + 1, key |-> k, p |-> p, xs |-> xs, evs |-> evs, oversize |-> FALSE])
HAppendBad ==    \* encoding failures: one bad timestamp position or an oversized payload
    /\ ntx < MaxTx
    /\ \E k \in Keys, p \in Parts, n \in 1..MaxEv, bad \in 0..MaxEv, s \in Streams :
          bad <= n /\
          Do([id |-> ntx + 1, key |-> k, p |-> p, xs |-> V!Any,
              evs |-> [i \in 1..n |-> [s |-> s, x |-> V!Any, badts |-> (i = bad)]],
              oversize |-> (bad = 0)])
HNext == HAppend \/ HAppendBad

----------------------------------------------------------------------------
\* TLC evaluates a constant-level expression such as RandomElement(1..6) once and reuses the
\* value; the draw is therefore made to depend (vacuously) on the state
Rnd(S) == RandomElement({x \in S : ntx >= 0})
Pick(seq) == seq[Rnd(1..Len(seq))]
Hot == CHOOSE s \in Streams : TRUE
\* expectations likely to be right, wrong by one, or generic
XFor(cv) ==
    IF cv.k = "empty"
    THEN <<V!Any, V!Empty, V!Empty, V!Exists, V!Exact(0)>>
    ELSE <<V!Any, V!Exists, V!Exact(cv.v), V!Exact(cv.v), V!Exact(cv.v), V!Exact(cv.v + 1),
           V!Empty, IF cv.v > 0 THEN V!Exact(cv.v - 1) ELSE V!Exact(1)>>

SimAppend ==
    \E p \in {Rnd(Parts)}, n \in {Pick(<<1, 1, 1, 2, 2, 3>>)} :
    \* the key first, then streams that key may touch (unbound, or bound to it), so that
    \* multi-stream transactions are usually acceptable; one hot stream, so that stream
    \* versions differ widely between the streams of one transaction (position hand-over
    \* between segments must cope with that)
    \E k \in {Rnd(Keys)} :
    \E pool \in {LET ok == {s \in Streams : BoundKey(log, Bucket(p), s) \in {"none", k}} IN
                 IF ok = {} \/ Rnd(1..10) = 1 THEN Streams ELSE ok} :
    \E ss \in {[i \in 1..n |-> IF Hot \in pool /\ Rnd(1..10) <= 4 THEN Hot
                               ELSE Rnd(pool)]} :
    \E evs \in {[i \in 1..n |->
                   LET cv == CurVer(log, Bucket(p), ss[i])
                       cnt == Cardinality({j \in 1..(i - 1) : ss[j] = ss[i]})   \* earlier events of the stream
                       ant == (IF cv.k = "empty" THEN 0 - 1 ELSE cv.v) + cnt      \* version they leave behind
                       right == IF ant < 0 THEN V!Empty ELSE V!Exact(ant)
                   IN
                   [s |-> ss[i],
                    \* mostly the right expectation (in-transaction bumps anticipated); otherwise a
                    \* generic one, one that is off by one, or the stale pre-transaction version
                    x |-> IF Rnd(1..10) <= 7 THEN Pick(<<right, right, right, V!Any>>)
                          ELSE Pick(<<V!Exists, V!Empty, V!Exact(ant + 1),
                                      V!Exact(IF ant > 0 THEN ant - 1 ELSE 1)>> \o XFor(cv)),
                    \* a later event that cannot be encoded makes the write fail half way (after
                    \* earlier events were written), which is the interesting failure
                    badts |-> (i > 1 /\ Rnd(1..8) = 1) \/ Rnd(1..40) = 1]]} :
    \E xs \in {Pick(<<V!Any, V!Any, V!Any>> \o XFor(CurSeq(log, p)))} :
       Do([id |-> ntx + 1, key |-> k, p |-> p, xs |-> xs, evs |-> evs,
           oversize |-> Rnd(1..40) = 1])

SimNext == SimAppend

View == <<log, ntx>>
HBound == ntx <= MaxTx
Emit == (ntx = EmitAt) => PrintT(<<"REPLAY", ToJson([steps |-> h, log |-> LogOut(log)])>>)

\* the model's own C02 invariants
Inv == StreamGapless /\ OneKeyPerStream /\ TxContiguous
=============================================================================
