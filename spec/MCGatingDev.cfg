INIT Init
NEXT Next
CONSTANTS
  MaxTx = 3
  SiblingReadsIsolated = FALSE
  RF = 3
INVARIANTS GateIsPrefix UnconfirmedHidden SiblingRevealsNothingUnconfirmed StreamPrefix Emit
CHECK_DEADLOCK FALSE
