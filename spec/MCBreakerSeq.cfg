INIT HInit
NEXT HNext
CONSTANTS
  Thread = {"t1"}
  MaxOps = 6
  Threshold = 2
  Timeout = 2
  MaxCalls = 1
  SuccThreshold = 1
  MaxClock = 6
  Saturating = TRUE
  CountTransition = TRUE
  ResetAtHalfOpen = FALSE
VIEW View
INVARIANTS NoUnderflow OpensOnlyAfterThreshold ProbesBoundedUnlessLateReset Emit
CHECK_DEADLOCK FALSE
