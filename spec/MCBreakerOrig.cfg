INIT HInit
NEXT HNext
CONSTANTS
  Thread = {"t1", "t2"}
  MaxOps = 2
  Threshold = 2
  Timeout = 2
  MaxCalls = 1
  SuccThreshold = 1
  MaxClock = 5
  Saturating = FALSE
  CountTransition = FALSE
  ResetAtHalfOpen = TRUE
VIEW View
INVARIANTS NoUnderflow OpensOnlyAfterThreshold ProbesBoundedUnlessLateReset
CHECK_DEADLOCK FALSE
