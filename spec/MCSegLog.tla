------------------------------ MODULE MCSegLog ------------------------------
EXTENDS SegLog, Json
VARIABLE h
CONSTANTS MaxLen, EmitFrom
HInit == Init /\ h = << >>
HAppend == (\E n \in 1..MaxRec : \E c \in BOOLEAN : WAppend(n, c)) /\ h' = Append(h, last')
HAppendFull == (\E n \in 1..MaxRec : AppendFull(n)) /\ h' = Append(h, last')
HFlushW == FlushW /\ h' = Append(h, last')
HSync == Sync /\ h' = Append(h, last')
HToggle == Toggle /\ h' = Append(h, last')
HReopen == Reopen /\ h' = Append(h, last')
HSetLen == (\E o \in Offsets : SetLen(o)) /\ h' = Append(h, last')
HReadRandom == (\E r \in Reader : \E o \in Offsets : ReadRandom(r, o)) /\ h' = Append(h, last')
HReadSeq == (\E r \in Reader : \E o \in Offsets : ReadSeq(r, o)) /\ h' = Append(h, last')
HIter == (\E r \in Reader : \E o \in Offsets : Iter(r, o)) /\ h' = Append(h, last')
HReplace == (\E r \in Reader : \E o \in Offsets : Replace(r, o)) /\ h' = Append(h, last')
HNext == HAppend \/ HAppendFull \/ HFlushW \/ HSync \/ HToggle \/ HReopen \/ HSetLen
         \/ HReadRandom \/ HReadSeq \/ HIter \/ HReplace
\* reads leave `last` behind but nothing else: hide last and h from the fingerprint
View == <<disk, pend, ppos, wofs, flushed, dirty, comp, nextId, starts, cache>>
HBound == Len(h) <= MaxLen
Emit == (Len(h) >= EmitFrom) => PrintT(<<"REPLAY", ToJson(h)>>)
=============================================================================
