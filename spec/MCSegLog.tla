------------------------------ MODULE MCSegLog ------------------------------
(* Model-checking / behaviour-generation instance of SegLog.                           *)
(* Two bookkeeping variables steer behaviour generation towards the histories C18 is   *)
(* about.  risk[r] is the set of offsets whose bytes changed (header replaced through  *)
(* ANOTHER reader, truncated, or flushed later) while reader r's read-ahead buffer     *)
(* covered them or ended below them; crit says that the step just taken was a          *)
(* sequential read / iteration by r over such an offset.  They are part of the VIEW,   *)
(* so a history in which a long-lived reader re-reads what changed behind its buffer   *)
(* is a state of its own and gets emitted (without them breadth-first search reaches   *)
(* the same disk/buffer state by a shorter history that never filled the buffer).      *)
EXTENDS SegLog, Json
VARIABLES h, risk, crit
CONSTANTS MaxLen, EmitFrom
HInit == Init /\ h = << >> /\ risk = [r \in Reader |-> {}] /\ crit = FALSE

Covers(q, x) == cache[q].hi > cache[q].lo /\ x >= cache[q].lo /\ x < cache[q].hi
Quiet == risk' = risk /\ crit' = FALSE
HAppend == (\E n \in 1..MaxRec : \E c \in BOOLEAN : WAppend(n, c)) /\ h' = Append(h, last') /\ Quiet
HAppendFull == (\E n \in 1..MaxRec : AppendFull(n)) /\ h' = Append(h, last') /\ Quiet
\* data flushed after a buffer was filled: offsets that became readable behind that buffer
Grown == [q \in Reader |-> IF cache[q].hi > cache[q].lo
                           THEN risk[q] \cup {x \in Offsets : x >= flushed /\ x < flushed'}
                           ELSE risk[q]]
HFlushW == FlushW /\ h' = Append(h, last') /\ risk' = Grown /\ crit' = FALSE
HSync == Sync /\ h' = Append(h, last') /\ risk' = Grown /\ crit' = FALSE
HToggle == Toggle /\ h' = Append(h, last') /\ Quiet
HReopen == Reopen /\ h' = Append(h, last') /\ risk' = [r \in Reader |-> {}] /\ crit' = FALSE
HSetLen == (\E o \in Offsets : SetLen(o)
               /\ risk' = [q \in Reader |-> risk[q] \cup {x \in Offsets : x >= o /\ Covers(q, x)}])
           /\ h' = Append(h, last') /\ crit' = FALSE
HReadRandom == (\E r \in Reader : \E o \in Offsets : ReadRandom(r, o)) /\ h' = Append(h, last') /\ Quiet
HReadSeq == (\E r \in Reader : \E o \in Offsets : ReadSeq(r, o)
                /\ crit' = (o \in risk[r]) /\ risk' = [risk EXCEPT ![r] = @ \ {o}])
            /\ h' = Append(h, last')
HIter == (\E r \in Reader : \E o \in Offsets : Iter(r, o)
             /\ crit' = (\E x \in risk[r] : x >= o) /\ risk' = [risk EXCEPT ![r] = {x \in @ : x < o}])
         /\ h' = Append(h, last')
HReplace == (\E r \in Reader : \E o \in Offsets : Replace(r, o)
                /\ risk' = [q \in Reader |-> IF q # r /\ last'.ok /\ Covers(q, o)
                                             THEN risk[q] \cup {o} ELSE risk[q]])
            /\ h' = Append(h, last') /\ crit' = FALSE
HNext == HAppend \/ HAppendFull \/ HFlushW \/ HSync \/ HToggle \/ HReopen \/ HSetLen
         \/ HReadRandom \/ HReadSeq \/ HIter \/ HReplace
\* reads leave `last` behind but nothing else: hide last and h from the fingerprint
View == <<disk, pend, ppos, wofs, flushed, dirty, comp, nextId, starts, cache, risk, crit>>
HBound == Len(h) <= MaxLen
Emit == (Len(h) >= EmitFrom \/ crit) => PrintT(<<"REPLAY", ToJson(h)>>)
=============================================================================
