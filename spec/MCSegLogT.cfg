INIT HInit
NEXT HNext
CONSTANTS
  Size = 5
  MaxRec = 2
  Reader = {1, 2}
  MaxId = 3
  MaxLen = 11
  EmitFrom = 11
VIEW View
CONSTRAINT HBound
INVARIANTS TypeOK CursorAtWofs FlushedIsLog ReadBelowFlushedExact NoReadBeyondFlushed Emit
CHECK_DEADLOCK FALSE
