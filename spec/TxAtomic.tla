------------------------------ MODULE TxAtomic ------------------------------
(***************************************************************************)
(* Transaction atomicity for readers (C04): writer_thread_pool.rs          *)
(* WriterSet::handle_write, bucket/segment/reader.rs read_committed_events.*)
(*                                                                         *)
(* The writer thread appends the event records of a transaction one by     *)
(* one, then (for more than one event) a commit record; only then are the  *)
(* transaction's index entries queued, and they are published by the next  *)
(* sync.  A write that fails half way truncates the segment back           *)
(* (set_len).  Readers find events through the published index entries and *)
(* read a transaction by scanning forward from an event to its commit      *)
(* record; a crash keeps any prefix of the records, and reopening drops a  *)
(* trailing transaction that has no commit record and rebuilds the index   *)
(* from the segment.                                                       *)
(*                                                                         *)
(* QueuePerEvent = TRUE is a deviation kept for self-test: index entries   *)
(* queued as each event is written (they then survive a failed write).     *)
(***************************************************************************)
EXTENDS Naturals, Sequences, FiniteSets, TLC, Json
CONSTANTS MaxEv, MaxTx, QueuePerEvent

VARIABLES recs,     \* records of the live segment: [tx, kind, i]
          pend,     \* queued index entries <<tx, i>>
          idx,      \* published index entries
          cur,      \* transaction being written: [tx, n, k, fail] (k events written) or none
          ntx,      \* transactions started so far
          size      \* size[tx] : number of events of transaction tx
vars == <<recs, pend, idx, cur, ntx, size>>

None == [tx |-> 0, n |-> 0, k |-> 0, fail |-> 0]
Init == recs = << >> /\ pend = {} /\ idx = {} /\ cur = None /\ ntx = 0 /\ size = << >>

\* fail = 0: all events can be written; fail = j: encoding event j fails (events 1..j-1 were written)
Begin(n, fail) ==
    /\ cur = None /\ ntx < MaxTx
    /\ cur' = [tx |-> ntx + 1, n |-> n, k |-> 0, fail |-> fail]
    /\ ntx' = ntx + 1 /\ size' = Append(size, n)
    /\ UNCHANGED <<recs, pend, idx>>

WriteEvent ==
    /\ cur # None /\ cur.k < cur.n /\ cur.k + 1 # cur.fail
    /\ recs' = Append(recs, [tx |-> cur.tx, kind |-> IF cur.n = 1 THEN "single" ELSE "event", i |-> cur.k + 1])
    /\ cur' = [cur EXCEPT !.k = @ + 1]
    /\ pend' = IF QueuePerEvent THEN pend \cup {<<cur.tx, cur.k + 1>>} ELSE pend
    /\ UNCHANGED <<idx, ntx, size>>

\* the next event cannot be encoded: truncate back to where the transaction started, error reply
Fail ==
    /\ cur # None /\ cur.k + 1 = cur.fail
    /\ recs' = SubSeq(recs, 1, Len(recs) - cur.k)
    /\ cur' = None
    /\ UNCHANGED <<pend, idx, ntx, size>>

WriteCommit ==
    /\ cur # None /\ cur.n > 1 /\ cur.k = cur.n /\ cur.fail = 0
    /\ recs' = Append(recs, [tx |-> cur.tx, kind |-> "commit", i |-> 0])
    /\ cur' = [cur EXCEPT !.k = cur.n + 1]
    /\ UNCHANGED <<pend, idx, ntx, size>>

\* all records written: queue the index entries (then reply)
Finish ==
    /\ cur # None /\ cur.fail = 0
    /\ (cur.n = 1 /\ cur.k = 1) \/ (cur.n > 1 /\ cur.k = cur.n + 1)
    /\ pend' = pend \cup {<<cur.tx, i>> : i \in 1..cur.n}
    /\ cur' = None
    /\ UNCHANGED <<recs, idx, ntx, size>>

\* sync runs on the writer thread, between requests
Sync == cur = None /\ idx' = idx \cup pend /\ pend' = {} /\ UNCHANGED <<recs, cur, ntx, size>>

\* crash with any prefix of the records on disk, reopen: trailing events without a commit
\* record are dropped, the index is rebuilt from what remains
HasEnd(rs, t) == \E j \in 1..Len(rs) : rs[j].tx = t /\ rs[j].kind \in {"single", "commit"}
RECURSIVE Trim(_)
Trim(rs) == IF rs = << >> \/ rs[Len(rs)].kind \in {"single", "commit"} THEN rs
            ELSE Trim(SubSeq(rs, 1, Len(rs) - 1))
CrashRecover ==
    \E cut \in 0..Len(recs) :
        LET rs == Trim(SubSeq(recs, 1, cut)) IN
        /\ recs' = rs
        /\ idx' = {<<rs[j].tx, rs[j].i>> : j \in {x \in 1..Len(rs) : rs[x].kind # "commit"}}
        /\ pend' = {} /\ cur' = None
        /\ UNCHANGED <<ntx, size>>

Next == (\E n \in 1..MaxEv : \E f \in 0..n : Begin(n, f)) \/ WriteEvent \/ Fail \/ WriteCommit
        \/ Finish \/ Sync \/ CrashRecover
Spec == Init /\ [][Next]_vars

----------------------------------------------------------------------------
\* what a reader sees right now (readers run concurrently with every writer step):
\* an index entry leads to the record; the transaction around it is returned only when its
\* commit record (or the single-event flag) is found
InSeg(t, i) == \E j \in 1..Len(recs) : recs[j].tx = t /\ recs[j].i = i /\ recs[j].kind # "commit"
Readable(t) == HasEnd(recs, t) /\ \A i \in 1..size[t] : InSeg(t, i)
Visible == {e \in idx : InSeg(e[1], e[2]) /\ Readable(e[1])}

(* C04 *)
\* an event is visible only together with all its siblings, and only if the commit is there
NoPartialTx ==
    \A e \in Visible : \A i \in 1..size[e[1]] : <<e[1], i>> \in Visible
\* nothing of the transaction in flight, nor of a failed one, is visible
InFlightInvisible == cur # None => \A e \in Visible : e[1] # cur.tx
\* every published entry points at a record that exists and belongs to a complete transaction
\* (a dangling entry makes scans fail or return another transaction's bytes)
NoDanglingEntry == \A e \in idx : InSeg(e[1], e[2]) /\ Readable(e[1])

\* shapes for the replay harness: (number of events, failing event or 0)
Emit == (cur # None /\ cur.k = 0) => PrintT(<<"TABLE", ToJson([n |-> cur.n, fail_at |-> cur.fail])>>)
=============================================================================
