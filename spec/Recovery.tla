------------------------------ MODULE Recovery ------------------------------
(***************************************************************************)
(* Crash and recovery of the live segment (C04 crash part, C05).           *)
(*                                                                         *)
(* The live segment is a sequence of records; a transaction is either one  *)
(* event record carrying the single-event flag, or n >= 2 event records    *)
(* followed by a commit record.  Everything up to the last acknowledgement *)
(* is fsynced.  A process crash keeps what reached write(2): any prefix of *)
(* the bytes written since, cut at a record boundary or inside a record    *)
(* (torn); the rest of the preallocated file is zeros.                     *)
(*                                                                         *)
(* Recover: scan intact records from the start; the log ends at the first  *)
(* record that is not intact; a trailing transaction without its commit    *)
(* record is dropped.  The recovered database is the reference model after *)
(* exactly the transactions that are completely contained.                 *)
(***************************************************************************)
EXTENDS Naturals, Sequences, FiniteSets, TLC, Json

\* a transaction shape: number of events (1 = flagged single event, no commit record)
RecordsOf(t, n) ==
    IF n = 1 THEN <<[tx |-> t, kind |-> "single"]>>
    ELSE [i \in 1..n |-> [tx |-> t, kind |-> "event"]] \o <<[tx |-> t, kind |-> "commit"]>>

RECURSIVE Flatten(_, _)
Flatten(shapes, t) ==       \* shapes: sequence of event counts, transaction ids t, t+1, ..
    IF shapes = << >> THEN << >>
    ELSE RecordsOf(t, Head(shapes)) \o Flatten(Tail(shapes), t + 1)

\* records surviving a crash that kept `whole` complete records (and possibly a torn one)
Survive(recs, whole) == SubSeq(recs, 1, whole)

\* transactions completely contained in a record sequence
Complete(recs) ==
    {r.tx : r \in {recs[i] : i \in 1..Len(recs)}} \cap
    {t \in {recs[i].tx : i \in 1..Len(recs)} :
        \E i \in 1..Len(recs) : recs[i].tx = t /\ recs[i].kind \in {"single", "commit"}}

\* offset (in records) right after the last completely contained transaction
RECURSIVE CommittedEnd(_, _, _)
CommittedEnd(recs, i, last) ==
    IF i > Len(recs) THEN last
    ELSE CommittedEnd(recs, i + 1, IF recs[i].kind \in {"single", "commit"} THEN i ELSE last)

Recover(recs, whole) ==
    LET s == Survive(recs, whole) IN
    [txs |-> Complete(s), end |-> CommittedEnd(s, 1, 0)]

(***************************************************************************)
(* C05 on the model: for every history and every cut, the recovered set is *)
(* a prefix of the attempted transactions that contains every acknowledged *)
(* one, and nothing of an incomplete transaction is kept.                  *)
(***************************************************************************)
CONSTANTS MaxTx, MaxEv
VARIABLE c       \* [shapes, acked (number of acknowledged transactions), whole, torn]

Shapes == UNION {[1..k -> 1..MaxEv] : k \in 1..MaxTx}
Init ==
    c \in {x \in [shapes : Shapes, acked : 0..MaxTx, whole : 0..(MaxTx * (MaxEv + 1)), torn : BOOLEAN] :
             /\ x.acked <= Len(x.shapes)
             /\ x.whole <= Len(Flatten(x.shapes, 1))
             \* acknowledged transactions are fsynced: the cut lies at or after their end
             /\ x.whole >= Len(Flatten(SubSeq(x.shapes, 1, x.acked), 1))
             /\ (x.torn => x.whole < Len(Flatten(x.shapes, 1)))}
Next == UNCHANGED c

RecoversPrefix ==
    LET recs == Flatten(c.shapes, 1)
        r == Recover(recs, c.whole)
    IN /\ \E k \in 0..Len(c.shapes) : r.txs = 1..k          \* a prefix of the attempts
       /\ 1..c.acked \subseteq r.txs                         \* containing every acknowledged one
       /\ r.end <= c.whole
       /\ \A t \in r.txs : \A i \in 1..Len(recs) : recs[i].tx = t => i <= r.end
       \* nothing of a transaction whose commit is missing survives below `end`
       /\ \A i \in 1..r.end : recs[i].tx \in r.txs

Emit == PrintT(<<"TABLE", ToJson([shapes |-> c.shapes, acked |-> c.acked, whole |-> c.whole, torn |-> c.torn,
            keeps |-> Cardinality(Recover(Flatten(c.shapes, 1), c.whole).txs)])>>)
=============================================================================
