SPECIFICATION Spec
CONSTANTS
  Node = {1, 2, 3}
  RF = 3
  Txs <- TxDefP
  MaxView = 2
  MaxDup = 0
  MaxCrash = 0
  MaxLose = 0
  QuorumDelta = 0
  CheckConfirm = TRUE
  HoldBack = {}
  PinSeq = FALSE
  TxStream <- StreamDef
VIEW View
INVARIANTS CntShape EmitViolation OneConfirmedPerSeq
PROPERTY AckedStable
CHECK_DEADLOCK FALSE
