---------------------------- MODULE TraceSerial ----------------------------
(***************************************************************************)
(* C16: concurrent conflicting appends are serialised.                     *)
(*                                                                         *)
(* The harness races clients against a real Database and records, per      *)
(* call, the transaction and its result (accepted with first sequence and  *)
(* per-event versions, or rejected), plus at the end of each run the       *)
(* latest version of every stream and the latest sequence of every         *)
(* partition.  This module searches for a serial order of EventStore.tla   *)
(* that explains the run: its next-state relation applies some not yet     *)
(* applied *accepted* call whose logged result is exactly what the         *)
(* reference model computes in the current state.  Rejected calls change   *)
(* nothing, so a serial order may place each of them anywhere: a rejected  *)
(* call is explained as soon as some state of the order rejects it.        *)
(*                                                                         *)
(* A run is explained when every accepted call is applied, every rejected  *)
(* call is explained and the model's final observations equal the logged   *)
(* ones; the next run then starts from an empty store.  TLC is run with    *)
(* the invariant NotAllExplained: a *violation* of it is the witness (the  *)
(* counterexample is the serial order); exhausting the state space without *)
(* one means some run has no serial explanation.                           *)
(***************************************************************************)
EXTENDS EventStore, Json, IOUtils, TLCExt

Rec == ndJsonDeserialize(IOEnv.TRACE)
\* lines: [e |-> "call", run, tx, ok, first, vers]  and  [e |-> "final", run, lv, ls]
NRuns == Rec[Len(Rec)].run
\* zero-arity constant definitions: TLC evaluates them once
CallsT == [r \in 1..NRuns |-> {i \in 1..Len(Rec) : Rec[i].e = "call" /\ Rec[i].run = r}]
SuccT == [r \in 1..NRuns |-> {i \in CallsT[r] : Rec[i].ok = 1}]
FailT == [r \in 1..NRuns |-> {i \in CallsT[r] : Rec[i].ok = 0}]
FinalT == [r \in 1..NRuns |-> CHOOSE i \in 1..Len(Rec) : Rec[i].e = "final" /\ Rec[i].run = r]
SuccOf(r) == SuccT[r]
FailOf(r) == FailT[r]
FinalOf(r) == FinalT[r]

VARIABLES run, applied, explained
svars == <<log, run, applied, explained>>

Rejects(L, i) == ~Evaluate(L, Rec[i].tx).ok
Explains(L, r) == {f \in FailOf(r) : Rejects(L, f)}

\* final observations: latest version per (bucket, stream) and latest sequence per partition
VerOut(cv) == IF cv.k = "empty" THEN 0 - 1 ELSE cv.v
FinalMatches(L, r) ==
    LET f == Rec[FinalOf(r)] IN
    /\ \A j \in 1..Len(f.lv) : VerOut(CurVer(L, f.lv[j].b, f.lv[j].s)) = f.lv[j].v
    /\ \A j \in 1..Len(f.ls) : VerOut(CurSeq(L, f.ls[j].p)) = f.ls[j].v

SInit ==
    /\ ESInit /\ run = 1 /\ applied = {}
    /\ explained = Explains([p \in Parts |-> << >>], 1)

\* apply one accepted call whose logged outcome the model reproduces
Apply(i) ==
    /\ run <= NRuns /\ i \in SuccOf(run) \ applied
    /\ LET r == Evaluate(log, Rec[i].tx) IN
       /\ r.ok /\ r.first = Rec[i].first /\ r.vers = Rec[i].vers
       /\ log' = Applied(log, Rec[i].tx, r)
    /\ applied' = applied \cup {i}
    /\ explained' = explained \cup Explains(log', run)
    /\ UNCHANGED run

RunExplained ==
    /\ applied = SuccOf(run) /\ explained = FailOf(run) /\ FinalMatches(log, run)

NextRun ==
    /\ run <= NRuns /\ RunExplained
    /\ run' = run + 1
    /\ log' = [p \in Parts |-> << >>]
    /\ applied' = {}
    /\ explained' = IF run + 1 <= NRuns THEN Explains([p \in Parts |-> << >>], run + 1) ELSE {}

SNext == (\E i \in (IF run <= NRuns THEN SuccOf(run) \ applied ELSE {}) : Apply(i)) \/ NextRun
SSpec == SInit /\ [][SNext]_svars

\* reaching run = NRuns + 1 is the witness that every run has a serial explanation
NotAllExplained == run <= NRuns
\* the reference model's own invariants hold along every candidate order
ModelInv == TxContiguous
=============================================================================
