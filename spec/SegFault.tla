------------------------------ MODULE SegFault ------------------------------
(***************************************************************************)
(* Fault model for single segment-log records (C17).  A record is the cell *)
(* sequence  <<len, crc, hdr, data_1 .. data_k>>  (hdr absent when H = 0,  *)
(* k >= 0); the CRC is idealised: it matches iff no covered cell changed.  *)
(* A fault changes a non-empty set of cells (bit flip: one cell; burst:    *)
(* adjacent cells, possibly spilling into the neighbouring record;         *)
(* truncation: every cell from a position on reads as zeros).  The         *)
(* required outcome of every read path at the victim's offset is           *)
(* "detected" -- a checksum, bounds, truncation-marker or decode error or  *)
(* the end of iteration -- never a record; a reopened writer resumes right *)
(* after the last record in front of the victim.                           *)
(*                                                                         *)
(* TLC enumerates (shape, fault) classes, checks the outcome on the cell   *)
(* model and emits the table the harness expands to every concrete bit /   *)
(* byte position of each class.                                            *)
(***************************************************************************)
EXTENDS Naturals, Sequences, FiniteSets, TLC, Json

HeaderSizes == {0, 1, 8, 16}
\* data-length classes, at the branch boundaries of the writer and the three readers
LenClasses == {"empty", "one", "below-compress", "at-compress", "above-compress",
               "optimistic-1", "optimistic", "optimistic+1", "fallback-1", "fallback",
               "fallback+1", "beyond-readahead"}
Regions == {"len", "crc", "hdr", "data"}
FaultKinds == {"flip", "burst", "truncate"}

VARIABLE c      \* the class under consideration
Shapes == [h : HeaderSizes, len : LenClasses, comp : BOOLEAN]
Faults == [kind : FaultKinds, region : Regions]
Init == c \in [shape : Shapes, fault : Faults]
Next == UNCHANGED c

HasRegion(s, r) ==
    CASE r = "hdr" -> s.h > 0
      [] r = "data" -> s.len # "empty"
      [] OTHER -> TRUE
Meaningful == HasRegion(c.shape, c.fault.region)

\* cell model of the victim and of what a decoder accepts
Cells(s) == <<"len", "crc">> \o (IF s.h > 0 THEN <<"hdr">> ELSE << >>)
                              \o (IF s.len # "empty" THEN <<"data">> ELSE << >>)
Changed(f, s) ==         \* regions whose bytes differ after the fault
    CASE f.kind = "flip" -> {f.region}
      [] f.kind = "burst" -> {f.region}     \* <= 32 bits: at most two adjacent regions
      [] f.kind = "truncate" ->
            {Cells(s)[i] : i \in {j \in DOMAIN Cells(s) :
                \E k \in DOMAIN Cells(s) : Cells(s)[k] = f.region /\ j >= k}}
\* every region is covered by the checksum, or is the checksum / the length that frames it
Covered == {"len", "crc", "hdr", "data"}
Accepts(f, s) == Changed(f, s) \cap Covered = {}
Outcome == IF Meaningful /\ ~Accepts(c.fault, c.shape) THEN "detected" ELSE "n/a"

NeverAcceptsCorrupted == Meaningful => Outcome = "detected"
Emit == Meaningful => PrintT(<<"TABLE", ToJson([h |-> c.shape.h, len |-> c.shape.len,
              comp |-> c.shape.comp, kind |-> c.fault.kind, region |-> c.fault.region,
              outcome |-> Outcome])>>)
=============================================================================
