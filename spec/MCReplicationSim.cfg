SPECIFICATION Spec
CONSTANTS
  Node = {1, 2, 3}
  RF = 3
  Txs <- TxDef3
  MaxView = 2
  MaxDup = 1
  MaxCrash = 1
  MaxLose = 1
  QuorumDelta = 0
  CheckConfirm = TRUE
  HoldBack = {}
  PinSeq = TRUE
  TxStream <- StreamDef
CONSTRAINT Bound
INVARIANTS Emit CntShape OneConfirmedPerSeq ConfirmedPrefixAgree AckedOnQuorum QuorumCountMeansQuorumHeld
PROPERTY AckedStable
CHECK_DEADLOCK FALSE
