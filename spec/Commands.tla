------------------------------ MODULE Commands ------------------------------
(***************************************************************************)
(* The documented RESP command grammar of sierradb-server (C21) as a        *)
(* generator: each row is a token list (the arguments after the command    *)
(* name) together with the request it denotes, or "reject" for near        *)
(* misses (duplicate clause, clause keyword without value, trailing token, *)
(* malformed number / uuid, WINDOW 0).  Optional clauses appear in every    *)
(* order; keywords appear in upper and lower case.  The harness feeds every *)
(* token list to the real `<Command>::parser().skip(eof())` and compares     *)
(* the parsed request with the denotation.                                 *)
(*                                                                         *)
(* "-" in a denotation means "not given".                                  *)
(***************************************************************************)
EXTENDS Naturals, Sequences, FiniteSets, TLC, Json

U1 == "550e8400-e29b-41d4-a716-446655440000"
U2 == "6ba7b810-9dad-11d1-80b4-00c04fd430c8"
BadU == "550e8400-e29b-41d4-a716"
UMax == "18446744073709551615"

RECURSIVE Perms(_)
Perms(S) == IF S = {} THEN {<< >>} ELSE UNION {{<<x>> \o p : p \in Perms(S \ {x})} : x \in S}
RECURSIVE Cat(_)
Cat(ss) == IF ss = << >> THEN << >> ELSE Head(ss) \o Cat(Tail(ss))
Lower(k) == CASE k = "EVENT_ID" -> "event_id" [] k = "PARTITION_KEY" -> "partition_key"
              [] k = "EXPECTED_VERSION" -> "Expected_Version" [] k = "TIMESTAMP" -> "timestamp"
              [] k = "PAYLOAD" -> "payload" [] k = "METADATA" -> "Metadata" [] k = "COUNT" -> "count"
              [] k = "FROM" -> "from" [] k = "WINDOW" -> "window" [] k = "LATEST" -> "latest"
              [] k = "MAP" -> "map" [] k = "DEFAULT" -> "default" [] OTHER -> k

\* tokens that resemble a keyword without being it: cut short, one letter too long, the initial alone.  Where the grammar
\* expects a clause they must be rejected; where it allows a stream id they are one (never a clause).
Near(k) == CASE k = "EVENT_ID" -> {"EVENT_I", "EVENT_IDS", "E"} [] k = "PARTITION_KEY" -> {"PARTITION_KE", "PARTITION_KEYS", "part"}
             [] k = "EXPECTED_VERSION" -> {"EXPECTED_VERSIO", "EXPECTED_VERSIONS", "EXPECTED"} [] k = "TIMESTAMP" -> {"TIMESTAM", "TIMESTAMPS", "t"}
             [] k = "PAYLOAD" -> {"PAYLOA", "PAYLOADS", "pay"} [] k = "METADATA" -> {"METADAT", "METADATAS", "m"}
             [] k = "COUNT" -> {"COUN", "COUNTER", "c"} [] k = "FROM" -> {"FRO", "FROMS", "f"} [] k = "WINDOW" -> {"WINDO", "WINDOWS", "w"}
             [] k = "LATEST" -> {"LATES", "LATESTS", "l"} [] k = "MAP" -> {"MA", "MAPS"} [] k = "DEFAULT" -> {"DEFAUL", "DEFAULTS", "d"}
             [] OTHER -> {}

Row(cmd, toks, den) == [cmd |-> cmd, toks |-> toks, den |-> den]
Reject(cmd, toks) == [cmd |-> cmd, toks |-> toks, den |-> [reject |-> TRUE]]

----------------------------------------------------------------------------
\* EAPPEND <stream> <name> [EVENT_ID u] [PARTITION_KEY u] [EXPECTED_VERSION v] [TIMESTAMP t] [PAYLOAD p] [METADATA m]
AClause == {"EVENT_ID", "PARTITION_KEY", "EXPECTED_VERSION", "TIMESTAMP", "PAYLOAD", "METADATA"}
AVal(k, xv) == CASE k = "EVENT_ID" -> U1 [] k = "PARTITION_KEY" -> U2 [] k = "EXPECTED_VERSION" -> xv
                 [] k = "TIMESTAMP" -> "1700000000000" [] k = "PAYLOAD" -> "{\"a\":1}" [] k = "METADATA" -> "meta"
ADen(stream, S, xv) ==
    [stream |-> stream, name |-> "UserCreated",
     event_id |-> IF "EVENT_ID" \in S THEN U1 ELSE "-",
     partition_key |-> IF "PARTITION_KEY" \in S THEN U2 ELSE "-",
     expected |-> IF "EXPECTED_VERSION" \in S THEN xv ELSE "any",
     timestamp |-> IF "TIMESTAMP" \in S THEN "1700000000000" ELSE "-",
     payload |-> IF "PAYLOAD" \in S THEN "{\"a\":1}" ELSE "",
     metadata |-> IF "METADATA" \in S THEN "meta" ELSE ""]
EAppendRows ==
    LET good == {Row("EAPPEND", <<st, "UserCreated">> \o Cat([i \in 1..Len(p) |-> <<IF lc THEN Lower(p[i]) ELSE p[i], AVal(p[i], xv)>>]),
                     ADen(st, {p[i] : i \in 1..Len(p)}, xv))
                   : st \in {"my-stream", "FROM"}, lc \in BOOLEAN, xv \in {"empty", "0", "7", "exists"},
                     p \in UNION {Perms(S) : S \in SUBSET AClause}}
        \* the expected-version value only matters when the clause is present; one stream name suffices for the big family
        goodSmall == {r \in good : (r.toks[1] = "my-stream" \/ Len(r.toks) <= 4) /\ (r.den.expected # "any" \/ r.den.expected = "any")}
        dup == {Reject("EAPPEND", <<"s", "E", k, AVal(k, "0"), k, AVal(k, "0")>>) : k \in AClause}
        noval == {Reject("EAPPEND", <<"s", "E", k>>) : k \in AClause}
        trailing == {Reject("EAPPEND", <<"s", "E", "PAYLOAD", "p", "extra">>), Reject("EAPPEND", <<"s">>), Reject("EAPPEND", << >>),
                     Reject("EAPPEND", <<"s", "E", "EVENT_ID", BadU>>), Reject("EAPPEND", <<"s", "E", "TIMESTAMP", "-1">>),
                     Reject("EAPPEND", <<"s", "E", "EXPECTED_VERSION", "latest">>), Reject("EAPPEND", <<"s", "E", "BOGUS", "1">>)}
        nearkw == {Reject("EAPPEND", <<"s", "E", nk, AVal(k, "0")>>) : k \in AClause, nk \in UNION {Near(x) : x \in AClause}}
        nearval == {Reject("EAPPEND", <<"s", "E", "EXPECTED_VERSION", v>>) : v \in {"AN", "ANYS", "EXIST", "EMPT", "E", "a", ""}}
    IN goodSmall \cup dup \cup noval \cup trailing \cup nearkw \cup nearval

----------------------------------------------------------------------------
\* ESUB <stream> [PARTITION_KEY pk] ... [FROM LATEST | FROM n | FROM MAP s=v ...] [WINDOW n]
SubStreams == {<<[s |-> "user-1", pk |-> "-"]>>,
               <<[s |-> "user-1", pk |-> U1]>>,
               <<[s |-> "user-1", pk |-> "-"], [s |-> "user-2", pk |-> "-"]>>,
               <<[s |-> "user-1", pk |-> U1], [s |-> "user-2", pk |-> "-"], [s |-> "user-3", pk |-> U2]>>}
StreamToks(ss, lc) == Cat([i \in 1..Len(ss) |-> IF ss[i].pk = "-" THEN <<ss[i].s>>
                                                ELSE <<ss[i].s, IF lc THEN Lower("PARTITION_KEY") ELSE "PARTITION_KEY", ss[i].pk>>])
FromV(ss) == {[k |-> "none"], [k |-> "latest"], [k |-> "all", v |-> "50"], [k |-> "all", v |-> "0"],
              [k |-> "map", m |-> [i \in 1..Len(ss) |-> [s |-> ss[i].s, v |-> IF i = 1 THEN "10" ELSE "20"]]]}
FromToks(f, lc) ==
    LET K(x) == IF lc THEN Lower(x) ELSE x IN
    CASE f.k = "none" -> << >>
      [] f.k = "latest" -> <<K("FROM"), K("LATEST")>>
      [] f.k = "all" -> <<K("FROM"), f.v>>
      [] f.k = "map" -> <<K("FROM"), K("MAP")>> \o [i \in 1..Len(f.m) |-> f.m[i].s \o "=" \o f.m[i].v]
Windows == {"-", "1", "100"}
WinToks(w, lc) == IF w = "-" THEN << >> ELSE <<IF lc THEN Lower("WINDOW") ELSE "WINDOW", w>>
ESubRows ==
    LET good == {Row("ESUB", StreamToks(ss, lc) \o FromToks(f, lc) \o WinToks(w, lc), [streams |-> ss, from |-> f, window |-> w])
                   : ss \in SubStreams, lc \in BOOLEAN, w \in Windows, f \in UNION {FromV(x) : x \in SubStreams}}
        good2 == {r \in good : r.den.from.k # "map" \/ Len(r.den.from.m) = Len(r.den.streams)}
        bad == {Reject("ESUB", << >>), Reject("ESUB", <<"user-1", "WINDOW", "0">>), Reject("ESUB", <<"user-1", "WINDOW">>),
                Reject("ESUB", <<"user-1", "FROM">>), Reject("ESUB", <<"user-1", "FROM", "MAP">>),
                Reject("ESUB", <<"user-1", "WINDOW", "5", "FROM", "3">>),          \* clauses in the documented order only
                Reject("ESUB", <<"user-1", "PARTITION_KEY", BadU>>),
                Reject("ESUB", <<"user-1", "FROM", "5", "WINDOW", "10", "extra", "WINDOW", "3">>)}
        \* in the stream list a near-keyword is a stream id (with the documented meaning of what follows)
        nearstream == {Row("ESUB", <<"orders", nk>>, [streams |-> <<[s |-> "orders", pk |-> "-"], [s |-> nk, pk |-> "-"]>>, from |-> [k |-> "none"], window |-> "-"])
                         : nk \in UNION {Near(x) : x \in {"PARTITION_KEY", "FROM", "WINDOW"}}}
        nearclause == {Reject("ESUB", <<"user-1", "FROM", "5", nk, "10">>) : nk \in Near("WINDOW")}
                      \cup {Reject("ESUB", <<"user-1", "FROM", nk>>) : nk \in Near("LATEST")}
                      \cup {Reject("ESUB", <<"user-1", "FROM", nk, "user-1=1">>) : nk \in Near("MAP")}
    IN good2 \cup bad \cup nearstream \cup nearclause

----------------------------------------------------------------------------
\* EPSUB * | <p> | <p1>,<p2> | <a>-<b> (the client's range form) | <partition key> [FROM LATEST | FROM n | FROM MAP p=s ... [DEFAULT n]] [WINDOW n]
PSel == {"*", "5", "1,2,3", "2-4", U1}
PFrom == {[k |-> "none"], [k |-> "latest"], [k |-> "all", v |-> "1000"],
          [k |-> "map", m |-> <<[p |-> "1", v |-> "100"], [p |-> "2", v |-> "200"]>>, d |-> "-"],
          [k |-> "map", m |-> <<[p |-> "1", v |-> "100"]>>, d |-> "0"]}
PFromToks(f, lc) ==
    LET K(x) == IF lc THEN Lower(x) ELSE x IN
    CASE f.k = "none" -> << >>
      [] f.k = "latest" -> <<K("FROM"), K("LATEST")>>
      [] f.k = "all" -> <<K("FROM"), f.v>>
      [] f.k = "map" -> <<K("FROM"), K("MAP")>> \o [i \in 1..Len(f.m) |-> f.m[i].p \o "=" \o f.m[i].v]
                          \o (IF f.d = "-" THEN << >> ELSE <<K("DEFAULT"), f.d>>)
EPSubRows ==
    UNION {{Row("EPSUB", <<sel>> \o PFromToks(f, lc) \o WinToks(w, lc), [sel |-> sel, from |-> f, window |-> w])
              : f \in {x \in PFrom : sel \notin {"5", U1} \/ x.k \in {"none", "all"}}, lc \in BOOLEAN, w \in Windows} : sel \in PSel}
    \cup {Reject("EPSUB", << >>), Reject("EPSUB", <<"*", "WINDOW", "0">>), Reject("EPSUB", <<"70000">>),
          Reject("EPSUB", <<"*", "FROM", "MAP", "1=x">>), Reject("EPSUB", <<"*", "FROM", "5", "junk">>),
          Reject("EPSUB", <<"4-2">>), Reject("EPSUB", <<"2-">>), Reject("EPSUB", <<"2-70000">>), Reject("EPSUB", <<"">>)}
    \cup {Reject("EPSUB", <<"*", nk, "5">>) : nk \in Near("FROM")}
    \cup {Reject("EPSUB", <<"*", nk, "10">>) : nk \in Near("WINDOW")}
    \cup {Reject("EPSUB", <<"*", "FROM", nk>>) : nk \in Near("LATEST")}
    \cup {Reject("EPSUB", <<"*", "FROM", nk, "1=1">>) : nk \in Near("MAP")}
    \cup {Reject("EPSUB", <<"*", "FROM", "MAP", "1=1", nk, "0">>) : nk \in Near("DEFAULT")}

----------------------------------------------------------------------------
\* ESCAN <stream> <start> <end> [PARTITION_KEY pk] [COUNT n]      EPSCAN <partition> <start> <end> [COUNT n]
Ranges == {<<"-", "+">>, <<"0", "100">>, <<"5", "+">>, <<"-", "7">>, <<"0", UMax>>}
EScanRows ==
    {Row("ESCAN", <<"my-stream", r[1], r[2]>> \o Cat([i \in 1..Len(p) |-> IF p[i] = "PARTITION_KEY" THEN <<IF lc THEN Lower(p[i]) ELSE p[i], U1>>
                                                                       ELSE <<IF lc THEN Lower(p[i]) ELSE p[i], "50">>]),
         [stream |-> "my-stream", start |-> r[1], end |-> r[2],
          partition_key |-> IF "PARTITION_KEY" \in {p[i] : i \in 1..Len(p)} THEN U1 ELSE "-",
          count |-> IF "COUNT" \in {p[i] : i \in 1..Len(p)} THEN "50" ELSE "-"])
        : r \in Ranges, lc \in BOOLEAN, p \in UNION {Perms(S) : S \in SUBSET {"PARTITION_KEY", "COUNT"}}}
    \cup {Reject("ESCAN", <<"s", "0">>), Reject("ESCAN", <<"s", "a", "b">>), Reject("ESCAN", <<"s", "0", "1", "COUNT">>),
          Reject("ESCAN", <<"s", "0", "1", "COUNT", "5", "COUNT", "6">>), Reject("ESCAN", <<"s", "0", "1", "x">>)}
    \cup {Reject("ESCAN", <<"s", "0", "1", nk, "5">>) : nk \in Near("COUNT")}
    \cup {Reject("ESCAN", <<"s", "0", "1", nk, U1>>) : nk \in Near("PARTITION_KEY")}
EPScanRows ==
    {Row("EPSCAN", <<sel, r[1], r[2]>> \o (IF c = "-" THEN << >> ELSE <<IF lc THEN "count" ELSE "COUNT", c>>),
         [partition |-> sel, start |-> r[1], end |-> r[2], count |-> c])
        : sel \in {"42", "0", "65535", U1}, r \in Ranges, lc \in BOOLEAN, c \in {"-", "50", "0"}}
    \cup {Reject("EPSCAN", <<"42", "0">>), Reject("EPSCAN", <<"65536", "0", "1">>), Reject("EPSCAN", <<"42", "0", "1", "COUNT", "x">>),
          Reject("EPSCAN", <<BadU, "0", "1">>)}
    \cup {Reject("EPSCAN", <<"42", "0", "1", nk, "5">>) : nk \in Near("COUNT")}

\* EGET <event_id>   ESVER <stream> [PARTITION_KEY pk]   EPSEQ <partition>   EACK <subscription_id> <cursor>
SmallRows ==
    {Row("EGET", <<U1>>, [event_id |-> U1]), Reject("EGET", <<BadU>>), Reject("EGET", << >>), Reject("EGET", <<U1, U2>>),
     Row("ESVER", <<"my-stream">>, [stream |-> "my-stream", partition_key |-> "-"]),
     Row("ESVER", <<"my-stream", "PARTITION_KEY", U1>>, [stream |-> "my-stream", partition_key |-> U1]),
     Row("ESVER", <<"my-stream", "partition_key", U1>>, [stream |-> "my-stream", partition_key |-> U1]),
     Reject("ESVER", << >>), Reject("ESVER", <<"s", "PARTITION_KEY">>), Reject("ESVER", <<"s", "x", "y">>),
     Reject("ESVER", <<"s", "PARTITION_KE", U1>>), Reject("ESVER", <<"s", "PARTITION_KEYS", U1>>), Reject("ESVER", <<"s", "p", U1>>),
     Row("EPSEQ", <<"42">>, [partition |-> "42"]), Row("EPSEQ", <<U1>>, [partition |-> U1]),
     Reject("EPSEQ", << >>), Reject("EPSEQ", <<"65536">>), Reject("EPSEQ", <<"42", "43">>),
     Row("EACK", <<U1, "1000">>, [subscription_id |-> U1, cursor |-> "1000"]), Row("EACK", <<U1, UMax>>, [subscription_id |-> U1, cursor |-> UMax]),
     Reject("EACK", <<U1>>), Reject("EACK", <<BadU, "1">>), Reject("EACK", <<U1, "-1">>), Reject("EACK", <<U1, "1", "2">>)}

----------------------------------------------------------------------------
\* EMAPPEND <partition_key> (<stream> <name> [EVENT_ID u] [EXPECTED_VERSION v] [TIMESTAMP t] [PAYLOAD p] [METADATA m])+
MClause == {"EVENT_ID", "EXPECTED_VERSION", "TIMESTAMP", "PAYLOAD", "METADATA"}
MEvent(st, p, xv, lc) == <<st, "Ev">> \o Cat([i \in 1..Len(p) |-> <<IF lc THEN Lower(p[i]) ELSE p[i], AVal(p[i], xv)>>])
MDen(st, S, xv) == [stream |-> st, name |-> "Ev",
                    event_id |-> IF "EVENT_ID" \in S THEN U1 ELSE "-",
                    expected |-> IF "EXPECTED_VERSION" \in S THEN xv ELSE "any",
                    timestamp |-> IF "TIMESTAMP" \in S THEN "1700000000000" ELSE "-",
                    payload |-> IF "PAYLOAD" \in S THEN "{\"a\":1}" ELSE "",
                    metadata |-> IF "METADATA" \in S THEN "meta" ELSE ""]
MShapes == UNION {Perms(S) : S \in {T \in SUBSET MClause : Cardinality(T) <= 2}}
EMAppendRows ==
    {Row("EMAPPEND", <<U2>> \o MEvent("stream1", p1, "empty", lc) \o (IF two THEN MEvent("stream2", p2, "0", lc) ELSE << >>),
         [partition_key |-> U2,
          events |-> <<MDen("stream1", {p1[i] : i \in 1..Len(p1)}, "empty")>>
                     \o (IF two THEN <<MDen("stream2", {p2[i] : i \in 1..Len(p2)}, "0")>> ELSE << >>)])
        : p1 \in MShapes, p2 \in {<< >>, <<"PAYLOAD">>, <<"EXPECTED_VERSION", "METADATA">>}, two \in BOOLEAN, lc \in BOOLEAN}
    \cup {Reject("EMAPPEND", <<U2>>), Reject("EMAPPEND", <<BadU, "s", "E">>), Reject("EMAPPEND", <<U2, "s">>),
          Reject("EMAPPEND", <<U2, "s", "E", "PAYLOAD", "p", "PAYLOAD", "q">>), Reject("EMAPPEND", <<U2, "s", "E", "TIMESTAMP">>)}
    \* after a complete event a near-keyword is the stream id of the next event, the token after it its name
    \cup {Row("EMAPPEND", <<U2, "orders", "Ev", nk, "Ev">>,
               [partition_key |-> U2, events |-> <<MDen("orders", {}, "any"), MDen(nk, {}, "any")>>])
            : nk \in UNION {Near(x) : x \in MClause}}

----------------------------------------------------------------------------
AllRows == EAppendRows \cup ESubRows \cup EPSubRows \cup EScanRows \cup EPScanRows \cup SmallRows \cup EMAppendRows

VARIABLE row
Init == row \in AllRows
Next == UNCHANGED row
\* properties of the grammar itself: every accepted row starts with its positional arguments, keywords are never positional values
KeywordsNotPositional ==
    (~("reject" \in DOMAIN row.den) /\ row.cmd = "ESUB") =>
        \A i \in 1..Len(row.den.streams) : row.den.streams[i].s \notin {"FROM", "WINDOW", "PARTITION_KEY", "from", "window"}
Emit == PrintT(<<"TABLE", ToJson(row)>>)
=============================================================================
