INIT HInit
NEXT HNext
CONSTANTS
  NP = 3
  NB = 3
  NPart = 3
  RF = 2
  MaxEpoch = 2
  MaxResp = 2
  MaxLen = 14
  EmitFrom = 9
VIEW View
CONSTRAINT HBound
INVARIANTS TypeOK SameViewSameReplicas SameOrder SelfKnown Emit
CHECK_DEADLOCK FALSE
