----------------------------- MODULE MCVersions -----------------------------
(* Boundary representatives 0..3 and UMax-3..UMax; with UMax = 1000 every    *)
(* difference of two representatives is either <= 6 or >= UMax-6, so each    *)
(* tabulated value maps unambiguously onto u64 (v > 500 stands for           *)
(* u64::MAX - (UMax - v)).                                                   *)
EXTENDS Versions, TLC, Json
VARIABLE pair
Reps == (0..3) \cup ((UMax - 3)..UMax)
Exps == {Any, Exists, Empty} \cup {Exact(v) : v \in Reps}
Curs == {CEmpty} \cup {Current(v) : v \in Reps}
Init == pair \in Exps \X Curs
Next == UNCHANGED pair
Inv ==
    /\ GapAgreesWithSatisfied(pair[1], pair[2])
    /\ GapTotal(pair[1], pair[2])
    /\ RoundTripExp(pair[1])
    /\ CurrentSatisfiesOwn(pair[2])
    /\ \A v \in Reps : RoundTripNext(v)
Emit == PrintT(<<"TABLE", ToJson([exp |-> pair[1], cur |-> pair[2],
            gap |-> Gap(pair[1], pair[2]), sat |-> Satisfied(pair[1], pair[2]),
            into |-> IF pair[1].k \in {"empty", "exact"} THEN IntoNext(pair[1]) ELSE NoneV,
            next |-> IF pair[2].k = "current" /\ pair[2].v = UMax THEN 0 - 1 ELSE NextOf(pair[2])])>>)
=============================================================================
