----------------------------- MODULE EventStore -----------------------------
(***************************************************************************)
(* Functional model of one SierraDB node's event store (crates/sierradb):  *)
(* partitions holding gapless sequences of events, streams with gapless    *)
(* versions, transactions, the append rule and the read operators.  It is  *)
(* the reference ("some serial order") for C02, C03, C16, C22 and the       *)
(* oracle of every read in the durability, crash and concurrency checks.   *)
(*                                                                         *)
(* A partition p lives in bucket p % NB; the stream index is per bucket,   *)
(* so a stream is identified by (bucket, stream id).  Append takes the     *)
(* transaction as the code's Transaction does: partition key, partition    *)
(* id, expected partition sequence and a list of events each with a        *)
(* stream id and an expected version.                                      *)
(***************************************************************************)
EXTENDS Integers, Sequences, FiniteSets, TLC
CONSTANTS Streams, Keys, NPart, NB, UMax

V == INSTANCE Versions WITH UMax <- UMax

Parts == 0..(NPart - 1)
Bucket(p) == p % NB

VARIABLE log         \* log[p] : sequence of [tx, s, key, ver]  (index - 1 = partition sequence)

ESInit == log = [p \in Parts |-> << >>]

\* all events of stream s in bucket b, as (p, seq) pairs in version order
StreamEvents(L, b, s) ==
    {pi \in UNION {{p} \X (1..Len(L[p])) : p \in {q \in Parts : Bucket(q) = b}} :
        L[pi[1]][pi[2]].s = s}

\* current version of (b, s): CEmpty or Current(v)
CurVer(L, b, s) ==
    LET es == StreamEvents(L, b, s) IN
    IF es = {} THEN V!CEmpty
    ELSE V!Current(CHOOSE v \in {L[e[1]][e[2]].ver : e \in es} :
                      \A e \in es : L[e[1]][e[2]].ver <= v)

BoundKey(L, b, s) ==          \* partition key the stream is bound to ("none" if new)
    LET es == StreamEvents(L, b, s) IN
    IF es = {} THEN "none" ELSE LET e == CHOOSE e \in es : TRUE IN L[e[1]][e[2]].key

CurSeq(L, p) == IF Len(L[p]) = 0 THEN V!CEmpty ELSE V!Current(Len(L[p]) - 1)

(***************************************************************************)
(* The append rule.  Events are validated in order, versions bumped by     *)
(* earlier events of the same transaction (writer_thread_pool.rs           *)
(* validate_event_versions), then the expected partition sequence, then    *)
(* per-event encoding (a timestamp >= 2^63 cannot be encoded).             *)
(*   tx = [id, key, p, xs, evs : Seq([s, x, badts]), oversize]             *)
(***************************************************************************)
RECURSIVE Validate(_, _, _, _)
\* returns <<"ok", versions>> or <<class>>; acc[s] = version after earlier events of the tx
Validate(L, tx, i, acc) ==
    IF i > Len(tx.evs) THEN <<"ok", << >> >>
    ELSE
      LET e == tx.evs[i]
          b == Bucket(tx.p)
          first == e.s \notin DOMAIN acc
          cur == IF first THEN CurVer(L, b, e.s) ELSE V!Current(acc[e.s])
          bk == BoundKey(L, b, e.s)
      IN
      IF first /\ bk # "none" /\ bk # tx.key THEN <<"key_mismatch">>
      ELSE IF ~V!Satisfied(e.x, cur) THEN <<"wrong_version">>
      ELSE
        LET nv == V!NextOf(cur)
            rest == Validate(L, tx, i + 1, [t \in (DOMAIN acc) \cup {e.s} |->
                                              IF t = e.s THEN nv ELSE acc[t]])
        IN IF rest[1] = "ok" THEN <<"ok", <<nv>> \o rest[2]>> ELSE rest

EmptyAcc == [t \in {} |-> 0]

Evaluate(L, tx) ==
    LET v == Validate(L, tx, 1, EmptyAcc) IN
    IF v[1] # "ok" THEN [ok |-> FALSE, class |-> v[1]]
    ELSE IF tx.oversize THEN [ok |-> FALSE, class |-> "too_large"]
    ELSE IF ~V!Satisfied(tx.xs, CurSeq(L, tx.p)) THEN [ok |-> FALSE, class |-> "wrong_sequence"]
    ELSE IF \E i \in DOMAIN tx.evs : tx.evs[i].badts THEN [ok |-> FALSE, class |-> "bad_timestamp"]
    ELSE [ok |-> TRUE, class |-> "ok", first |-> Len(L[tx.p]), vers |-> v[2]]

Applied(L, tx, r) ==
    [L EXCEPT ![tx.p] = @ \o [i \in 1..Len(tx.evs) |->
        [tx |-> tx.id, s |-> tx.evs[i].s, key |-> tx.key, ver |-> r.vers[i]]]]

AppendTx(tx) ==
    LET r == Evaluate(log, tx) IN
    log' = IF r.ok THEN Applied(log, tx, r) ELSE log

(***************************************************************************)
(* Read operators (the oracle of every read API).                          *)
(***************************************************************************)
\* partition scan forward from sequence `from`: <<seq, event>> in increasing order
SeqFrom(L, p, from) == [i \in 1..(IF Len(L[p]) > from THEN Len(L[p]) - from ELSE 0) |->
                            [seq |-> from + i - 1, e |-> L[p][from + i]]]
\* events of a partition at or before `upto`
SeqUpto(L, p, upto) == {i - 1 : i \in {j \in 1..Len(L[p]) : j - 1 <= upto}}

\* stream scan: the set of versions at or after / at or before a position
VersFrom(L, b, s, from) ==
    {L[e[1]][e[2]].ver : e \in {x \in StreamEvents(L, b, s) : L[x[1]][x[2]].ver >= from}}
VersUpto(L, b, s, upto) ==
    {L[e[1]][e[2]].ver : e \in {x \in StreamEvents(L, b, s) : L[x[1]][x[2]].ver <= upto}}

LatestVersion(L, b, s) == CurVer(L, b, s)
LatestSequence(L, p) == CurSeq(L, p)

(***************************************************************************)
(* C02 as invariants / action properties of the model itself               *)
(***************************************************************************)
\* stream versions are gapless from 0 and strictly increase along every partition
StreamGapless ==
    \A b \in 0..(NB - 1) : \A s \in Streams :
        LET es == StreamEvents(log, b, s)
            vs == {log[e[1]][e[2]].ver : e \in es}
        IN /\ Cardinality(vs) = Cardinality(es)
           /\ vs = 0..(Cardinality(es) - 1)
\* one key per stream
OneKeyPerStream ==
    \A b \in 0..(NB - 1) : \A s \in Streams :
        Cardinality({log[e[1]][e[2]].key : e \in StreamEvents(log, b, s)}) <= 1
\* events of one transaction are contiguous in one partition
TxContiguous ==
    \A p \in Parts : \A i, j \in 1..Len(log[p]) :
        (i < j /\ log[p][i].tx = log[p][j].tx) => \A k \in i..j : log[p][k].tx = log[p][i].tx
=============================================================================
