SPECIFICATION Spec
CONSTANTS
  MaxEv = 3
  MaxTx = 3
  QueuePerEvent = TRUE
INVARIANTS NoPartialTx InFlightInvisible NoDanglingEntry
CHECK_DEADLOCK FALSE
