INIT Init
NEXT Next
CONSTANTS
  MaxTx = 2
  MaxEv = 3
INVARIANTS RecoversPrefix Emit
CHECK_DEADLOCK FALSE
