SPECIFICATION Spec
CONSTANTS
  N = 3
  RF = 3
  MaxRep = 4
  Admins = FALSE
  KeepMax = FALSE
VIEW View
CONSTRAINT Bound
INVARIANTS Sound Complete RestartNoRegress PersistDurable MemAboveW
PROPERTY Monotone
CHECK_DEADLOCK FALSE
