INIT Init
NEXT Next
CONSTANTS
  MaxTx = 3
  MaxEv = 3
INVARIANTS RecoversPrefix Emit
CHECK_DEADLOCK FALSE
