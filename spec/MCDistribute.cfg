INIT Init
NEXT Next
CONSTANTS
  MaxNAll = 65535
  MaxNSmall = 40
  EmitTables = TRUE
INVARIANTS InvDistinctWalk InvSmall Emit
CHECK_DEADLOCK FALSE
