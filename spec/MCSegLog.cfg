INIT HInit
NEXT HNext
CONSTANTS
  Size = 4
  MaxRec = 2
  Reader = {1, 2}
  MaxId = 3
  MaxLen = 8
  EmitFrom = 8
VIEW View
CONSTRAINT HBound
INVARIANTS TypeOK CursorAtWofs FlushedIsLog ReadBelowFlushedExact NoReadBeyondFlushed Emit
CHECK_DEADLOCK FALSE
