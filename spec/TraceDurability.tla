-------------------------- MODULE TraceDurability --------------------------
(***************************************************************************)
(* Trace validation of the real writer/sync/rollover/acknowledge protocol  *)
(* against Durability.tla.  The harness records one NDJSON line per hook   *)
(* point (cfg-gated hooks in seglog and sierradb, fired after the state    *)
(* change and before it becomes visible to other threads) plus the         *)
(* client-side acknowledgements and read-after-ack results, ordered by a   *)
(* sequence number taken under one mutex.  Byte offsets are converted to   *)
(* the model's unit (transactions completely contained in the prefix)      *)
(* before validation.  Each line must be explained by the corresponding    *)
(* Durability action with the logged fields bound; every invariant is      *)
(* evaluated in every state of the trace.                                  *)
(***************************************************************************)
EXTENDS Durability, Json, IOUtils
Rec == ndJsonDeserialize(IOEnv.TRACE)

VARIABLES l,
          partial    \* a request wrote some records and then failed: they are still in the segment
tvars == <<vars, l, partial>>
Ev == Rec[l]
IsEvent(e) == l <= Len(Rec) /\ Rec[l].e = e /\ l' = l + 1

TraceTx == 0..1000000
TraceInit == Init /\ l = 1 /\ partial = FALSE

TWrite == UNCHANGED partial /\ IsEvent("write") /\ Ev.seg = seg /\ Write(Ev.tx)
\* Write + failure of Durability!WriteFail, first half: records of the failing request are in the segment
TPartial == IsEvent("partial") /\ Ev.seg = seg /\ wpc = "idle" /\ partial' = TRUE /\ UNCHANGED vars
TFsync == UNCHANGED partial /\ IsEvent("fsync") /\ Ev.seg = seg /\ Fsync /\ synced'[seg] = Ev.units
\* second half: seglog set_len truncates the live segment back
TSetLen == IsEvent("set_len") /\ Ev.seg = seg /\ partial' = FALSE /\ UNCHANGED vars
TPublished == UNCHANGED partial /\ IsEvent("published") /\ Ev.seg = seg /\ Publish /\ watch'[W(seg)] = Ev.units
TReplyOk == UNCHANGED partial /\ IsEvent("reply") /\ Ev.ok = 1 /\ cur = Ev.tx /\ Ev.seg = seg
            /\ Len(content[seg]) = Ev.units /\ Reply
\* an error reply leaves no record of the failed request behind (WriteFail is atomic in the model)
TReplyFail == IsEvent("reply") /\ Ev.ok = 0 /\ wpc = "idle" /\ ~partial /\ UNCHANGED partial
              /\ failed' = failed \cup {Ev.tx}
              /\ UNCHANGED <<seg, content, synced, pending, liveIdx, liveSeg, closed, pool, watch,
                             waiting, acked, wpc, cur, rd>>
TRollSynced == UNCHANGED partial /\ IsEvent("roll_synced") /\ Ev.seg = seg /\ RollSync
TRollCreated == UNCHANGED partial /\ IsEvent("roll_created") /\ RollCreate /\ Ev.seg = seg'
TRollSwapped == UNCHANGED partial /\ IsEvent("roll_swapped") /\ Ev.seg = seg /\ RollSwap
TRollOld == UNCHANGED partial /\ IsEvent("roll_old") /\ Ev.seg = seg /\ wpc = "swapped" /\ UNCHANGED vars
TRollNew == UNCHANGED partial /\ IsEvent("roll_new") /\ Ev.seg = seg /\ RollInstallNew
TAck == UNCHANGED partial /\ IsEvent("ack") /\ \E w \in waiting : w.t = Ev.tx /\ Ack(w)
\* a read issued after the acknowledgement finds every event of the transaction
TRead == UNCHANGED partial /\ IsEvent("read") /\ (Ev.tx \in Published => Ev.found = 1) /\ Ev.tx \in acked
         /\ UNCHANGED vars
\* clean shutdown (its final sync appears as fsync/published lines) and reopen
TReopen ==
    /\ UNCHANGED partial
    /\ IsEvent("reopen") /\ wpc = "idle" /\ waiting = {} /\ pending = << >>
    /\ \A g \in Segs : synced[g] = Len(content[g])
    /\ liveIdx' = {content[seg][i] : i \in 1..Len(content[seg])}
    /\ closed' = [g \in Segs |-> IF g < seg THEN {content[g][i] : i \in 1..Len(content[g])} ELSE {}]
    /\ pool' = [g \in Segs |-> IF g < seg THEN "indexed" ELSE IF g = seg THEN "data" ELSE "absent"]
    /\ watch' = [watch EXCEPT ![W(seg)] = Len(content[seg])]
    /\ UNCHANGED <<seg, content, synced, pending, liveSeg, waiting, acked, failed, wpc, cur, rd>>
\* start of the next recorded run
TReset ==
    /\ partial' = FALSE
    /\ IsEvent("reset")
    /\ seg' = 0 /\ content' = [g \in Segs |-> << >>] /\ synced' = [g \in Segs |-> 0]
    /\ pending' = << >> /\ liveIdx' = {} /\ liveSeg' = 0 /\ closed' = [g \in Segs |-> {}]
    /\ pool' = [g \in Segs |-> IF g = 0 THEN "data" ELSE "absent"]
    /\ watch' = [g \in Segs |-> 0] /\ waiting' = {} /\ acked' = {} /\ failed' = {}
    /\ wpc' = "idle" /\ UNCHANGED <<cur, rd>>

TraceNext ==
    \/ TWrite \/ TPartial \/ TFsync \/ TSetLen \/ TPublished \/ TReplyOk \/ TReplyFail
    \/ TRollSynced \/ TRollCreated \/ TRollSwapped \/ TRollOld \/ TRollNew
    \/ TAck \/ TRead \/ TReopen \/ TReset

TraceSpec == TraceInit /\ [][TraceNext]_tvars

Always == TRUE
TraceAccepted ==
    LET d == TLCGet("stats").diameter - 1 IN
    IF d = Len(Rec) THEN TRUE
    ELSE Print(<<"TRACE_REJECTED_AT", d + 1, IF d + 1 <= Len(Rec) THEN ToJson(Rec[d + 1]) ELSE "eof">>, FALSE)
=============================================================================
