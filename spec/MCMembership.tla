---------------------------- MODULE MCMembership ----------------------------
EXTENDS Membership, Json
VARIABLE h           \* history of actions, hidden from the fingerprint by VIEW
CONSTANTS MaxLen, EmitFrom

HInit == Init /\ h = << >>
Step(rec) == h' = Append(h, rec)
SetSeq(S) == LET F[T \in SUBSET S] == IF T = {} THEN << >> ELSE
                 LET m == CHOOSE x \in T : \A y \in T : x <= y IN <<m>> \o F[T \ {m}]
             IN F[S]
\* abstract state of node n after the step, as the harness projects the real manager
Proj(n) == [active |-> [a \in Peer |-> active'[n][a]],
            known |-> SetSeq(known'[n]), hb |-> SetSeq(hb'[n]),
            reps |-> [p \in 1..NPart |-> SetSeq(reps'[n][p - 1])]]
HConnect == \E n, a \in Peer : \E e \in 1..MaxEpoch :
    Connect(n, a, e) /\ Step([op |-> "connect", n |-> n, a |-> a, e |-> e, post |-> Proj(n)])
HHeartbeat == \E n, a \in Peer : \E e \in 1..MaxEpoch :
    Heartbeat(n, a, e) /\ Step([op |-> "heartbeat", n |-> n, a |-> a, e |-> e, post |-> Proj(n)])
HDisconnect == \E n, a \in Peer :
    Disconnect(n, a) /\ Step([op |-> "disconnect", n |-> n, a |-> a, post |-> Proj(n)])
HTimeouts == \E n \in Peer : \E S \in SUBSET Peer :
    Timeouts(n, S) /\ Step([op |-> "timeouts", n |-> n, S |-> SetSeq(S), post |-> Proj(n)])
HResponse == \E n \in Peer : \E m \in resps :
    Response(n, m) /\ Step([op |-> "response", n |-> n,
                            mactive |-> [a \in Peer |-> m.active[a]],
                            mreps |-> [p \in 1..NPart |-> SetSeq(m.reps[p - 1])],
                            post |-> Proj(n)])
HRestart == \E a \in Peer :
    Restart(a) /\ Step([op |-> "restart", n |-> a, e |-> epoch'[a], post |-> Proj(a)])
HNext == HConnect \/ HHeartbeat \/ HDisconnect \/ HTimeouts \/ HResponse \/ HRestart

View == vars
HBound == Bound /\ Len(h) <= MaxLen
Emit == (Len(h) >= EmitFrom) => PrintT(<<"REPLAY", ToJson(h)>>)
=============================================================================
