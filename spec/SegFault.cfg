INIT Init
NEXT Next
INVARIANTS NeverAcceptsCorrupted Emit
CHECK_DEADLOCK FALSE
