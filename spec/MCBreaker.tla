----------------------------- MODULE MCBreaker -----------------------------
(* Model-checking / schedule-generation instance of Breaker: the history h  *)
(* records every step (thread, label = hook point the thread stood at, the  *)
(* operation started, the value returned when the operation completes) and  *)
(* every clock advance, so that a behaviour is a schedule for real threads. *)
EXTENDS Breaker, Json
VARIABLES h,
          raced,     \* some thread read the clock, and then a last-failure time later than that reading
          cycle      \* how far through an outage cycle the behaviour got: 0 nothing, 1 opened, 2 recovered (closed again
                     \* from half-open), 3 a failure was counted after the recovery
HInit == Init /\ h = << >> /\ raced = FALSE /\ cycle = 0
HStep == \E t \in Thread :
            /\ Step(t)
            /\ h' = Append(h, [t |-> t, at |-> pc[t], k |-> op'[t], nxt |-> pc'[t],
                               r |-> IF pc'[t] = "idle" THEN ret'[t] ELSE "-", clock |-> clock])
            /\ raced' = (raced \/ (pc[t] \in {"cb.allow.load_lft", "cb.est.load_lft"} /\ loc[t].now < lft))
            /\ cycle' = IF cycle = 0 /\ state' = "open" THEN 1
                        ELSE IF cycle = 1 /\ state = "half" /\ state' = "closed" THEN 2
                        ELSE IF cycle = 2 /\ pc[t] = "cb.fail.store_lft" THEN 3
                        ELSE cycle
HTick == \E d \in {1, Timeout} : Tick(d) /\ h' = Append(h, [tick |-> d, clock |-> clock']) /\ UNCHANGED <<raced, cycle>>
HNext == HStep \/ HTick
View == <<state, fc, lft, hocc, hosc, clock, pc, op, loc, nops, probes, incs, underflow, openedEarly, lateReset, raced, cycle>>
AllDone == \A t \in Thread : pc[t] = "idle" /\ nops[t] = MaxOps
Final == [state |-> state, fc |-> fc, hocc |-> hocc, hosc |-> hosc]
Emit == AllDone => PrintT(<<"REPLAY", ToJson([steps |-> h, final |-> Final, probes |-> probes])>>)
\* simulation: stop a walk once every thread is done
NotDone == ~AllDone
\* the recorded finding as a replayable schedule: print the history of the first state that breaks the bound
ProbesBoundedP == (probes > MaxCalls) =>
    (PrintT(<<"REPLAY", ToJson([steps |-> h, final |-> Final, probes |-> probes])>>) /\ FALSE)
NoUnderflowP == underflow =>
    (PrintT(<<"REPLAY", ToJson([steps |-> h, final |-> Final, probes |-> probes])>>) /\ FALSE)
=============================================================================
