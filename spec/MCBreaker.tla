----------------------------- MODULE MCBreaker -----------------------------
(* Model-checking / schedule-generation instance of Breaker: the history h  *)
(* records every step (thread, label = hook point the thread stood at, the  *)
(* operation started, the value returned when the operation completes) and  *)
(* every clock advance, so that a behaviour is a schedule for real threads. *)
EXTENDS Breaker, Json
VARIABLES h,
          raced      \* some thread read the clock, and then a last-failure time later than that reading
HInit == Init /\ h = << >> /\ raced = FALSE
HStep == \E t \in Thread :
            /\ Step(t)
            /\ h' = Append(h, [t |-> t, at |-> pc[t], k |-> op'[t], nxt |-> pc'[t],
                               r |-> IF pc'[t] = "idle" THEN ret'[t] ELSE "-", clock |-> clock])
            /\ raced' = (raced \/ (pc[t] \in {"cb.allow.load_lft", "cb.est.load_lft"} /\ loc[t].now < lft))
HTick == \E d \in {1, Timeout} : Tick(d) /\ h' = Append(h, [tick |-> d, clock |-> clock']) /\ UNCHANGED raced
HNext == HStep \/ HTick
View == <<state, fc, lft, hocc, hosc, clock, pc, op, loc, nops, probes, incs, underflow, openedEarly, lateReset, raced>>
AllDone == \A t \in Thread : pc[t] = "idle" /\ nops[t] = MaxOps
Final == [state |-> state, fc |-> fc, hocc |-> hocc, hosc |-> hosc]
Emit == AllDone => PrintT(<<"REPLAY", ToJson([steps |-> h, final |-> Final, probes |-> probes])>>)
\* simulation: stop a walk once every thread is done
NotDone == ~AllDone
\* the recorded finding as a replayable schedule: print the history of the first state that breaks the bound
ProbesBoundedP == (probes > MaxCalls) =>
    (PrintT(<<"REPLAY", ToJson([steps |-> h, final |-> Final, probes |-> probes])>>) /\ FALSE)
NoUnderflowP == underflow =>
    (PrintT(<<"REPLAY", ToJson([steps |-> h, final |-> Final, probes |-> probes])>>) /\ FALSE)
=============================================================================
