INIT HInit
NEXT HNext
CONSTANTS
  Thread = {"t1", "t2", "t3"}
  MaxOps = 1
  Threshold = 2
  Timeout = 2
  MaxCalls = 1
  SuccThreshold = 1
  MaxClock = 4
  Saturating = TRUE
  CountTransition = TRUE
  ResetAtHalfOpen = FALSE
VIEW View
INVARIANTS NoUnderflow OpensOnlyAfterThreshold ProbesBoundedUnlessLateReset
CHECK_DEADLOCK FALSE
