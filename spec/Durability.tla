----------------------------- MODULE Durability -----------------------------
(***************************************************************************)
(* Storage mechanics of one bucket of the store (writer_thread_pool.rs,    *)
(* database.rs, reader_thread_pool.rs): the writer thread's append path,   *)
(* the sync protocol (fsync -> publish indexes -> per-segment watch ->     *)
(* acknowledgement), segment rollover in its sub-steps, and readers doing  *)
(* their two-step lookups (live index, then reader pool) concurrently.     *)
(*                                                                         *)
(* Content is abstracted to transaction ids (EventStore.tla is the         *)
(* functional model); every transaction occupies one unit of a segment of  *)
(* Cap units.                                                              *)
(*                                                                         *)
(* Writer thread (one per bucket, so its actions never overlap):           *)
(*   Write(t)        validate, write event(s)+commit, flush to the OS      *)
(*   Reply           reply to the client with (segment, end offset)        *)
(*   WriteFail(t)    a write fails half way: seglog set_len (which fsyncs) *)
(*                   rolls the segment back; error reply                   *)
(*   Fsync, Publish  WriterSet::sync: fsync the live segment; publish the  *)
(*                   pending index entries and advance the segment's watch *)
(*   RollSync / RollCreate / RollSwap / RollInstallNew                     *)
(*                   rollover: sync, create the next segment, swap the     *)
(*                   live indexes and hand the sealed segment (reader +    *)
(*                   closed indexes) to the reader pool under the index    *)
(*                   lock, install the new segment's reader                *)
(* Client:                                                                 *)
(*   Ack(w)          wait_for on the watch of the segment the transaction  *)
(*                   was written to reaches its end offset                 *)
(* Reader r:                                                               *)
(*   LookLive(r,t)   step 1: live index under the read lock                *)
(*   LookPool(r)     step 2: reader pool (by segment+offset, or by         *)
(*                   searching the closed indexes newest first)            *)
(***************************************************************************)
EXTENDS Naturals, Sequences, FiniteSets, TLC, Json
CONSTANTS Tx, Cap, MaxSeg, Reader,
          WatchPerSegment,   \* TRUE: the design; FALSE: one watch channel shared by all segments
          SwapInstallsOld,   \* TRUE: the design; FALSE: sealed segment handed to the reader pool
                             \*       only after the index lock was released (separate step)
          ResetOnRoll        \* FALSE: the design; TRUE (with a shared watch): the one channel is
                             \*       set back to the new segment's start offset at rollover
W(g) == IF WatchPerSegment THEN g ELSE 0

VARIABLES
    seg,        \* id of the live segment
    content,    \* content[g] : sequence of transactions written to segment g
    synced,     \* synced[g]  : length of the fsynced prefix of segment g
    pending,    \* transactions written to the live segment, index entries not yet published
    liveIdx,    \* transactions in the live (open) index set
    liveSeg,    \* segment the live index set belongs to (index_segment_id)
    closed,     \* closed[g]  : transactions in the sealed segment's closed index set
    pool,       \* pool[g] \in {"absent","data","indexed"} : what the reader pool holds
    watch,      \* watch[g]   : last value sent on the watch channel of segment g
    waiting,    \* replies not yet acknowledged: [t, g, off]
    acked,      \* acknowledged transactions
    failed,     \* transactions answered with an error
    wpc,        \* writer's position inside a request ("idle", "written", rollover sub-step)
    cur,        \* transaction of the request in progress
    rd          \* rd[r] : reader state [pc, t, hit, g, pub]

vars == <<seg, content, synced, pending, liveIdx, liveSeg, closed, pool, watch, waiting,
          acked, failed, wpc, cur, rd>>

\* at / pat of the reader records are bookkeeping for the schedule table only
ViewNoHist == <<seg, content, synced, pending, liveIdx, liveSeg, closed, pool, watch, waiting, acked,
                failed, wpc, cur,
                [r \in Reader |-> [pc |-> rd[r].pc, t |-> rd[r].t, hit |-> rd[r].hit, g |-> rd[r].g,
                                   pub |-> rd[r].pub]]>>

Segs == 0..MaxSeg
Written == UNION {{content[g][i] : i \in 1..Len(content[g])} : g \in Segs}
\* at / pat: where the writer stood (<<wpc, seg>>) when the reader took its first / second step
Idle == [pc |-> "idle", t |-> CHOOSE t \in Tx : TRUE, hit |-> FALSE, g |-> 0, pub |-> FALSE,
         at |-> <<"idle", 0>>, pat |-> <<"idle", 0>>]

Init ==
    /\ seg = 0
    /\ content = [g \in Segs |-> << >>]
    /\ synced = [g \in Segs |-> 0]
    /\ pending = << >>
    /\ liveIdx = {} /\ liveSeg = 0
    /\ closed = [g \in Segs |-> {}]
    /\ pool = [g \in Segs |-> IF g = 0 THEN "data" ELSE "absent"]
    /\ watch = [g \in Segs |-> 0]
    /\ waiting = {} /\ acked = {} /\ failed = {}
    /\ wpc = "idle" /\ cur = CHOOSE t \in Tx : TRUE
    /\ rd = [r \in Reader |-> Idle]

Fresh(t) == t \notin Written /\ t \notin failed

----------------------------------------------------------------------------
\* writer thread

NoRoom == Len(content[seg]) >= Cap
HasRoom == Len(content[seg]) < Cap

\* handle_write: the records of t (events + commit) are appended and flushed to the OS
Write(t) ==
    /\ wpc = "idle" /\ Fresh(t) /\ HasRoom
    /\ content' = [content EXCEPT ![seg] = Append(@, t)]
    /\ pending' = Append(pending, t)
    /\ cur' = t /\ wpc' = "written"
    /\ UNCHANGED <<seg, synced, liveIdx, liveSeg, closed, pool, watch, waiting, acked, failed, rd>>

\* reply to the client with (segment, end offset) and a receiver of that segment's watch
Reply ==
    /\ wpc = "written"
    /\ waiting' = waiting \cup {[t |-> cur, g |-> seg, off |-> Len(content[seg])]}
    /\ wpc' = "idle"
    /\ UNCHANGED <<seg, content, synced, pending, liveIdx, liveSeg, closed, pool, watch, acked,
                   failed, cur, rd>>

\* a write that fails after some of its records were appended: set_len syncs the segment
\* (fsync of everything written so far) and truncates back; nothing is published, the watch
\* does not move; error reply
WriteFail(t) ==
    /\ wpc = "idle" /\ Fresh(t) /\ HasRoom
    /\ synced' = [synced EXCEPT ![seg] = Len(content[seg])]
    /\ failed' = failed \cup {t}
    /\ UNCHANGED <<seg, content, pending, liveIdx, liveSeg, closed, pool, watch, waiting, acked,
                   wpc, cur, rd>>

\* WriterSet::sync, first half: seglog Writer::sync (flush + fsync) if anything is unsynced
Fsync ==
    /\ wpc \in {"idle", "written"}
    /\ synced' = [synced EXCEPT ![seg] = Len(content[seg])]
    /\ UNCHANGED <<seg, content, pending, liveIdx, liveSeg, closed, pool, watch, waiting, acked,
                   failed, wpc, cur, rd>>

\* WriterSet::sync, second half: publish the pending index entries, then advance the watch
\* of this segment to the write offset
DoPublish ==
    /\ liveIdx' = liveIdx \cup {pending[i] : i \in 1..Len(pending)}
    /\ pending' = << >>
    /\ watch' = [watch EXCEPT ![W(seg)] = Len(content[seg])]

Publish ==
    /\ wpc \in {"idle", "written"}
    /\ synced[seg] = Len(content[seg])          \* Writer::sync returned: nothing is dirty
    /\ DoPublish
    /\ UNCHANGED <<seg, content, synced, liveSeg, closed, pool, waiting, acked, failed, wpc, cur, rd>>

\* rollover, entered when the next transaction does not fit
RollSync ==
    /\ wpc = "idle" /\ NoRoom /\ seg < MaxSeg
    /\ synced[seg] = Len(content[seg]) /\ pending = << >>     \* rollover starts with sync()
    /\ wpc' = "synced"
    /\ UNCHANGED <<seg, content, synced, pending, liveIdx, liveSeg, closed, pool, watch, waiting,
                   acked, failed, cur, rd>>

RollCreate ==
    /\ wpc = "synced"
    /\ seg' = seg + 1
    /\ wpc' = "created"
    /\ watch' = IF ResetOnRoll /\ ~WatchPerSegment THEN [watch EXCEPT ![0] = 0] ELSE watch
    /\ UNCHANGED <<content, synced, pending, liveIdx, liveSeg, closed, pool, waiting,
                   acked, failed, cur, rd>>

\* under the live-index write lock: (pending is empty after RollSync) the open indexes are
\* closed and replaced by empty ones for the new segment, index_segment_id is updated, and
\* the sealed segment with its closed indexes is handed to the reader pool
RollSwap ==
    /\ wpc = "created"
    /\ closed' = [closed EXCEPT ![seg - 1] = liveIdx]
    /\ liveIdx' = {} /\ liveSeg' = seg
    /\ pool' = IF SwapInstallsOld THEN [pool EXCEPT ![seg - 1] = "indexed"] ELSE pool
    /\ wpc' = IF SwapInstallsOld THEN "swapped" ELSE "swapped_only"
    /\ UNCHANGED <<seg, content, synced, pending, watch, waiting, acked, failed, cur, rd>>

RollInstallOld ==      \* only in the deviating design
    /\ wpc = "swapped_only"
    /\ pool' = [pool EXCEPT ![seg - 1] = "indexed"]
    /\ wpc' = "swapped"
    /\ UNCHANGED <<seg, content, synced, pending, liveIdx, liveSeg, closed, watch, waiting,
                   acked, failed, cur, rd>>

RollInstallNew ==
    /\ wpc = "swapped"
    /\ pool' = [pool EXCEPT ![seg] = "data"]
    /\ wpc' = "idle"
    /\ UNCHANGED <<seg, content, synced, pending, liveIdx, liveSeg, closed, watch, waiting,
                   acked, failed, cur, rd>>

----------------------------------------------------------------------------
\* client side of an append: the acknowledgement

Ack(w) ==
    /\ w \in waiting
    /\ watch[W(w.g)] >= w.off
    /\ waiting' = waiting \ {w}
    /\ acked' = acked \cup {w.t}
    /\ UNCHANGED <<seg, content, synced, pending, liveIdx, liveSeg, closed, pool, watch, failed,
                   wpc, cur, rd>>

----------------------------------------------------------------------------
\* readers: event lookup in two steps (read_transaction); stream / partition scans and the
\* version queries take the same two steps with the stream / partition index

SegOf(t) == CHOOSE g \in Segs : \E i \in 1..Len(content[g]) : content[g][i] = t

LookLive(r, t) ==
    /\ rd[r].pc = "idle" /\ t \in Written
    /\ rd' = [rd EXCEPT ![r] = [pc |-> "looked", t |-> t, hit |-> t \in liveIdx, g |-> liveSeg,
                                pub |-> t \in liveIdx \cup UNION {closed[g] : g \in Segs},
                                at |-> <<wpc, seg>>, pat |-> <<wpc, seg>>]]
    /\ UNCHANGED <<seg, content, synced, pending, liveIdx, liveSeg, closed, pool, watch, waiting,
                   acked, failed, wpc, cur>>

PoolFinds(t) == \E g \in Segs : pool[g] = "indexed" /\ t \in closed[g]

Found(r) ==
    IF rd[r].hit THEN pool[rd[r].g] # "absent"       \* read by (segment, offset)
    ELSE PoolFinds(rd[r].t)

LookPool(r) ==
    /\ rd[r].pc = "looked"
    /\ rd' = [rd EXCEPT ![r] = [pc |-> IF Found(r) THEN "found" ELSE "miss",
                                t |-> rd[r].t, hit |-> rd[r].hit, g |-> rd[r].g,
                                pub |-> rd[r].pub, at |-> rd[r].at, pat |-> <<wpc, seg>>]]
    /\ UNCHANGED <<seg, content, synced, pending, liveIdx, liveSeg, closed, pool, watch, waiting,
                   acked, failed, wpc, cur>>

Finish(r) ==
    /\ rd[r].pc \in {"found", "miss"}
    /\ rd' = [rd EXCEPT ![r] = Idle]
    /\ UNCHANGED <<seg, content, synced, pending, liveIdx, liveSeg, closed, pool, watch, waiting,
                   acked, failed, wpc, cur>>

----------------------------------------------------------------------------
AckAny == \E w \in waiting : Ack(w)

WriterStep ==
    \/ \E t \in Tx : Write(t) \/ WriteFail(t)
    \/ Reply \/ Fsync \/ Publish \/ RollSync \/ RollCreate \/ RollSwap \/ RollInstallOld \/ RollInstallNew

Next ==
    \/ WriterStep
    \/ AckAny
    \/ \E r \in Reader : (\E t \in Tx : LookLive(r, t)) \/ LookPool(r) \/ Finish(r)

Spec == Init /\ [][Next]_vars

\* with the syncer thread polling and a healthy disk the writer keeps taking steps
FairSpec == Spec /\ WF_vars(Fsync) /\ WF_vars(Publish) /\ WF_vars(Reply) /\ WF_vars(RollSync) /\ WF_vars(RollCreate) /\ WF_vars(RollSwap)
                 /\ WF_vars(RollInstallNew) /\ \A t \in Tx : WF_vars(\E w \in waiting : w.t = t /\ Ack(w))

----------------------------------------------------------------------------
(* C01 *)
Published == liveIdx \cup UNION {closed[g] : g \in Segs}
AckedDurable == \A t \in acked : \E i \in 1..synced[SegOf(t)] : content[SegOf(t)][i] = t
AckedPublished == acked \subseteq Published
\* whatever is published can be found by an (atomic) lookup right now
FindNow(t) == (t \in liveIdx /\ pool[liveSeg] # "absent") \/ PoolFinds(t)
PublishedFindable == \A t \in Published : FindNow(t)

(* C15 *)  \* a two-step lookup of a transaction that was published when it started never misses
ReaderNeverMisses == \A r \in Reader : rd[r].pc = "miss" => ~rd[r].pub
\* index entries never disappear: what a reader saw it keeps seeing
PublishedMonotone == [][Published \subseteq Published']_vars

\* schedule table for the replay harness (C15): every reachable combination of writer
\* positions at the two steps of a lookup of a published transaction, with the outcome
EmitSched == \A r \in Reader :
    (rd[r].pc \in {"found", "miss"} /\ rd[r].pub) =>
        PrintT(<<"TABLE", ToJson([live_at |-> rd[r].at, pool_at |-> rd[r].pat, hit |-> rd[r].hit,
                                  sealed |-> (rd[r].g # rd[r].pat[2]) \/ ~rd[r].hit,
                                  found |-> rd[r].pc = "found"])>>)

(* C20 *)  \* an acknowledgement that has become possible stays possible (no missed notification):
\* whenever the client task gets to look at the watch, it sees a value that covers its offset
AckStable == [][\A w \in waiting \cap waiting' :
                   watch[W(w.g)] >= w.off => watch'[W(w.g)] >= w.off]_vars
\* writer positions at which a waiter of an earlier segment may still be looking at its watch
EmitLate == \A w \in waiting :
    (watch[W(w.g)] >= w.off /\ (w.g < seg \/ wpc = "synced")) =>
        PrintT(<<"TABLE", ToJson([wpc |-> wpc, seg |-> seg, wseg |-> w.g])>>)
\* every reply is eventually acknowledged
EveryAppendCompletes == \A t \in Tx : (\E w \in waiting : w.t = t) ~> (t \in acked)

TypeOK ==
    /\ seg \in Segs /\ liveSeg \in Segs
    /\ wpc \in {"idle", "written", "synced", "created", "swapped_only", "swapped"}
    /\ \A g \in Segs : synced[g] <= Len(content[g])
    /\ WatchPerSegment => \A g \in Segs : watch[g] <= synced[g]
=============================================================================
