SPECIFICATION SliceSpec
CONSTANTS
  Node = {1, 2, 3}
  RF = 3
  Txs <- TxDef3
  MaxView = 2
  MaxDup = 0
  MaxCrash = 2
  MaxLose = 4
  QuorumDelta = 0
  CheckConfirm = TRUE
  HoldBack = {}
  PinSeq = TRUE
  TxStream <- StreamDef
VIEW View
INVARIANTS EmitSlice CntShape OneConfirmedPerSeq ConfirmedPrefixAgree AckedOnQuorum QuorumCountMeansQuorumHeld
PROPERTY AckedStable
CHECK_DEADLOCK FALSE
