#!/opt/veriftools/pyvenv/bin/python
"""Validates MANIFEST.json and evidence/*.json against the schemas in /root/.vp (developer aid)."""
import json, sys, glob, jsonschema
ms = json.load(open('/root/.vp/MANIFEST.schema.json')); es = json.load(open('/root/.vp/EVIDENCE.schema.json'))
bad = 0
try:
    jsonschema.validate(json.load(open('/verif/MANIFEST.json')), ms)
except Exception as e:
    print('MANIFEST invalid:', str(e)[:500]); bad = 1
m = json.load(open('/verif/MANIFEST.json'))
claimed = {c['property_id']: c for c in m['checks']}
for pid, c in claimed.items():
    f = c['evidence_file']
    try:
        ev = json.load(open(f)); jsonschema.validate(ev, es)
        if ev['level'] != c['level_claimed']['category']:
            print(pid, 'level mismatch', ev['level'], c['level_claimed']['category']); bad = 1
    except Exception as e:
        print(pid, 'evidence invalid:', str(e)[:300]); bad = 1
ids = [json.loads(l)['id'] for l in open('/verif/properties.jsonl')]
na = {n['property_id'] for n in m.get('not_applicable', [])}
for i in ids:
    if (i in claimed) == (i in na):
        print(i, 'must be in exactly one of checks / not_applicable'); bad = 1
print('ok' if not bad else 'INVALID'); sys.exit(bad)
