#!/usr/bin/env python3
"""Developer aid for seeded changes (/verif/seeded/<name>/).

  tools/seeded.py confirm <name> <outdir>      verify a sub-agent's deliverable in a scratch worktree of /repo's HEAD
                                               (demo fails with the change, passes without, crate tests pass) and, if so,
                                               store it as /verif/seeded/<name>/ {patch.diff, demo file(s), meta.json}
  tools/seeded.py run <name> <ID> [<ID>...]    apply seeded/<name>/patch.diff to /repo, run ./check <ID> --tier quick for each,
                                               undo the change, restore evidence; prints and records which checks caught it
"""
import json
import os
import shutil
import subprocess
import sys
import time

VERIF = os.path.dirname(os.path.dirname(os.path.abspath(__file__)))
SEEDED = os.path.join(VERIF, "seeded")
TARGET = "/tmp/vt-target"


def sh(cmd, cwd=None, env=None, timeout=7200):
    e = dict(os.environ)
    e["CARGO_NET_OFFLINE"] = "true"
    if env:
        e.update(env)
    p = subprocess.run(cmd, shell=True, cwd=cwd, env=e, stdout=subprocess.PIPE, stderr=subprocess.STDOUT, text=True, timeout=timeout)
    return p.returncode, p.stdout


def confirm(name, outdir):
    meta = json.load(open(os.path.join(outdir, "meta.json")))
    wt = "/tmp/vt-" + name
    sh("git -C /repo worktree remove --force %s" % wt)
    rc, out = sh("git -C /repo worktree add --detach %s HEAD" % wt)
    assert rc == 0, out
    log = {}
    try:
        patch = os.path.join(outdir, "patch.diff")
        rc, out = sh("git apply --check %s" % patch, cwd=wt)
        if rc != 0:
            print("patch does not apply at /repo HEAD:\n" + out)
            return 1
        demo_rel = meta["demo_path_in_tree"]
        demos = [demo_rel] if isinstance(demo_rel, str) else demo_rel
        for d in demos:
            src = os.path.join(outdir, os.path.basename(d))
            os.makedirs(os.path.dirname(os.path.join(wt, d)), exist_ok=True)
            shutil.copy(src, os.path.join(wt, d))
        env = {"CARGO_TARGET_DIR": TARGET}
        cmd = meta["demo_cmd"]
        if "--offline" not in cmd:
            cmd = cmd.replace("cargo test", "cargo test --offline").replace("cargo run", "cargo run --offline")
        # without the change
        rc0, out0 = sh(cmd, cwd=wt, env=env)
        log["demo_without_change"] = {"rc": rc0, "tail": out0[-1500:]}
        sh("git apply %s" % patch, cwd=wt)
        rc1, out1 = sh(cmd, cwd=wt, env=env)
        log["demo_with_change"] = {"rc": rc1, "tail": out1[-1500:]}
        crates = sorted({f.split("/")[1] for f in meta.get("files_changed", []) if f.startswith("crates/")})
        tests = {}
        for c in crates:
            pkg = c
            rct, outt = sh("cargo test --offline -p %s --lib --bins 2>&1 | grep -E 'test result|FAILED|failed' | head -20" % pkg, cwd=wt, env=env)
            tests[pkg] = outt.strip()
        log["existing_tests_with_change"] = tests
        ok = rc0 == 0 and rc1 != 0 and all("FAILED" not in t and "failed;" not in t.replace("0 failed;", "") for t in tests.values())
        print(json.dumps(log, indent=1)[:6000])
        print("CONFIRMED" if ok else "NOT CONFIRMED")
        if not ok:
            return 1
        dst = os.path.join(SEEDED, name)
        os.makedirs(dst, exist_ok=True)
        shutil.copy(patch, os.path.join(dst, "patch.diff"))
        for d in demos:
            shutil.copy(os.path.join(outdir, os.path.basename(d)), dst)
        meta["confirmed"] = {"repo_head": sh("git -C /repo rev-parse --short HEAD")[1].strip(), "ran": [cmd] + ["cargo test --offline -p %s --lib --bins" % c for c in crates],
                             "demo_without_change_rc": rc0, "demo_with_change_rc": rc1, "existing_tests_with_change": tests}
        json.dump(meta, open(os.path.join(dst, "meta.json"), "w"), indent=1)
        return 0
    finally:
        sh("git -C /repo worktree remove --force %s" % wt)


def run(name, ids, tier="quick"):
    dst = os.path.join(SEEDED, name)
    patch = os.path.join(dst, "patch.diff")
    rc, out = sh("git -C /repo status --porcelain --untracked-files=no")
    assert out.strip() == "", "/repo has uncommitted changes:\n" + out
    rc, out = sh("git -C /repo apply %s" % patch)
    assert rc == 0, out
    results = {}
    try:
        for pid in ids:
            t0 = time.time()
            rc, out = sh("./check %s --tier %s" % (pid, tier), cwd=VERIF, timeout=14400)
            lines = [l for l in out.splitlines() if l.startswith("VIOLATION") or l.startswith("  key=") or l.startswith("TOOL-ERROR") or l.startswith("KNOWN")]
            results[pid] = {"rc": rc, "wall_s": round(time.time() - t0), "lines": [l[:400] for l in lines[:6]]}
            print(pid, "rc=%d" % rc, "%ds" % (time.time() - t0))
            for l in lines[:6]:
                print("   ", l[:400])
    finally:
        sh("git -C /repo checkout -- .")
        sh("git checkout -- evidence", cwd=VERIF)
    mp = os.path.join(dst, "meta.json")
    meta = json.load(open(mp))
    meta.setdefault("checks_run", {}).update({k: {"tier": tier, **v} for k, v in results.items()})
    meta["caught_by"] = sorted(k for k, v in meta["checks_run"].items() if v["rc"] == 1)
    json.dump(meta, open(mp, "w"), indent=1)
    return 0


if __name__ == "__main__":
    if sys.argv[1] == "confirm":
        sys.exit(confirm(sys.argv[2], sys.argv[3]))
    elif sys.argv[1] == "run":
        tier = os.environ.get("SEEDED_TIER", "quick")
        sys.exit(run(sys.argv[2], sys.argv[3:], tier))
