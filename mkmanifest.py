#!/usr/bin/env python3
"""Regenerates /verif/MANIFEST.json from the table below (run after adding a check)."""
import json
import os
import subprocess

HERE = os.path.dirname(os.path.abspath(__file__))

# id -> (level category, technique, level text, level note, design ref, engine)
P = {
 "C13": ("model_checking", "TLA+ transcription of both placement rules checked by TLC + exhaustive comparison with the real functions",
         "TLC checks Agreement on the transcription of AppConfig::assigned_buckets and TopologyManager::calculate_assigned_partitions for every configuration in bounds; the tabulated transcription is compared with the real functions, and Agreement is evaluated directly on the real functions for every validated configuration up to N<=8,B<=16,P<=32 plus sampled large ones.",
         "AppConfig is constructed programmatically; replication factors above 12 are outside the domain.", "5/C13", "h-topology"),
 "C14": ("model_checking", "TLC over Topology.tla (static) and Membership.tla (all interleavings of membership events) + behaviour replay on real TopologyManager instances",
         "Static replica-count/ownership rules model-checked and compared with the real manager (incl. N>=256); the membership machine is explored exhaustively for 3 peers (every order of connect/heartbeat/disconnect/timeout/stale ownership response/restart) with SameView=>SameReplicas/SameOrder, and every emitted behaviour is replayed step by step on three real managers with the full state compared.",
         "Gossip transport abstracted as an unordered, duplicating, lossy bag; timeouts injected by back-dating heartbeats.", "5/C14", "h-topology"),
 "C24": ("model_checking", "closed form of distribute_partition in TLA+ checked by TLC for all n; real function compared on the whole input space",
         "TLC proves walk distinctness for every partition count 1..65535 on the closed form and DistributeOK for small n; the real function is compared with the closed form for all (n, start) x rf and all 2^16 hashes (thorough: entire space, release; boundary region also in the dev profile so overflow panics surface).",
         "Closed-form mirror in the harness is validated against the TLC table on every run.", "5/C24", "h-topology"),
 "C25": ("model_checking", "Versions.tla algebra checked by TLC over boundary representatives + table/mirror comparison with sierradb-protocol",
         "TLC checks the algebra (gap/satisfied agreement, totality, round trips) on all pairs of boundary representatives; every row is compared with the real gap_from/is_satisfied_by in dev and release profiles, then 10^6 random and boundary u64 pairs via a u128 mirror; Display/FromStr and from_next/into_next round trips on the same values.",
         "Store acceptance <=> Satisfied is bound to the writer by C02 (EventStore!Append uses Versions!Satisfied).", "5/C25", "h-topology"),
 "C23": ("model_checking", "Ids.tla bit-layout model checked by TLC for all 2^16 hashes + bit-exact comparison with sierradb::id",
         "TLC checks EmbedsHash/FlagPreserves on the 128-bit layout for all hashes x boundary field fillings; tabulated ids compared bit for bit with the real functions; real generator checked for all 2^16 hashes x draws; flag functions on all single-bit patterns/complements/random; routing agreement for all P,B<=64.",
         "2^128 space of the flag functions covered by bit independence + sampling.", "5/C23", "h-topology"),
 "C17": ("fault_enumeration", "SegFault.tla fault-class model checked by TLC, expanded by the harness to every bit/byte position on real segment files; round trip via SegLog.tla behaviour replay",
         "TLC enumerates 1056 (header size, length class, compression, fault kind, region) classes with the required outcome 'detected'; the harness corrupts a real 3-record segment at every position of each class (single-bit flips, bursts up to 32 bits, truncations as zero tail and as shortened file) and runs random read, sequential read, iteration, parse_record and Writer::open on every image (3.4e6 images quick); round trip and reopen resumption are checked by replaying SegLog.tla behaviours.",
         "CRC-32 burst detection is exercised, not derived; middle of payloads larger than 4 KiB is strided.", "5/C17", "h-seglog"),
 "C18": ("model_checking", "SegLog.tla (writer + read-ahead caches at cell granularity) model-checked by TLC; behaviours with prescribed read results replayed on real Writer/Readers",
         "TLC explores all operation sequences (append, flush, sync, set_len, compression toggle, reopen, random/sequential read, iteration, header replacement with two long-lived readers) to the depth bound with invariants CursorAtWofs, FlushedIsLog, ReadBelowFlushedExact, NoReadBeyondFlushed; exhaustive-frontier and simulated behaviours are replayed on a real Writer<H> and two long-lived Readers (H=1,8) under five byte layouts that hit every read path, each read compared with the prescribed record identity/header version or absence.",
         "Operations are replayed sequentially; truncated tails are zero-filled by the harness (model assumption stated in SegLog!SetLen).", "5/C18", "h-seglog"),
 "C02": ("model_checking", "EventStore.tla append rule model-checked by TLC; simulated histories with prescribed outcomes replayed on a real Database",
         "TLC applies every transaction shape within bounds in every reachable state of the reference event-store model (gapless versions, one key per stream, contiguous transactions); simulated 40-transaction histories carry the prescribed accept/reject outcome, assigned sequences and per-event versions and the latest version/sequence of every stream/partition after every step, and are replayed on a real Database under several storage variants with reopen stutters.",
         "Reject kinds are compared as accept/reject only.", "5/C02", "h-store"),
 "C03": ("model_checking", "EventStore.tla read operators as oracle; histories replayed on a real Database and every scan/lookup compared",
         "Histories generated from the model are built on a real Database with layouts that straddle 64 KiB blocks and 128 KiB..1 MiB segments; every stream and partition is scanned from every start position (0..len+2, u64::MAX), both directions, batch sizes 1,2,3,7,50, in the live segment, across sealed segments and after reopen, and compared with the model's operators with exactly the latitude the statement gives for reverse scans.",
         "Start positions are sampled for logs longer than 24 events in intermediate checks (dense at the end of each history).", "5/C03", "h-store"),
 "C01": ("model_checking", "Durability.tla (sync/ack/rollover protocol) model-checked by TLC; hook-recorded traces of real runs validated by TLC against TraceDurability.tla",
         "TLC explores Durability.tla exhaustively (AckedDurable, AckedPublished, PublishedFindable, ReaderNeverMisses, PublishedMonotone). Real runs (EventStore-generated histories incl. rejected/failed appends, rollovers, 4 concurrent clients, close+reopen; sync-per-append vs timer sync, compression on/off) are recorded through cfg-gated hooks at fsync/publish/reply/rollover points plus client-side acknowledgements and read-after-ack results; TLC replays the trace line by line through the specification's actions and evaluates every invariant in every state; reads right after each acknowledgement and after reopen are also compared with the reference model.",
         "fsync observed at the hook after File::sync_data returns; traces are single-bucket; byte offsets are converted to the model's unit (completed transactions) before validation.", "5/C01", "h-store"),
 "C05": ("fault_enumeration", "Recovery.tla (record-level crash/recover model) checked by TLC; its crash classes expanded to byte-level crash images of a real data directory and reopened",
         "Recovery.tla enumerates histories x acknowledged prefix x (complete tail records, torn) and TLC checks RecoversPrefix; each class is expanded to concrete crash images (every record boundary, byte positions inside the next record, zero tail) of a real database directory, each reopened with DatabaseBuilder::open, all read APIs compared with the model after the kept transactions, then an append must continue sequences and versions.",
         "A process crash keeps every byte that reached write(2); index files of the open segment are as at the last acknowledgement.", "5/C05", "h-store"),
 "C20": ("model_checking", "Durability.tla liveness (every reply is eventually acknowledged) checked by TLC under fairness; hook traces of concurrent real runs validated against TraceDurability.tla with a wall-clock deadline",
         "TLC checks EveryAppendCompletes on Durability.tla with liveness on (3 transactions, rollover, failed write, weak fairness of fsync/publish/reply/rollover). Concurrent clients run every sync configuration on a real Database with frequent rollovers; each call must return within the deadline and each run's hook trace must be accepted by TraceDurability.tla, which requires no reply left unacknowledged.",
         "Bounded time = liveness under fairness in the model + 5 s wall-clock bound on real runs; never-syncing library configuration excluded.", "5/C20", "h-store"),
 "C19": ("model_checking", "Space.tla (estimate vs stored size, rollover rule) model-checked by TLC; its fill classes expanded to every byte of free space around both sizes on a real Database",
         "TLC checks NoOverflow/AcceptedWithinOneRetry/AcceptedAtOnce for every fill level and (estimate, stored) pair of the writer thread's space rule; the class table (free vs estimate, free vs stored, compression shrinks/same) with prescribed outcome and rollover count is expanded on a real Database: segment sizes x compression x payload kinds x shapes x lengths, the live segment filled so that free space takes every value from min(estimate,stored)-2 to max+2, then the append's outcome, rollover and readability are compared.",
         "Domain: transactions whose uncompressed estimate and stored size fit an empty segment; stored size is measured on a scratch database (it can differ by a byte or two between runs with compression on, which does not affect the prescribed outcome).", "5/C19", "h-store"),
 "C16": ("model_checking", "recorded outcomes of racing clients explained by TLC as a serial order of EventStore.tla (TraceSerial.tla)",
         "Clients race conflicting optimistic appends on shared streams/partitions of a real Database (1-4 buckets, 1-2 writer threads); every call with its outcome and the final latest versions/sequences are recorded; TLC searches TraceSerial.tla for a serial order of the reference model that reproduces every accepted call's sequences and versions, rejects every rejected call in some state of the order and ends in the recorded final state. No order = violation.",
         "Serial order need not respect real-time order of non-overlapping calls; per-event versions of an accepted call are derived from its reported latest stream version.", "5/C16", "h-store"),
 "C04": ("model_checking", "TxAtomic.tla (record-by-record writes, commit record, index publication, truncation, crash/recovery) model-checked by TLC; writer parked through hooks inside real transactions while every read API runs; histories and crash images checked for group completeness",
         "TLC checks NoPartialTx/InFlightInvisible/NoDanglingEntry on TxAtomic.tla for all interleavings of writer steps, syncs and crash cuts; for every transaction shape of the model the real writer thread is parked after each written event, before the commit record and before the reply while all read APIs are compared (nothing of the in-flight or failed transaction, everything committed); generated histories with failed transactions and crash images cut between events and commit are read back with every scan group checked for transaction completeness.",
         "read_transaction is exercised with the first event's id (its documented argument); event lookup returning the single requested event is by design.", "5/C04", "h-store"),
 "C15": ("model_checking", "Durability.tla two-step reader lookups x rollover sub-steps model-checked by TLC; every reachable (writer position at live lookup, writer position at pool lookup) pair forced on a real Database through hook-controlled threads; free-running stress",
         "TLC explores Durability.tla (1 writer, readers with live-index step and reader-pool step, rollover sub-steps) with ReaderNeverMisses/PublishedMonotone and emits every reachable pair of writer positions at a reader's two steps; each pair is forced on a real Database by parking the writer thread at hook points through a real rollover and the reader between its two lookups, for each read API; reads must contain everything acknowledged before they started and a later read must not lose anything; plus 4 writers / 4 readers racing over small segments.",
         "Windows between two hook points are covered by the stress part only; quick tier runs two of the six read APIs per schedule (rotating).", "5/C15", "h-store"),
 "C06": ("fault_enumeration", "IndexCrash.tla (per-file crash cut classes, required recovery) checked by TLC; classes expanded to byte-level truncations of the real index files of a sealed segment and reopened",
         "IndexCrash.tla enumerates the 252 joint classes (each of the three index files empty / cut in magic, counts, MPHF, bloom, records / complete) with the required outcome; each class is expanded to concrete truncation lengths on a real data directory with sealed segments (two buckets at different segment ids), the image is reopened with DatabaseBuilder::open and every acknowledged event is looked up by id, stream scan and partition scan. The as-is behaviour (no rebuild) is recorded as two known findings keyed by failure kind and cut class; any other failure (e.g. with complete files, or a different failure kind) is reported.",
         "The sealed segment's data file is complete and fsynced. Known findings: reopen blocked for header-level cuts, lookups failing for record-level cuts.", "5/C06", "h-store"),
 "C26": ("model_checking", "Breaker.tla (atomic-operation grain, free clock) model-checked by TLC; its interleavings replayed step by step on real threads parked at hook points in front of every atomic operation of WriteCircuitBreaker",
         "TLC explores every interleaving of 2 threads x 2 operations (thorough: 3 threads), and one thread x 6 operations (whole outage cycles), of the breaker's atomic operations and clock readings with NoUnderflow, OpensOnlyAfterThreshold, ProbesBoundedUnlessLateReset; one behaviour per distinct final state plus random walks are replayed on the real WriteCircuitBreaker (dev profile): real threads are released one hook-to-hook step at a time in the schedule's order with the model's clock, the next hook reached and every return value must match, a panic is a violation. The residual probe-bound race (separate atomics) is a recorded finding whose schedule is replayed on every run.",
         "Episode = from a successful Open->HalfOpen compare_exchange to the next one; recorded finding c26:probes:late-reset.", "5/C26", "h-cluster"),
 "C08": ("model_checking", "Watermark.tla (reports in any order, persistence steps, crash, restart) model-checked by TLC; behaviours replayed on a real BucketConfirmationManager + Database with crash images taken at hook points between the persistence steps",
         "TLC checks Monotone, Sound, Complete and RestartNoRegress for every target vector, delivery order with duplicates and stale lower counts, replication factors 1-3 and every crash point of the temp/remove/rename/rename sequence; stale-count histories from the exhaustive runs and random walks are replayed on the real manager (on-disk counts raised through Database::set_confirmations, update_confirmation, persist_bucket_state with directory snapshots at the hook points, fresh manager initialised on the snapshot) comparing the watermark after every step.",
         "On-disk count of an event >= every count reported for it (write path order). The automatic persistence inside update_confirmation is an allowed PersistStep of the model.", "5/C08", "h-cluster"),
 "C07": ("model_checking", "Gating.tla (watermark = longest quorum-confirmed prefix, visible set) checked by TLC over all small histories; every history built on a real Database under the real ClusterActor and queried with every argument tuple",
         "TLC enumerates all partition histories of up to 3-4 transactions with confirmation counts below/at/above the quorum for rf 1,2,3,5 and checks the gate's own properties; each history is built on disk, given to the real ClusterActor (once with the watermark derived from disk by the real ConfirmationActor, once with the actor running first and the confirmed transactions reported live through ConfirmTransaction in reverse order, so that unreported events are holes) and ReadEvent, ReadPartition, ReadStream, GetStreamVersion, GetPartitionSequence are sent for every event / (start, end, count) / stream; no answer may reveal anything at or above the specification's watermark; stream reads are also addressed to a fully confirmed sibling partition of the same bucket (shared stream index, other watermark).",
         "Single-process cluster (node_count 1): forwarding between replicas not exercised; answers revealing fewer events than visible are counted, not judged.", "5/C07", "h-cluster"),
 "C12": ("model_checking", "Replicator.tla (ordered buffer, drain, expiry, catch-up) model-checked by TLC; one behaviour per quiescent final state replayed on a real PartitionReplicatorActor with real ReplicateWrite asks, timers and catch-up",
         "TLC explores every delivery order, duplication and conflict pattern of six replicated transactions (single/2-event, conflicting, inside a multi-event range) with buffer limits 1-3 and checks AppliedAtAssignedSeq, AtMostOnce, NoPendingBelowNext, RejectLeavesLogUnchanged, AllAnsweredAtRest; behaviours are replayed on a real PartitionReplicatorActor (real Database, ConfirmationActor, catch-up served by the real ClusterActor): the reply of every delivery and the replica's partition log are compared.",
         "Replica database written by its replicator only; expiry and catch-up replayed as alternative configurations; an evicted write whose evicting insert then conflicts is dropped rather than answered BufferEvicted (modelled as the code does).", "5/C12", "h-cluster"),
 "C10": ("model_checking", "Replication.tla (3 nodes, divergent views, loss/duplication/reordering, late replies, catch-up, give-up, crash/restart) model-checked by TLC; random walks replayed on a virtual cluster of real Databases, replicator actors and the real ConfirmTransaction handler",
         "TLC checks OneConfirmedPerSeq, ConfirmedPrefixAgree and QuorumCountMeansQuorumHeld over every schedule of the bounded model (two simultaneous coordinators through divergent views included); simulated behaviours with three transactions are replayed on three real Database directories with real PartitionReplicatorActors: real local appends, ReplicateWrite asks, set_confirmations_with_retry, ConfirmTransaction handled by the real ClusterActor switched to the replica's database, close/reopen for crash/restart; every reply, and finally every node's log and on-disk counts, must be the specification's, and no sequence may hold two quorum-confirmed transactions on the real disks.",
         "One ClusterActor per process: coordinator fan-out / reply counting for rf = 3 is decided on the specification and mirrored by the harness; catch-up behaviours are not replayed here (C12 does).", "5/C10-C11", "h-cluster"),
 "C11": ("model_checking", "Replication.tla AckedOnQuorum / AckedStable model-checked by TLC; the same virtual-cluster replay, with the acknowledged transactions checked on the real disks",
         "TLC checks AckedOnQuorum (an acknowledged write sits at its sequence on a quorum of nodes and carries a quorum count on the coordinator) and AckedStable (logs only grow, acknowledgements are never withdrawn) over every schedule of the bounded model; in the virtual-cluster replay every transaction the specification acknowledges must be stored on a quorum of the real Database directories with the coordinator's on-disk count at the quorum, also after crash/restart steps.",
         "Same trusted base as C10; a replica's Ok reply implies its append is durable (C01).", "5/C10-C11", "h-cluster"),
 "C09": ("model_checking", "Subscription.tla (broadcast ring, history batches, hand-over, window) model-checked by TLC; traces of real subscriptions on the real ClusterActor validated by TLC against TraceSub.tla",
         "TLC explores Subscription.tla for partition and stream matchers with InOrderNoGap, OnlyConfirmed, WindowRespected, CompleteAtRest (two named deviations must fail); real Subscribe runs on the real ClusterActor for Partition / Partitions / Stream / Streams matchers with unconfirmed events confirmed through the real ConfirmTransaction handler while the subscriber receives and acknowledges, including history reads parked (hook) between batches while the watermark advances; the recorded trace is validated line by line by TLC.",
         "Single process; confirmations arrive through ConfirmTransaction; a record must lie below the watermark implied by the confirmations issued before it was received.", "5/C09", "h-cluster"),
 "C21": ("model_checking", "Commands.tla (documented grammar as a generator, with the request each line denotes and near-misses that denote rejection) enumerated by TLC; every row parsed by the real sierradb-server command parsers; every sierradb-client emitter captured and parsed the same way",
         "TLC enumerates ~14,400 command lines of EAPPEND, EMAPPEND, ESUB, EPSUB, ESCAN, EPSCAN, EGET, ESVER, EPSEQ, EACK (positional arguments, every subset and order of optional clauses, keyword case, boundary numbers, multi-stream / multi-partition forms, near-misses) each with its denotation, and checks the grammar's own invariant (a keyword never denotes a positional value); each row is framed as RESP3 and parsed with <Command>::parser().skip(eof()), the result compared field by field with the denotation; all CmdExt builders and SubscriptionManager::subscribe_* functions are invoked, their emitted arguments captured (loopback endpoint for the manager) and parsed the same way.",
         "Blob-string framing; the EPSUB partition-key form is compared up to the partition id, which is resolved at handling time (C22 exercises it).", "5/C21", "h-resp"),
 "C22": ("model_checking", "Api.tla (RESP commands as actions over the reference event store, with the prescribed reply of every command and what every subscription owes) model-checked by TLC; simulated command histories sent as raw RESP3 over TCP to a real single-node server and every reply / pushed message compared",
         "TLC checks the API model's own properties for every command over small bounds (AppendReplyMatchesLog, PagingComplete, FlagsConsistent, WindowBound, store invariants) and generates 45-command histories (EAPPEND / EMAPPEND with right and wrong expectations, key conflicts, boundary timestamps; EGET; ESCAN / EPSCAN with boundary starts, ends and counts; ESVER; EPSEQ; ESUB / EPSUB in every selector and FROM form with windows; EACK; 40 kinds of invalid request; strict and lax versioning). Each history runs against a real Database + ClusterActor + Server over a TCP connection in the dev profile (overflow checks on) under three storage variants; replies are compared field by field, subscription pushes with what is owed per unit in order, and the connection must stay usable.",
         "Single node, replication factor 1, one connection; has_more over-reporting on a non-empty last page is tolerated (counted); reads through a key of another partition of the same bucket are outside the domain.", "5/C22", "h-resp"),
}

NOT_YET = "not yet built in this session (planned: see DESIGN.md section 5); no claim is made"

ENGINES = [
 {"name": "h-topology", "path": "harness/h-topology", "serves_properties": ["C13", "C14", "C23", "C24", "C25"],
  "kind_free_text": "Rust harness linked against /repo: table comparison with TLC output, behaviour replay on TopologyManager, exhaustive function comparison"},
 {"name": "h-seglog", "path": "harness/h-seglog", "serves_properties": ["C17", "C18"],
  "kind_free_text": "Rust harness linked against /repo/crates/seglog: SegLog.tla behaviour replay on Writer/Reader, SegFault.tla class expansion to concrete corruptions"},
 {"name": "h-store", "path": "harness/h-store", "serves_properties": ["C01", "C02", "C03", "C04", "C05", "C06", "C15", "C16", "C19", "C20"],
  "kind_free_text": "Rust harness linked against /repo/crates/sierradb: EventStore/Durability behaviour replay on a real Database, read oracle, crash-image enumeration, schedule control through cfg-gated hooks"},
 {"name": "h-cluster", "path": "harness/h-cluster", "serves_properties": ["C07", "C08", "C09", "C10", "C11", "C12", "C26"],
  "kind_free_text": "Rust harness linked against /repo/crates/sierradb-cluster: schedule replay on the circuit breaker, confirmation/watermark replay, replicator replay, read gating, subscriptions, virtual cluster"},
 {"name": "h-resp", "path": "harness/h-resp", "serves_properties": ["C21", "C22"],
  "kind_free_text": "Rust harness linked against /repo/crates/sierradb-server and sierradb-client: Commands.tla rows through the real combine parsers, client emitters captured on a loopback RESP endpoint; Api.tla histories replayed over TCP on a real single-node server"},
 {"name": "tlc", "path": "spec", "serves_properties": sorted(P.keys()),
  "kind_free_text": "TLA+ specifications checked with TLC 1.8 (exhaustive + simulation), behaviours/tables exported as JSON"},
]


def main():
    ids = [json.loads(l)["id"] for l in open(os.path.join(HERE, "properties.jsonl"))]
    hooks_commits = []
    try:
        out = subprocess.run(["git", "-C", "/repo", "log", "--format=%H %s"], capture_output=True, text=True).stdout
        hooks_commits = [l.split()[0] for l in out.splitlines() if l.split(" ", 1)[1].startswith("verif-hook")]
    except Exception:
        pass
    m = {
        "version": 1,
        "setup_cmd": "cd /verif && ./setup.sh",
        "hooks": {
            "guard": "sierra_db_sierradb_verif",
            "enable": "RUSTFLAGS --cfg sierra_db_sierradb_verif via /verif/harness/.cargo/config.toml (harness workspace has path dependencies on /repo/crates/*)",
            "baseline_off_cmd": "cd /repo && cargo nextest run --workspace --no-fail-fast --test-threads 8 --offline || cargo test --workspace --no-fail-fast --offline",
            "source_commits": hooks_commits,
            "add_only": True,
        },
        "engines": ENGINES,
        "checks": [],
        "not_applicable": [],
        "notes": "Model-based verification with explicit TLA+ specifications (spec/*.tla) checked by TLC and bound to the Rust code by "
                 "behaviour replay, trace validation, spec-driven fault enumeration and exhaustive function comparison. "
                 "Driver: ./check <ID> --tier quick|thorough. Known findings: known_findings.json.",
    }
    for pid in ids:
        if pid in P:
            cat, tech, text, note, ref, eng = P[pid]
            m["checks"].append({
                "property_id": pid,
                "quick_cmd": "./check %s --tier quick" % pid,
                "thorough_cmd": "./check %s --tier thorough" % pid,
                "evidence_file": "/verif/evidence/%s.json" % pid,
                "replay_cmd_template": "./check %s --replay {path}" % pid,
                "engine": eng,
                "level_claimed": {"category": cat, "text": text, "design_ref": "DESIGN.md section " + ref},
                "level_note": note,
                "technique": tech,
            })
        else:
            m["not_applicable"].append({"property_id": pid, "reason": NOT_YET})
    with open(os.path.join(HERE, "MANIFEST.json"), "w") as f:
        json.dump(m, f, indent=1)
        f.write("\n")
    print("claimed:", len(m["checks"]), "not_applicable:", len(m["not_applicable"]))


if __name__ == "__main__":
    main()
