#!/bin/sh
# Builds the verification framework offline from files on disk (run once after a fresh restore).
set -e
cd "$(dirname "$0")"
export CARGO_NET_OFFLINE=true
mkdir -p evidence .work replays
# 1. every specification module parses
for f in spec/*.tla; do
  m=$(basename "$f" .tla)
  (cd spec && java -cp /opt/veriftools/tla/tla2tools.jar:/opt/veriftools/tla/CommunityModules-deps.jar tla2sany.SANY "$m.tla" > /tmp/sany.$$ 2>&1) || { cat /tmp/sany.$$; rm -f /tmp/sany.$$; echo "SANY failed for $m"; exit 1; }
  if grep -q "Semantic errors\|Parse Error\|Fatal errors" /tmp/sany.$$; then cat /tmp/sany.$$; rm -f /tmp/sany.$$; exit 1; fi
done
rm -f /tmp/sany.$$
# 2. harness binaries (dev profile = overflow checks on; release for the exhaustive sweeps)
cd harness
[ -f Cargo.lock ] || cp /repo/Cargo.lock .
cargo build --offline -q
cargo build --offline -q --release -p h-topology -p h-seglog
echo "setup ok"
